"""C13 — the protocol version is negotiated downward only and then enforced.

R1 every write of the negotiated version outside the constructor provably lowers it (guard => new < old), and each
   of the three documented downgrade triggers is in place with its continuation
R2 the first-PDU flag is reset per connection and consumed by the first header
R3 a PDU with another version (and not an Error Report) is refused before its payload is read: report code 8, failure
R4 belief/return-set agreement: every constant a caller compares a callee's status result with can really be
   returned by that callee (the hang-up downgrade needs TR_CLOSED from rtr_receive_pdu)
"""
from engine import es, flow, fsm, vf
from engine.pdb import AnalysisBroken
from specs import rfc8210

SOCK = ("arg", 0)
VERSION = ("load", ("fld", SOCK, "rtr_socket.version"))
HRP = ("fld", SOCK, "rtr_socket.has_received_pdus")


def _switch_case_of(fn, inst):
    """(switch inst, case value) if inst is dominated by exactly one case edge of a switch"""
    out = []
    for b in fn.blocks:
        t = b.term
        if t.op == "switch":
            for k, dst in t["cases"]:
                if dst != t["default"] and fn.bdom(dst, inst.block.id) and [c for c in t["cases"] if c[1] == dst] == [[k, dst]] \
                        and all(p == b.id or fn.bdom(dst, p) for p in fn.blocks[dst].preds):
                    out.append((t, k))
    return out


def _only_for_code(pdb, fn, store, code, retsets):
    """the store is reached for error code `code` and for no other code (evaluated per code value)"""
    def is_code(pe):
        return vf.last_field(pe) == "pdu_error.error_code"
    reached = {}
    for c in range(0, 12):
        hit = []

        def classify(inst, E, st):
            if inst is store:
                hit.append(1)
            return None
        es.count_effects(fn, pdb, classify, retsets, values=lambda pe, c=c: (c if is_code(pe) else None))
        reached[c] = bool(hit)
    return reached.get(code) and not any(v for k, v in reached.items() if k != code)


def _followed_by_state(pdb, fn, store, want, retsets):
    """on every path from `store` to a return the socket state is changed to `want` (value decided on that path)"""
    def classify(inst, E, st):
        if inst is store:
            return ["=vs:1"]
        if inst.op == "call" and inst.callee == fsm.CHANGE and st.get("vs") == "1":
            v = flow.av_single(E.val(inst.args[1]))
            return ["=to:%s" % v]
        return None
    outs, fl = es.count_effects(fn, pdb, classify, retsets, cap=96)
    sel = [o for o in outs if o["counts"].get("vs") == "1"]
    return bool(sel) and all(o["counts"].get("to") == str(want) for o in sel)


HANDLER = "rtr_handle_cache_response_pdu"


def _after_answer(pdb, fn, inst, depth=3):
    """where the cache's answer (a Cache Response handed to its handler) may already have been accepted when `inst` runs:
    a handler call from which inst is reachable, in fn or - through the call sites of fn - in its callers"""
    for h in fn.calls(HANDLER):
        if (h.block.id == inst.block.id and h.idx < inst.idx) or inst.block.id in fn.reachable_blocks(h.block.id):
            return h.loc()
    if depth > 0:
        for c in pdb.callers(fn.name):
            r = _after_answer(pdb, c.fn, c, depth - 1)
            if r:
                return r
    return None


def _reached(pdb, fn, inst, retsets):
    """some path of fn executes inst (a copy of an inlined helper specialised by a constant argument may be dead)"""
    hit = []

    def classify(i, E, st):
        if i is inst:
            hit.append(1)
        return None
    es.count_effects(fn, pdb, classify, retsets)
    return bool(hit)


def r1(ctx, retsets):
    pdb = ctx.pdb
    ctx.rule("C13.R1", "every store to the negotiated version outside rtr_init lowers it: constant below the value the "
             "guard pins, received version under 'received < current' (and within the supported range), or current-1 "
             "under 'current > minimum'; each is followed by its documented continuation")
    MAX, MIN = 1, 0   # RFC 6810 (version 0) and RFC 8210 (version 1) are the versions whose PDU formats the client parses
    stores = vf.stores_to_field(pdb, "rtr_socket.version")
    ctx.floor("C13.R1", len(stores), 4)
    triggers = set()
    st = pdb.enum("rtr_socket_state")
    for s in stores:
        fn = s.fn
        ctx.touch(fn)
        v = vf.expr(fn, s["val"])
        if fn.name == "rtr_init":
            ctx.check(v == ("c", MAX), "C13.R1", "rtr_init:version", s.loc(), "socket opens with version %s (highest supported: %d)" % (vf.show(v), MAX),
                      key="C13.R1:init")
            continue
        if not _reached(pdb, fn, s, retsets):
            # the copy of a shared helper inside a caller that switches this part off with a constant argument
            ctx.ok("C13.R1", "%s:version-store-unreachable" % fn.name, s.loc(), "no path of %s executes this store" % fn.name)
            continue
        guards = [(vf.expr(fn, c), t) for c, t, br in es.guards_of(fn, s)]
        G = es.Guards(fn, s)
        cur = ("load", ("fld", vf.root_of(vf.expr(fn, s["ptr"])), "rtr_socket.version"))
        lowered = False
        why = ""
        if v[0] == "c":
            pins = [b for (a, b) in G.find_eq(lambda x: x == cur, lambda y: y[0] == "c") if b[1] > v[1]]
            above = [a for (r, a, b) in G.rel if r == "lt" and b == cur and a[0] == "c" and a[1] >= v[1]] + \
                    [a for (r, a, b) in G.rel if r == "le" and b == cur and a[0] == "c" and a[1] > v[1]]
            if pins or above:
                lowered, why = True, "constant %d while the current version is %s" % (v[1], ("== %d" % pins[0][1]) if pins else ("> %d" % above[0][1]))
            kind = "first-pdu"
        elif v[0] == "bin" and v[1] in ("sub", "add") and v[2] == cur and v[3][0] == "c" and \
                ((v[1] == "sub" and v[3][1] > 0) or (v[1] == "add" and v[3][1] < 0)):
            dec = abs(v[3][1])
            lows = [a[1] + 1 for (r, a, b) in G.rel if r == "lt" and b == cur and a[0] == "c"] + [a[1] for (r, a, b) in G.rel if r == "le" and b == cur and a[0] == "c"]
            if G.ne(cur, ("c", MIN)) and MIN == 0:
                lows.append(1)
            if lows and max(lows) >= MIN + dec:
                lowered, why = True, "current-%d while current >= %d" % (dec, max(lows))
            kind = "hang-up"
        else:
            lt = G.lt(v, cur)
            lo = G.le(("c", MIN), v) or MIN == 0
            hi = G.le(v, ("c", MAX)) or lt
            lowered = lt and lo and hi
            why = "%s under received<current=%s, >=min=%s, <=max=%s" % (vf.show(v), lt, lo, hi)
            kind = "error-report"
        ctx.check(lowered, "C13.R1", "%s:version<-%s" % (fn.name, vf.show(v)), s.loc(),
                  why or "no dominating guard shows that %s is below the current version" % vf.show(v),
                  key="C13.R1:%s:lowered" % fn.name)
        if not lowered:
            continue
        triggers.add(kind)
        if kind == "first-pdu":
            gs = [vf.show(g) for g, t in guards]
            G = es.Guards(fn, s)
            is_hdr = lambda f_: (lambda x: x[0] == "load" and vf.last_field(x[1]) == "pdu_header." + f_)
            flag = G.zero(("load", HRP)) or G.false(lambda e: vf.mentions(e, lambda x: x == ("load", HRP)))
            noterr = bool(G.find_ne(is_hdr("type"), lambda y: y == ("c", 10)))
            hv = bool(G.find_eq(is_hdr("ver"), lambda y: y == ("c", v[1])))
            # only a header that has passed the length checks counts as "the cache speaks the lower version" (eight arbitrary bytes do not)
            lens = [b for (r, a, b) in G.rel if r in ("le", "lt") and a[0] == "c" and a[1] >= (8 if r == "le" else 7) and is_hdr("len")(b)]
            lenu = [a for (r, a, b) in G.rel if r in ("le", "lt") and b[0] == "c" and b[1] <= 3248 + (0 if r == "le" else 1) and is_hdr("len")(a)]
            wellformed = bool(lens) and bool(lenu)
            ctx.check(flag and noterr and hv and wellformed, "C13.R1", "first-pdu-downgrade:conditions", s.loc(),
                      "first PDU of the connection=%s, not an Error Report=%s, header carries exactly the lower version=%s, header length within 8..3248 already checked=%s" % (
                          flag, noterr, hv, wellformed), key="C13.R1:first-pdu:conditions")
        elif kind == "error-report":
            on4 = _only_for_code(pdb, fn, s, rfc8210.ERROR_CODES["unsupported protocol version"], retsets)
            fast = _followed_by_state(pdb, fn, s, st["RTR_FAST_RECONNECT"], retsets)
            ctx.check(on4 and fast, "C13.R1", "error-report-downgrade:conditions", s.loc(),
                      "only for error code 4=%s, followed by RTR_FAST_RECONNECT=%s" % (on4, fast), key="C13.R1:error-report:conditions")
        elif kind == "hang-up":
            closed = pdb.enum_value("TR_CLOSED")
            G = es.Guards(fn, s)
            c1 = bool(G.find_eq(lambda x: x[0] == "call" and x[1] == "rtr_receive_pdu", lambda y: y == ("c", closed)))
            c2 = G.nonzero(("load", ("fld", SOCK, "rtr_socket.request_session_id")))
            fast = _followed_by_state(pdb, fn, s, st["RTR_FAST_RECONNECT"], retsets)
            ctx.check(c1 and c2 and fast, "C13.R1", "hang-up-downgrade:conditions", s.loc(),
                      "connection closed=%s, no session yet=%s, followed by RTR_FAST_RECONNECT=%s" % (c1, c2, fast), key="C13.R1:hang-up:conditions")
            # RFC 8210 section 7: the hang-up that means 'I do not speak this version' is the one that answers the query; once a
            # Cache Response was accepted the cache has shown that it does, and a later hang-up is a transport failure
            ans = _after_answer(pdb, fn, s)
            ctx.check(ans is None, "C13.R1", "hang-up-downgrade:before-any-answer", s.loc(),
                      "no Cache Response can have been accepted before this receive failed" if ans is None else
                      "reachable after the Cache Response was accepted at %s: a cache that already answered in this version is downgraded" % ans,
                      key="C13.R1:hang-up:before-answer:%s" % fn.name)
    for k in ("first-pdu", "error-report", "hang-up"):
        ctx.check(k in triggers, "C13.R1", "trigger-present:%s" % k, "rtrlib/rtr/packets.c", "downgrade trigger '%s' exists" % k,
                  key="C13.R1:trigger:%s" % k)


def r2(ctx):
    pdb = ctx.pdb
    ctx.rule("C13.R2", "has_received_pdus is cleared before every tr_open and set by the first header received; only the "
             "first header may trigger the live downgrade")
    st = pdb.enum("rtr_socket_state")
    outs = fsm.explore_arm(pdb, st["RTR_CONNECTING"], forks={"tr_open": [-1, 0]})
    n = 0
    for o in outs:
        ev = [e[:3] for e in o["events"]]
        idx = [i for i, e in enumerate(ev) if e[:2] == ("call", "tr_open")]
        if idx:
            n += 1
            ctx.check(("store", "has_received_pdus", 0) in ev[:idx[0]], "C13.R2", "CONNECTING:flag-cleared#%d" % n, "rtrlib/rtr/rtr.c",
                      "events before open: %s" % ev[1:idx[0]], key="C13.R2:clear")
    ctx.floor("C13.R2", n, 2)
    fn = pdb.fn("rtr_receive_pdu")
    ctx.touch(fn)
    sets = [i for i in fn.all_insts() if i.op == "store" and vf.store_field(i) == "rtr_socket.has_received_pdus"]
    ctx.floor("C13.R2", len(sets), 1)
    for s in sets:
        guards = [(vf.expr(fn, c), t) for c, t, br in es.guards_of(fn, s)]
        first = any(vf.mentions(g, lambda x: x == ("load", HRP)) and not t for g, t in guards)
        # setting the flag again on a later header changes nothing: the store may also be unconditional
        never = any(vf.mentions(g, lambda x: x == ("load", HRP)) and t for g, t in guards)
        ctx.check(vf.expr(fn, s["val"]) == ("c", 1) and not never, "C13.R2", "receive:flag-set-by-first-header", s.loc(),
                  "set to true %s" % ("under !has_received_pdus" if first else ("only when it is already set" if never else "by every header")), key="C13.R2:set")
    # whatever the first PDU is (an Error Report as well), a header that passed the length checks uses up the first-PDU slot
    left = []
    ncell = 0
    for t in range(0, 12):
        ncell += 1

        def values(pe, t=t):
            f = vf.last_field(pe) or ""
            if f.startswith("pdu_header.") and vf.root_of(pe)[0] == "alloca":
                return {"type": t, "len": 20}.get(f.split(".")[1])      # a header whose length is within bounds
            return None
        oracle = None

        def classify(inst, E, st_):
            if inst.op == "call" and inst.callee == "tr_recv_all":
                return [([], {inst.ref: flow.av_in(0)})]
            if rfc8210.conv_kind(pdb, fn, inst) == ("header", "host"):
                return ["=hdr:1"]
            return None
        outs2, _f = es.count_effects(fn, pdb, classify, None, oracle=oracle, values=values, cell={HRP: 0}, pinned=lambda pe: pe == HRP, cap=96)
        outs2 = [o for o in outs2 if o["counts"].get("hdr") == "1"]      # a header was received and decoded
        for o in outs2:
            if flow.av_single(o["facts"].get(("M", HRP))) != 1:
                left.append((t, o))
        if not outs2:
            raise AnalysisBroken("rtr_receive_pdu: no outcome for header type %d" % t)
    ctx.check(not left, "C13.R2", "receive:first-header-consumes-the-slot", (left[0][1]["inst"].loc() if left else "%s:%d" % (fn.relfile, fn.line)),
              ("header type %d: the call returns with has_received_pdus still false, a later PDU of this connection can still trigger the live downgrade" % left[0][0]) if left
              else "%d header types: the flag is true on every return once a header has passed the length checks" % ncell,
              key="C13.R2:slot", path=(flow.trace_lines(fn, left[0][1]["trace"]) if left else None))
    others = [i for i in vf.stores_to_field(pdb, "rtr_socket.has_received_pdus") if i.fn.name not in ("rtr_receive_pdu", "rtr_fsm_start", "rtr_init")]
    ctx.check(not others, "C13.R2", "flag-writers", "rtrlib/rtr", "written only by rtr_init, the CONNECTING arm and rtr_receive_pdu",
              key="C13.R2:writers")


def r3(ctx, retsets):
    pdb = ctx.pdb
    ctx.rule("C13.R3", "rtr_receive_pdu, header version != negotiated version and type != Error Report (not the first "
             "PDU): no payload is read, no size check passes, an Unexpected-Protocol-Version report (code 8) is sent and "
             "the call fails; with an equal version the PDU is processed")
    fn = pdb.fn("rtr_receive_pdu")
    ctx.touch(fn)
    err = pdb.enum_value("RTR_ERROR")
    seen_cmp = []

    def is_hver(e):
        return e[0] == "load" and vf.last_field(e[1]) == "pdu_header.ver" and vf.root_of(e[1])[0] == "alloca"

    def is_htype(e):
        return e[0] == "load" and vf.last_field(e[1]) == "pdu_header.type" and vf.root_of(e[1])[0] == "alloca"
    for differ, ptype in [(True, t) for t in range(0, 12) if t != 10] + [(False, 4)]:
        # decoded header: a 20-byte PDU of every type but Error Report whose version byte is / is not the negotiated one (negotiated: 1)
        def values(pe, differ=differ, ptype=ptype):
            f = vf.last_field(pe) or ""
            if f.startswith("pdu_header.") and vf.root_of(pe)[0] == "alloca":
                return {"len": 20, "type": ptype, "ver": 0 if differ else 1}.get(f.split(".")[1])
            if pe == ("fld", SOCK, "rtr_socket.version"):
                return 1
            return None

        def classify(inst, E, st):
            if inst.op == "call" and inst.callee:
                if inst.callee == "tr_recv_all":
                    return [(["recv"], {inst.ref: flow.av_in(8)})]
                if inst.callee == "rtr_pdu_check_size":
                    return ["sizecheck"]
                if inst.callee.startswith("rtr_send_error_pdu"):
                    code = flow.av_single(E.val(inst.args[3]))
                    return ["report%s" % code]
                if inst.callee == fsm.CHANGE:
                    return ["state%s" % flow.av_single(E.val(inst.args[1]))]
            return None
        outs, fl = es.count_effects(fn, pdb, classify, retsets, cell={HRP: 1, ("fld", SOCK, "rtr_socket.state"): 0}, values=values,
                                    pinned=lambda pe: pe in (HRP, ("fld", SOCK, "rtr_socket.state")))
        if not outs:
            raise AnalysisBroken("rtr_receive_pdu: no return state in version cell")
        if differ:
            code = rfc8210.ERROR_CODES["unexpected protocol version"]
            bad = [o for o in outs if o["counts"].get("recv", 0) != 1 or o["counts"].get("sizecheck") or
                   o["counts"].get("report%d" % code) != 1 or o["ret"] != flow.av_in(err)]
            ctx.check(not bad, "C13.R3", "receive[version differs, PDU type %d]" % ptype, (bad[0]["inst"].loc() if bad else "%s:%d" % (fn.relfile, fn.line)),
                      "outcomes: %s" % [(o["counts"], o["ret"]) for o in outs][:4], key="C13.R3:differs")
        else:
            good = any(o["ret"] == flow.av_in(0) and o["counts"].get("sizecheck") for o in outs)
            ctx.check(good, "C13.R3", "receive[version equal]", "%s:%d" % (fn.relfile, fn.line), "a PDU of the negotiated version reaches the size check and success",
                      key="C13.R3:equal")
    vloads = [i for i in fn.all_insts() if i.op == "load" and vf.expr(fn, i["ptr"]) == ("fld", SOCK, "rtr_socket.version")]
    if not vloads:
        raise AnalysisBroken("rtr_receive_pdu: the negotiated version is never read")


def belief_contradictions(pdb, retsets, units):
    """(icmp inst, callee, K) where a call result of `callee` is compared (eq/ne) with constant K not in retset(callee)"""
    out = []
    n = 0
    for f in pdb.all_functions():
        if not any(f.unit.startswith(u) for u in units):
            continue
        for i in f.all_insts():
            if i.op != "icmp" or i["pred"] not in ("eq", "ne"):
                continue
            for x, y in ((i["a"], i["b"]), (i["b"], i["a"])):
                if not y.startswith("#"):
                    continue
                c = f.inst(vf.strip_casts(f, x))
                if c is None or c.op != "call" or not c.callee:
                    continue
                g = pdb.resolve(f, c.callee)
                if g is None:
                    continue
                rs = retsets.get((g.unit, g.name))
                if rs is None or rs == "TOP":
                    continue
                n += 1
                k = int(y[1:])
                if g.d["ret"] == "i1":
                    k &= 1
                if k not in rs:
                    out.append((i, c.callee, k, sorted(rs)))
    return out, n


def r4(ctx, retsets):
    pdb = ctx.pdb
    ctx.rule("C13.R4", "no caller in the protocol code tests a status result for a value its callee can never return "
             "(return sets computed over the call graph); in particular rtr_sync's TR_CLOSED branch is live")
    bad, n = belief_contradictions(pdb, retsets, ["rtrlib/rtr/", "rtrlib/rtr_mgr.c"])
    ctx.floor("C13.R4", n, 15)
    fn = pdb.fn("rtr_sync")
    closed = pdb.enum_value("TR_CLOSED")
    rs = retsets.get((pdb.fn("rtr_receive_pdu").unit, "rtr_receive_pdu"))
    tested = any(i.op == "icmp" and ("#%d" % closed) in (i["a"], i["b"]) for i in fn.all_insts())
    ctx.check(tested and rs != "TOP" and closed in rs, "C13.R4", "rtr_sync:TR_CLOSED-live", "%s:%d" % (fn.relfile, fn.line),
              "rtr_receive_pdu can return %s; rtr_sync tests for TR_CLOSED=%s" % (sorted(rs) if rs != "TOP" else rs, tested),
              key="C13.R4:rtr_sync:TR_CLOSED")
    for i, callee, k, rs_ in bad:
        ctx.violation("C13.R4", "%s:%s==%d" % (i.fn.name, callee, k), i.loc(),
                      "result of %s compared with %d, but it can only return %s: the branch is dead" % (callee, k, rs_),
                      key="C13.R4:%s:%s:%d" % (i.fn.name, callee, k))
    if not bad:
        ctx.ok("C13.R4", "all-status-comparisons", "rtrlib/rtr", "%d comparisons of call results with constants agree with the callees' return sets" % n)


def check(ctx):
    retsets = flow.return_sets(ctx.pdb)
    r1(ctx, retsets)
    r2(ctx)
    r3(ctx, retsets)
    r4(ctx, retsets)
    ctx.note("End of Data formats per version are decided under C04.R2")
    from specs import C04
    with ctx.shared({"C04.R2": ("C13.R5", "a PDU is accepted only in the format of its own version byte (End of Data: 12 bytes for version 0, 24 for "
                                "version 1), and R3 ties that byte to the negotiated version")}):
        C04.r2_r3(ctx)
    with ctx.shared({"C04.R4": ("C13.R6", "a PDU that rtr_receive_pdu refused (wrong version included) is never looked at by its callers: no type "
                                "dispatch on the buffer after a negative result")}):
        C04.r4(ctx, retsets)
    from specs import C14
    with ctx.shared({"C14.R8": ("C13.R7", "the error code of a received Error Report is read in host byte order (the two bytes after the type are "
                                "converted for every PDU type but Router Key), so 'Unsupported Protocol Version' is recognised and triggers the downgrade")}):
        C14.r8(ctx)


PK = "rtrlib/rtr/packets.c"
RT = "rtrlib/rtr/rtr.c"
WITNESSES = [
    {"id": "C13.w1-error-report-accepts-higher", "rule": "C13.R1", "file": PK,
     "old": "\t\t    pdu->ver < rtr_socket->version) {", "new": "\t\t    pdu->ver != rtr_socket->version) {"},
    {"id": "C13.w2-flag-never-cleared", "rule": "C13.R2", "file": RT,
     "old": "\t\t\trtr_socket->has_received_pdus = false;\n\n\t\t\t// old pfx_record", "new": "\n\t\t\t// old pfx_record"},
    {"id": "C13.w3-version-test-only-for-empty-payload", "rule": "C13.R3", "file": PK,
     "old": "\tif (header.ver != rtr_socket->version && header.type != ERROR) {\n\t\terror = UNEXPECTED_PROTOCOL_VERSION;\n\t\tgoto error;\n\t}\n",
     "new": "\tif (header.len == sizeof(header) && header.ver != rtr_socket->version && header.type != ERROR) {\n\t\terror = UNEXPECTED_PROTOCOL_VERSION;\n\t\tgoto error;\n\t}\n"},
    {"id": "C13.w4-undo-F6-closed-is-fatal", "rule": "C13.R4", "file": PK,
     "old": "\t} else if (error == TR_CLOSED) {\n\t\tRTR_DBG1(\"connection closed by the cache\");\n\t\treturn TR_CLOSED;\n\t} else if (error == CORRUPT_DATA) {",
     "new": "\t} else if (error == CORRUPT_DATA) {"},
    {"id": "C13.w5-downgrade-on-any-pdu", "rule": "C13.R1", "file": PK,
     "old": "\tif (!rtr_socket->has_received_pdus) {\n\t\tif (rtr_socket->version == RTR_PROTOCOL_VERSION_1 && header.ver == RTR_PROTOCOL_VERSION_0 &&",
     "new": "\tif (1) {\n\t\tif (rtr_socket->version == RTR_PROTOCOL_VERSION_1 && header.ver == RTR_PROTOCOL_VERSION_0 &&"},
    {"id": "C13.w6-hangup-downgrade-without-min-check", "rule": "C13.R1", "file": PK,
     "old": "\t\t\tif (rtr_socket->version > RTR_PROTOCOL_MIN_SUPPORTED_VERSION) {", "new": "\t\t\tif (rtr_socket->version >= RTR_PROTOCOL_MIN_SUPPORTED_VERSION) {"},
    {"id": "C13.w7-version-raised-on-reconnect", "rule": "C13.R1", "file": RT,
     "old": "\t\t\ttr_close(rtr_socket->tr_socket);\n\t\t\trtr_change_socket_state(rtr_socket, RTR_CONNECTING);\n\t\t}\n\n\t\telse if (rtr_socket->state == RTR_ERROR_NO_DATA_AVAIL) {",
     "new": "\t\t\ttr_close(rtr_socket->tr_socket);\n\t\t\trtr_socket->version = RTR_PROTOCOL_MAX_SUPPORTED_VERSION;\n\t\t\trtr_change_socket_state(rtr_socket, RTR_CONNECTING);\n\t\t}\n\n\t\telse if (rtr_socket->state == RTR_ERROR_NO_DATA_AVAIL) {"},
    {"id": "C13.w8-mismatch-reported-as-corrupt", "rule": "C13.R3", "file": PK,
     "old": "rtr_send_error_pdu_from_network(rtr_socket, pdu, sizeof(header), UNEXPECTED_PROTOCOL_VERSION, NULL, 0);",
     "new": "rtr_send_error_pdu_from_network(rtr_socket, pdu, sizeof(header), CORRUPT_DATA, NULL, 0);"},
    {"id": "C13.w9-mismatch-tolerated-for-serial-notify", "rule": "C13.R3", "file": PK,
     "old": "\tif (header.ver != rtr_socket->version && header.type != ERROR) {", "new": "\tif (header.ver != rtr_socket->version && header.type != ERROR && header.type != SERIAL_NOTIFY) {"},
    {"id": "C13.w10-first-pdu-downgrade-also-for-error", "rule": "C13.R1", "file": PK,
     "old": "header.ver == RTR_PROTOCOL_VERSION_0 &&\n\t\t    header.type != ERROR) {", "new": "header.ver == RTR_PROTOCOL_VERSION_0) {"},
    {"id": "C13.w-error-report-does-not-use-up-first-pdu-slot", "rule": "C13.R2", "file": PK,
     "old": "\tif (!rtr_socket->has_received_pdus) {\n\t\tif (rtr_socket->version == RTR_PROTOCOL_VERSION_1 && header.ver == RTR_PROTOCOL_VERSION_0 &&\n\t\t    header.type != ERROR) {",
     "new": "\tif (!rtr_socket->has_received_pdus && header.type != ERROR) {\n\t\tif (rtr_socket->version == RTR_PROTOCOL_VERSION_1 && header.ver == RTR_PROTOCOL_VERSION_0) {"},
    {"id": "C13.w-downgrade-before-the-length-checks", "rule": "C13.R1", "file": PK,
     "old": "\t// if header->len is < packet_header = corrupt data received\n\tif (header.len < sizeof(header)) {",
     "new": "\tif (!rtr_socket->has_received_pdus && rtr_socket->version == RTR_PROTOCOL_VERSION_1 && header.ver == RTR_PROTOCOL_VERSION_0 &&\n\t    header.type != ERROR)\n\t\trtr_socket->version = RTR_PROTOCOL_VERSION_0;\n\t// if header->len is < packet_header = corrupt data received\n\tif (header.len < sizeof(header)) {"},
    {"id": "C13.w-hang-up-downgrade-after-the-answer", "rule": "C13.R1", "file": "rtrlib/rtr/packets.c",
     "old": "\t\tpthread_cleanup_pop(0);\n\n\t\tif (retval == TR_WOULDBLOCK || retval == TR_CLOSED) {",
     "new": "\t\tpthread_cleanup_pop(0);\n\n\t\tif (retval == TR_CLOSED && rtr_socket->request_session_id && rtr_socket->version > RTR_PROTOCOL_MIN_SUPPORTED_VERSION) {\n\t\t\trtr_socket->version = rtr_socket->version - 1;\n\t\t\trtr_change_socket_state(rtr_socket, RTR_FAST_RECONNECT);\n\t\t\tretval = RTR_ERROR;\n\t\t\tgoto cleanup;\n\t\t}\n\t\tif (retval == TR_WOULDBLOCK || retval == TR_CLOSED) {"},
]
