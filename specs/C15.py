"""C15 — cache-group failover honours the preference order.

R1 rtr_mgr_init rejections (empty list, empty group, duplicate preference) with *config_out == NULL; the error exit
   reads only initialised fields
R2 add/remove: existing preference rejected, list re-sorted after every insertion, last group cannot be removed
R3 the comparator is a total order on the preference value
R4 a group is reported ESTABLISHED only when all of its sockets are synchronised, and that report is followed at once
   by shutting down the less preferred groups
R5 direction of the preference comparisons (who may be stopped on behalf of whom)
R6 on a socket error the group goes to ERROR and, if no group is established, the most preferred closed group starts
"""
from engine import es, flow, ls, vf
from engine.pdb import AnalysisBroken
from specs.C01 import _pred_under

MG = "rtrlib/rtr_mgr.c"
SET = "set_status"


def r1(ctx, retsets):
    pdb = ctx.pdb
    ctx.rule("C15.R1", "rtr_mgr_init: an empty group array, a group without sockets and two groups with the same preference are "
             "refused (failure return, *config_out == NULL, nothing started); on the error exit every field of the new "
             "configuration that is read has been written before")
    fn = pdb.fn("rtr_mgr_init")
    ctx.touch(fn)
    OUT = ("arg", 0)
    E_ = pdb.enum("rtr_rtvals")
    # decision cells
    pref_cmp = []
    for i in fn.all_insts():
        if i.op == "icmp" and i["pred"] in ("eq", "ne"):
            a, b = vf.expr(fn, i["a"]), vf.expr(fn, i["b"])
            isp = lambda x: x[0] == "load" and vf.last_field(x[1]) == "rtr_mgr_group.preference"
            # this group's preference against the one kept from the previous round (a local) or read from the previous element
            if (any(isp(x) for x in (a, b)) and any(x[0] == "phi" for x in (a, b))) or (isp(a) and isp(b) and a != b):
                pref_cmp.append(i)
    if not fn.calls("qsort") and not pref_cmp:
        raise AnalysisBroken("rtr_mgr_init: neither the sort nor the duplicate test of the group array was found")
    if len(pref_cmp) != 1:
        ctx.violation("C15.R1", "duplicates-found-among-sorted-neighbours", "%s:%d" % (fn.relfile, fn.line),
                      "no comparison of a group's preference with the previous group's preference (%d candidates)" % len(pref_cmp), key="C15.R1:neighbours")
        return
    pc = pref_cmp[0]
    cells = [("no groups", {2: 0}, None, None), ("group without sockets", {2: 2}, 0, False), ("duplicate preference", {2: 2}, 1, True), ("fine", {2: 2}, 1, False)]
    for name, cell, socks, dup in cells:
        def oracle(inst, pred, a, b, E):
            if inst.id == pc.id:
                # duplicate only from the second group on: the comparison is evaluated with the cell's answer
                return dup if pred == "eq" else (not dup)
            for x, y, sw in ((a, b, False), (b, a, True)):
                if x[0] == "load" and vf.last_field(x[1]) == "rtr_mgr_group.sockets_len" and y == ("c", 0) and socks is not None and pred in ("eq", "ne"):
                    return _pred_under(pred, "eq" if socks == 0 else "gt", sw)
            return None

        def classify(inst, E, st):
            if inst.op == "call" and inst.callee:
                c = inst.callee
                if c == "lrtr_malloc":
                    return [([], {inst.ref: ("nin", frozenset([0]))})]
                if c == "pthread_rwlock_init":
                    return [([], {inst.ref: flow.av_in(0)})]
                if c == "rtr_mgr_init_sockets":
                    return [(["sockets_initialised"], {inst.ref: flow.av_in(0)})]
                if c in ("rtr_mgr_start_sockets", "rtr_start"):
                    return ["started"]
            if inst.op == "store" and vf.expr(fn, inst["ptr"]) == OUT:
                return ["=out:%s" % ("null" if flow.av_single(E.val(inst["val"])) == 0 else "config")]
            return None
        outs, fl = es.count_effects(fn, pdb, classify, retsets, oracle=oracle, cell=cell, cap=96,
                                    pinned=lambda pe: vf.last_field(pe) == "rtr_mgr_config.len")
        if name == "fine":
            good = any(flow.av_single(o["ret"]) == 0 and o["counts"].get("out") == "config" for o in outs)
            det = "success with *config_out set is reachable"
        else:
            good = bool(outs) and all(flow.av_single(o["ret"]) not in (0, None) and o["counts"].get("out") == "null" and not o["counts"].get("started")
                                      and (name == "no groups" or not o["counts"].get("sockets_initialised")) for o in outs)
            det = "outcomes: %s" % sorted({(str(flow.av_single(o["ret"])), o["counts"].get("out"), o["counts"].get("sockets_initialised", 0)) for o in outs})
        ctx.check(good, "C15.R1", "init[%s]" % name, "%s:%d" % (fn.relfile, fn.line), det, key="C15.R1:init:%s" % name.replace(" ", "-"))
    # the duplicate test compares neighbours of the sorted array
    qs = fn.calls("qsort")
    good = len(qs) == 1 and vf.expr(fn, qs[0].args[0]) == ("arg", 1) and vf.expr(fn, qs[0].args[3]) == ("g", "rtr_mgr_config_cmp") and fn.dom(qs[0], pc)
    phs = [x for x in (vf.expr(fn, pc["a"]), vf.expr(fn, pc["b"])) if x[0] == "phi"]
    if phs:
        p = fn.insts[phs[0][1]]
        last_ok = any(vf.expr(fn, v)[0] == "load" and vf.last_field(vf.expr(fn, v)[1]) == "rtr_mgr_group.preference" for v, b in p["inc"])
    else:
        # groups[i].preference against groups[i - 1].preference
        def index_of(x):
            e = x[1]
            while isinstance(e, tuple) and e[0] == "fld":
                e = e[1]
            return e[2] if isinstance(e, tuple) and e[0] in ("idx", "ptradd") else None
        ia, ib = index_of(vf.expr(fn, pc["a"])), index_of(vf.expr(fn, pc["b"]))
        last_ok = ia is not None and ib is not None and (ib in (("bin", "sub", ia, ("c", 1)), ("bin", "add", ia, ("c", -1))) or
                                                         ia in (("bin", "sub", ib, ("c", 1)), ("bin", "add", ib, ("c", -1))))
    guards = [(vf.expr(fn, g), t) for g, t, br in es.guards_of(fn, pc)]
    notfirst = any(g[0] == "icmp" and g[1] in ("ugt", "ne") and t and g[3] == ("c", 0) for g, t in guards)
    ctx.check(good and last_ok and notfirst, "C15.R1", "duplicates-found-among-sorted-neighbours", pc.loc(),
              "array sorted by preference first: %s; compared with the previous group's preference: %s; from the second group on: %s" % (good, last_ok, notfirst),
              key="C15.R1:neighbours")
    # R1b: error exit reads only initialised fields of the fresh configuration
    mall = [c for c in fn.calls("lrtr_malloc") if flow.av_single(("in", frozenset([vf.expr(fn, c.args[0])[1]])) if vf.expr(fn, c.args[0])[0] == "c" else None) == pdb.struct("rtr_mgr_config")["size"]]
    if not mall:
        raise AnalysisBroken("rtr_mgr_init: allocation of the configuration not found")
    cfg = ("call", "lrtr_malloc", mall[0].id)
    bad = []

    def is_cfg_field(pe):
        return pe[0] == "fld" and pe[1][0] == "call" and pe[1][1] == "lrtr_malloc" and pe[1][2] == mall[0].id

    def classify2(inst, E, st):
        if inst.op == "call" and inst.callee == "lrtr_malloc":
            return [([], {inst.ref: ("nin", frozenset([0]))}), ([], {inst.ref: flow.av_in(0)})]
        if inst.op == "call" and inst.callee in ("pthread_rwlock_init", "rtr_mgr_init_sockets"):
            return [([], {inst.ref: flow.av_in(0)}), ([], {inst.ref: flow.av_in(-1)})]
        if inst.op == "store":
            pe = vf.expr(fn, inst["ptr"])
            if is_cfg_field(pe):
                return ["=w:%s:1" % pe[2].split(".")[1]]
        if inst.op == "load":
            pe = vf.expr(fn, inst["ptr"])
            if is_cfg_field(pe) and st.get("w:%s" % pe[2].split(".")[1]) != "1":
                bad.append((inst, pe[2].split(".")[1]))
        return None
    es.count_effects(fn, pdb, classify2, retsets, cap=200)
    seen = set()
    for inst, f in bad:
        if (inst.id, f) in seen:
            continue
        seen.add((inst.id, f))
        ctx.violation("C15.R1", "init:uninitialised-read:%s" % f, inst.loc(), "config->%s is read on a path on which it has not been written since the allocation" % f,
                      key="C15.R1:init:uninit:%s" % f)
    if not bad:
        ctx.ok("C15.R1", "init:no-uninitialised-read", "%s:%d" % (fn.relfile, fn.line), "every read of a field of the new configuration is preceded by a write on all paths")


def r2(ctx, retsets):
    pdb = ctx.pdb
    ctx.rule("C15.R2", "rtr_mgr_add_group refuses a preference already in use (RTR_INVALID_PARAM, list untouched) and re-sorts the "
             "list by preference after inserting, before unlocking; rtr_mgr_remove_group refuses to remove the last group")
    fn = pdb.fn("rtr_mgr_add_group")
    ctx.touch(fn)
    inval = pdb.enum_value("RTR_INVALID_PARAM")
    for dup in (True, False):
        def oracle(inst, pred, a, b, E):
            if pred in ("eq", "ne") and all(x[0] == "load" and vf.last_field(x[1]) == "rtr_mgr_group.preference" for x in (a, b)):
                return dup if pred == "eq" else not dup
            return None

        def classify(inst, E, st):
            if inst.op == "call" and inst.callee:
                c = inst.callee
                if c == "tommy_list_head":
                    return [([], {inst.ref: ("nin", frozenset([0]))})]
                if c == "lrtr_malloc":
                    return [([], {inst.ref: ("nin", frozenset([0]))})]
                if c == "rtr_mgr_init_sockets":
                    return [([], {inst.ref: flow.av_in(0)})]
                if c == "tommy_list_insert_tail":
                    return ["insert"]
                if c == "tommy_list_sort":
                    ok = vf.expr(fn, inst.args[1]) == ("g", "rtr_mgr_config_cmp_tommy") and st.get("lk") == "W"
                    return ["sort" if ok else "sort?"]
                if c == "pthread_rwlock_wrlock":
                    return ["=lk:W"]
                if c == "pthread_rwlock_unlock":
                    return ["=lk:U"]
            if inst.op == "load" and vf.last_field(vf.expr(fn, inst["ptr"])) == "tommy_node_struct.next" and st.get("walk", 0) >= 1:
                return flow.KILL
            if inst.op == "load" and vf.last_field(vf.expr(fn, inst["ptr"])) == "tommy_node_struct.next":
                return ["walk"]
            return None
        outs, fl = es.count_effects(fn, pdb, classify, retsets, oracle=oracle, cap=96)
        if dup:
            good = bool(outs) and all(flow.av_single(o["ret"]) == inval and not o["counts"].get("insert") and o["counts"].get("lk") == "U" for o in outs)
            det = "outcomes %s" % sorted({(str(flow.av_single(o["ret"])), o["counts"].get("insert", 0)) for o in outs})
        else:
            succ = [o for o in outs if flow.av_single(o["ret"]) == 0]
            good = bool(succ) and all(o["counts"].get("insert") == 1 and o["counts"].get("sort") == 1 and o["counts"].get("lk") == "U" for o in succ)
            det = "success states %s" % [{k: v for k, v in o["counts"].items() if k in ("insert", "sort", "sort?", "lk")} for o in succ][:2]
        ctx.check(good, "C15.R2", "add_group[preference %s]" % ("in use" if dup else "new"), "%s:%d" % (fn.relfile, fn.line), det, key="C15.R2:add:%s" % dup)
    # the group count moves with the list, on every path (allocation and socket-initialisation failures included)
    for gname, listop, step in (("rtr_mgr_add_group", "tommy_list_insert_tail", 1), ("rtr_mgr_remove_group", "tommy_list_remove_existing", -1)):
        gf = pdb.fn(gname)
        LENF = "rtr_mgr_config.len"

        def classify_len(inst, E, st, gf=gf, listop=listop, step=step):
            if inst.op == "call" and inst.callee:
                c = inst.callee
                if c == "tommy_list_head":
                    return [([], {inst.ref: ("nin", frozenset([0]))})]
                if c == "lrtr_malloc":
                    return [([], {inst.ref: ("nin", frozenset([0]))}), ([], {inst.ref: flow.av_in(0)})]
                if c == "rtr_mgr_init_sockets":
                    return [([], {inst.ref: flow.av_in(0)}), ([], {inst.ref: flow.av_in(-1)})]
                if c == listop:
                    return ["list"]
            if inst.op == "store" and vf.store_field(inst) == LENF:
                v = vf.expr(gf, inst["val"])
                want = ("bin", "add", ("load", vf.expr(gf, inst["ptr"])), ("c", step))
                return ["count" if v == want else "count?"]
            if inst.op == "load" and vf.last_field(vf.expr(gf, inst["ptr"])) == "tommy_node_struct.next":
                return flow.KILL if st.get("walk", 0) >= 1 else ["walk"]
            return None
        outs_l, _f = es.count_effects(gf, pdb, classify_len, retsets, cap=128)
        off = [o for o in outs_l if o["counts"].get("count?") or o["counts"].get("count", 0) != o["counts"].get("list", 0) or
               (flow.av_single(o["ret"]) == 0) != (o["counts"].get("list", 0) == 1)]
        ctx.check(bool(outs_l) and not off, "C15.R2", "%s:count-follows-list" % gname, (off[0]["inst"].loc() if off else "%s:%d" % (gf.relfile, gf.line)),
                  ("a path returns %s with %d list change(s) and %d count change(s)" % (flow.av_single(off[0]["ret"]), off[0]["counts"].get("list", 0),
                                                                                      off[0]["counts"].get("count", 0) + off[0]["counts"].get("count?", 0))) if off else
                  "%d return states: config->len changes by %+d exactly on the paths that changed the list, and exactly those report success" % (len(outs_l), step),
                  key="C15.R2:%s:count" % gname, path=(flow.trace_lines(gf, off[0]["trace"]) if off else None))
    # "the most preferred group" is looked up in the list as it is after the change: no list operation between the lookup and its use
    for gname in ("rtr_mgr_add_group", "rtr_mgr_remove_group"):
        gf = pdb.fn(gname)
        stale = []

        def classify_fresh(inst, E, st, gf=gf):
            if inst.op == "call" and inst.callee:
                c = inst.callee
                if c == "tommy_list_head":
                    return [([], {inst.ref: ("nin", frozenset([0]))})]
                if c == "lrtr_malloc":
                    return [([], {inst.ref: ("nin", frozenset([0]))})]
                if c == "rtr_mgr_init_sockets":
                    return [([], {inst.ref: flow.av_in(0)})]
                if c == "rtr_mgr_get_first_group":
                    return ["=looked:1"]
                if c in ("tommy_list_insert_tail", "tommy_list_remove_existing", "tommy_list_sort") and st.get("looked") == "1":
                    stale.append(inst)
                    return ["=looked:stale"]
                if c in ("rtr_mgr_start_sockets", "rtr_start") and st.get("looked") == "stale":
                    return ["started-from-stale-lookup"]
            if inst.op == "load" and vf.last_field(vf.expr(gf, inst["ptr"])) == "tommy_node_struct.next":
                return flow.KILL if st.get("walk", 0) >= 1 else ["walk"]
            return None
        outs_f, _f = es.count_effects(gf, pdb, classify_fresh, retsets, cap=128)
        looked = [o for o in outs_f if o["counts"].get("looked")]
        ctx.check(bool(looked) and not stale, "C15.R2", "%s:first-group-looked-up-after-the-change" % gname, (stale[0].loc() if stale else "%s:%d" % (gf.relfile, gf.line)),
                  ("the list is changed at line %d after the most preferred group was looked up" % stale[0].line) if stale else
                  "every lookup of the most preferred group comes after the last list operation of its path", key="C15.R2:%s:fresh-lookup" % gname)
    for f in ("rtr_mgr_add_group", "rtr_mgr_init"):
        g = pdb.fn(f)
        ins = g.calls("tommy_list_insert_tail")
        srt = g.calls("tommy_list_sort")
        good = bool(ins) and bool(srt) and all(any(g.reaches(i, s) and not g.reaches(s, i) for s in srt) for i in ins) and \
            all(vf.expr(g, s.args[1]) == ("g", "rtr_mgr_config_cmp_tommy") for s in srt)
        rets0 = [r for r in g.rets()]
        ctx.check(good, "C15.R2", "%s:sorted-after-insert" % f, (srt[0].loc() if srt else "%s:%d" % (g.relfile, g.line)), "every insertion into the group list is followed by a sort with the preference comparator",
                  key="C15.R2:%s:sort" % f)
    ct = pdb.fn("rtr_mgr_config_cmp_tommy")
    cc = ct.calls("rtr_mgr_config_cmp")
    good = len(cc) == 1 and all(vf.expr(ct, a) == ("load", ("fld", ("arg", k), "rtr_mgr_group_node.group")) for k, a in enumerate(cc[0].args))
    ctx.check(good, "C15.R2", "list-comparator-compares-groups", "%s:%d" % (ct.relfile, ct.line), "node comparator = group comparator on (a->group, b->group)", key="C15.R2:cmp_tommy")
    fn = pdb.fn("rtr_mgr_remove_group")
    ctx.touch(fn)
    rm = fn.calls("tommy_list_remove_existing")
    ctx.floor("C15.R2", len(rm), 1)
    # evaluated per number of groups (wherever the test sits and however the exits are merged): with one group nothing is unlinked
    # and the call fails, with more the unlinking is reachable
    reach_rm = {}
    for ngroups in (1, 2, 5):
        hit = []

        def values_n(pe, ngroups=ngroups):
            return ngroups if vf.last_field(pe) == "rtr_mgr_config.len" else None

        def cl_n(inst, E, st, hit=hit):
            if inst.op == "call" and inst.callee == "tommy_list_remove_existing":
                hit.append(1)
                return ["unlinked"]
            return None
        outs_n, _f = es.count_effects(fn, pdb, cl_n, retsets, values=values_n, cap=96)
        reach_rm[ngroups] = (bool(hit), sorted({str(flow.av_single(o["ret"])) for o in outs_n}))
    last = (not reach_rm[1][0]) and "0" not in reach_rm[1][1] and reach_rm[2][0] and reach_rm[5][0]
    ctx.check(last, "C15.R2", "remove_group:not-the-last", rm[0].loc(),
              "with one group: unlinking reachable %s, returns %s; with two / five groups: unlinking reachable %s / %s" % (
                  reach_rm[1][0], reach_rm[1][1], reach_rm[2][0], reach_rm[5][0]), key="C15.R2:remove:last")

    def oracle2(inst, pred, a, b, E):
        for x, y, sw in ((a, b, False), (b, a, True)):
            if x[0] == "load" and vf.last_field(x[1]) == "rtr_mgr_config.len" and y == ("c", 1):
                return _pred_under(pred, "eq", sw)
        return None
    outs, fl = es.count_effects(fn, pdb, lambda i, E, st: (["removed"] if i.op == "call" and i.callee == "tommy_list_remove_existing" else None), retsets, oracle=oracle2)
    ctx.check(bool(outs) and all(flow.av_single(o["ret"]) == pdb.enum_value("RTR_ERROR") and not o["counts"].get("removed") for o in outs), "C15.R2", "remove_group[one group left]",
              "%s:%d" % (fn.relfile, fn.line), "returns RTR_ERROR without removing", key="C15.R2:remove:one")
    # the group removed is the one with the requested preference
    sel = [i for i in fn.all_insts() if i.op == "icmp" and i["pred"] == "eq" and ("arg", 1) in (vf.expr(fn, i["a"]), vf.expr(fn, i["b"])) and
           any(x[0] == "load" and vf.last_field(x[1]) == "rtr_mgr_group.preference" for x in (vf.expr(fn, i["a"]), vf.expr(fn, i["b"])))]
    ctx.check(len(sel) == 1, "C15.R2", "remove_group:selects-by-preference", "%s:%d" % (fn.relfile, fn.line), "group chosen by preference == argument", key="C15.R2:remove:select")


def r3(ctx):
    pdb = ctx.pdb
    ctx.rule("C15.R3", "rtr_mgr_config_cmp orders groups by ascending preference: >0, <0, 0 for greater, smaller, equal")
    fn = pdb.fn("rtr_mgr_config_cmp")
    ctx.touch(fn)
    for rel, want in (("lt", -1), ("eq", 0), ("gt", 1)):
        def oracle(inst, pred, a, b, E):
            fa = a[0] == "load" and vf.last_field(a[1]) == "rtr_mgr_group.preference" and vf.root_of(a[1]) == ("arg", 0)
            fb = b[0] == "load" and vf.last_field(b[1]) == "rtr_mgr_group.preference" and vf.root_of(b[1]) == ("arg", 1)
            if fa and fb:
                return _pred_under(pred, rel)
            fa2 = a[0] == "load" and vf.last_field(a[1]) == "rtr_mgr_group.preference" and vf.root_of(a[1]) == ("arg", 1)
            fb2 = b[0] == "load" and vf.last_field(b[1]) == "rtr_mgr_group.preference" and vf.root_of(b[1]) == ("arg", 0)
            if fa2 and fb2:
                return _pred_under(pred, rel, True)
            return None
        outs, fl = es.count_effects(fn, pdb, lambda i, E, st: None, None, oracle=oracle)
        rets = {flow.av_single(o["ret"]) for o in outs}
        sign = {(r > 0) - (r < 0) if isinstance(r, int) else None for r in rets}
        ctx.check(sign == {want}, "C15.R3", "cmp[a.pref %s b.pref]" % {"lt": "<", "eq": "=", "gt": ">"}[rel], "%s:%d" % (fn.relfile, fn.line), "returns %s" % sorted(rets, key=str),
                  key="C15.R3:%s" % rel)


def _walk_cells(fn, pdb, retsets, cells_fn, limit_nodes=1):
    """explore a function that walks the group list, one list element, with an oracle per cell"""
    pass


def r4(ctx, retsets):
    pdb = ctx.pdb
    ctx.rule("C15.R4", "a group is reported RTR_MGR_ESTABLISHED only under rtr_mgr_config_status_is_synced(group) == true (which is false "
             "as soon as one socket has never synchronised or is in a state other than ESTABLISHED/RESET/SYNC), and every such "
             "report is followed at once by rtr_mgr_close_less_preferable_groups")
    est = pdb.enum_value("RTR_MGR_ESTABLISHED")
    n = 0
    for f in pdb.all_functions():
        if f.unit != MG:
            continue
        for c in f.calls(SET):
            v = vf.expr(f, c.args[2])
            if v != ("c", est):
                # a status handed through unchanged (group->status) may be ESTABLISHED again: allowed, it is not a new report
                continue
            n += 1
            ctx.touch(f)
            # along the paths: whatever form the test takes (directly in the if, kept in a local first), the report is reached only
            # after rtr_mgr_config_status_is_synced(group) answered true
            seen_sy = []

            def cl_sy(inst, E, st, c=c, f=f, seen_sy=seen_sy):
                if inst.op == "call" and inst.callee == "rtr_mgr_config_status_is_synced" and vf.expr(f, inst.args[0]) == vf.expr(f, c.args[1]):
                    return [(["=sy:1"], {inst.ref: flow.av_in(1)}), (["=sy:0"], {inst.ref: flow.av_in(0)})]
                if inst is c:
                    seen_sy.append(st.get("sy"))
                return None
            es.count_effects(f, pdb, cl_sy, retsets, cap=64)
            synced = bool(seen_sy) and all(x == "1" for x in seen_sy)
            nxt = [k for k in f.calls("rtr_mgr_close_less_preferable_groups") if k.block.id == c.block.id and f.dom(c, k)]
            between = [i for i in c.block.insts if nxt and c.idx < i.idx < nxt[0].idx and i.op in ("call", "store")]
            follow = bool(nxt) and not between and vf.expr(f, c.args[1]) in [vf.expr(f, a) for a in nxt[0].args] and vf.expr(f, c.args[0]) in [vf.expr(f, a) for a in nxt[0].args]
            ctx.check(synced and follow, "C15.R4", "ESTABLISHED-report@%s#%d" % (f.name, n), c.loc(),
                      "under status_is_synced(group): %s; followed at once by close_less_preferable_groups(config, group): %s" % (synced, follow),
                      key="C15.R4:%s:established" % f.name)
    ctx.floor("C15.R4", n, 1)
    # no other writer of the ESTABLISHED status
    for s in vf.stores_to_field(pdb, "rtr_mgr_group.status"):
        v = vf.expr(s.fn, s["val"])
        ok = s.fn.name == SET or (v[0] == "c" and v[1] != est)
        ctx.check(ok, "C15.R4", "status-writer:%s" % s.fn.name, s.loc(), "group status written in %s with %s" % (s.fn.name, vf.show(v)), key="C15.R4:writer:%s" % s.fn.name)
    fn = pdb.fn("rtr_mgr_config_status_is_synced")
    ctx.touch(fn)
    ST = pdb.enum("rtr_socket_state")
    okstates = {ST["RTR_ESTABLISHED"], ST["RTR_RESET"], ST["RTR_SYNC"]}
    latch = {t for (t, h) in fn.back_edges()}
    bad = []
    ncell = 0
    for lu0 in (True, False):
        for name, sv in sorted(ST.items(), key=lambda kv: kv[1]):
            ncell += 1
            cont = []

            def values(pe, lu0=lu0, sv=sv):
                if vf.last_field(pe) == "rtr_socket.last_update":
                    return 0 if lu0 else 1700000000
                if vf.last_field(pe) == "rtr_socket.state":
                    return sv
                return None

            def classify(inst, E, st):
                if inst.op == "br" and inst.block.id in latch:
                    cont.append(1)
                    return flow.KILL
                return None
            outs, fl = es.count_effects(fn, pdb, classify, None, values=values)
            inloop_false = any(flow.av_single(o["ret"]) == 0 for o in outs)
            fine = (not lu0) and sv in okstates
            # with a fine socket the loop goes on; otherwise false is returned inside the loop
            good = (bool(cont) and not _ret_false_inside(outs, fn)) if fine else (_ret_false_inside(outs, fn) and not cont)
            if not good:
                bad.append((lu0, name))
    ctx.check(not bad, "C15.R4", "status_is_synced-table", "%s:%d" % (fn.relfile, fn.line),
              "%d (last_update==0?, socket state) cells" % ncell if not bad else "wrong for cells %s" % bad[:4], key="C15.R4:synced-table")
    # evaluated on a group of three fine sockets whose pointer array sits at address 5000: the slots read must be 0, 1 and 2 -
    # whether the walk uses an index, a moving pointer or a count of what is left
    BASE, NS = 5000, 3
    slots = set()

    def values3(pe):
        f = vf.last_field(pe)
        if f == "rtr_mgr_group.sockets":
            return BASE
        if f == "rtr_mgr_group.sockets_len":
            return NS
        if f == "rtr_socket.last_update":
            return 1700000000
        if f == "rtr_socket.state":
            return sorted(okstates)[0]
        return None

    def cl3(inst, E, st):
        if inst.op == "load":
            a = flow.av_single(E.val(inst["ptr"]))
            if a is not None and BASE <= a < BASE + 8 * 64 and (a - BASE) % 8 == 0:
                slots.add((a - BASE) // 8)
        return None
    outs3, _f3 = es.count_effects(fn, pdb, cl3, None, values=values3, cap=64)
    rets3 = {flow.av_single(o["ret"]) for o in outs3}
    ctx.check(slots == set(range(NS)) and rets3 == {1}, "C15.R4", "status_is_synced:all-sockets", "%s:%d" % (fn.relfile, fn.line),
              "group of %d fine sockets: slots read %s, answer %s (expected all of them, true)" % (NS, sorted(slots), sorted(rets3, key=str)), key="C15.R4:synced-loop")


def _ret_false_inside(outs, fn):
    loops = fn.loops()
    body = set().union(*loops.values()) if loops else set()
    for o in outs:
        if flow.av_single(o["ret"]) == 0:
            tb = flow.trace_blocks(o["trace"])
            # returned false after entering the loop body (a block of the loop other than the header was passed)
            if any(b in body and b not in loops for b in tb):
                return True
    return False


def r5(ctx, retsets):
    pdb = ctx.pdb
    ctx.rule("C15.R5", "rtr_mgr_close_less_preferable_groups stops exactly the groups that are not CLOSED, are not the reporting group "
             "and have a larger preference value, and reports them CLOSED; in the ERROR->ESTABLISHED decision only more preferred "
             "(smaller preference) groups that are neither ERROR nor CLOSED hold a group back; nothing else reachable from the "
             "socket callback stops sockets")
    fn = pdb.fn("rtr_mgr_close_less_preferable_groups")
    ctx.touch(fn)
    closed = pdb.enum_value("RTR_MGR_CLOSED")
    GROUP = ("arg", 2)
    latch_all = {t for (t, h) in fn.back_edges()}
    n = 0
    for stname, stv in sorted(pdb.enum("rtr_mgr_status").items(), key=lambda kv: kv[1]):
        st_closed = stv == closed
        for same in (True, False):
            for rel in ("lt", "eq", "gt"):
                if same and rel != "eq":
                    continue
                n += 1

                def values(pe, stv=stv):
                    if vf.last_field(pe) == "rtr_mgr_group.status" and vf.root_of(pe) != GROUP:
                        return stv
                    return None

                def oracle(inst, pred, a, b, E):
                    for x, y, sw in ((a, b, False), (b, a, True)):
                        if y == GROUP and x[0] == "load" and vf.last_field(x[1]) == "rtr_mgr_group_node.group" and pred in ("eq", "ne"):
                            return same if pred == "eq" else not same
                        if x[0] == "load" and vf.last_field(x[1]) == "rtr_mgr_group.preference" and vf.root_of(x[1]) != GROUP and \
                                y[0] == "load" and vf.last_field(y[1]) == "rtr_mgr_group.preference" and vf.root_of(y[1]) == GROUP:
                            return _pred_under(pred, rel, sw)
                    return None
                acted = []

                def classify(inst, E, stt):
                    if inst.op == "call" and inst.callee == "tommy_list_head":
                        return [([], {inst.ref: ("nin", frozenset([0]))})]
                    if inst.op == "call" and inst.callee == "rtr_stop":
                        return ["stop"] if stt.get("stop", 0) < 1 else None
                    if inst.op == "call" and inst.callee == SET:
                        okst = vf.expr(fn, inst.args[2]) == ("c", closed) and vf.expr(fn, inst.args[1])[0] == "load" and vf.last_field(vf.expr(fn, inst.args[1])[1]) == "rtr_mgr_group_node.group"
                        return ["report_closed" if okst else "report_other"]
                    if inst.op == "load" and vf.last_field(vf.expr(fn, inst["ptr"])) == "tommy_node_struct.next":
                        acted.append(dict(stt))
                        return flow.KILL
                    return None
                SL = None
                es.count_effects(fn, pdb, classify, retsets, oracle=oracle, cap=96, values=values)
                should = (not st_closed) and (not same) and rel == "gt"
                did = [a for a in acted if a.get("stop") or a.get("report_closed") or a.get("report_other")]
                good = bool(acted) and ((all(a.get("report_closed") == 1 and not a.get("report_other") for a in acted)) if should else not did)
                ctx.check(good, "C15.R5", "close_less_preferable[status %s,%s,pref %s own]" % (stname[8:], "own group" if same else "other group", {"lt": "<", "eq": "=", "gt": ">"}[rel]),
                          "%s:%d" % (fn.relfile, fn.line), "actions on that group: %s (expected %s)" % ([{k: v for k, v in a.items() if k in ("stop", "report_closed", "report_other")} for a in acted][:2], "stop + CLOSED" if should else "none"),
                          key="C15.R5:close:%s:%s:%s" % (stname, same, rel))
    ctx.floor("C15.R5", n, 8)
    # stop loop covers every socket of the group
    stops = fn.calls("rtr_stop")
    il = [L for L in es.index_loops(fn) if L["init"] == "#0" and L["bound"][0] == "load" and vf.last_field(L["bound"][1]) == "rtr_mgr_group.sockets_len" and any(es.in_loop_body(L, c) for c in stops)]
    ctx.check(bool(il), "C15.R5", "close_less_preferable:all-sockets-stopped", stops[0].loc() if stops else "%s:%d" % (fn.relfile, fn.line), "rtr_stop for sockets 0..sockets_len-1 of the group", key="C15.R5:close:all-sockets")
    # ERROR -> ESTABLISHED blocking set
    fe = pdb.fn("_rtr_mgr_cb_state_established")
    ctx.touch(fe)
    ERR = pdb.enum_value("RTR_MGR_ERROR")
    GROUPE = ("arg", 2)
    blk_store = [i for i in fe.all_insts() if i.op == "store" and vf.expr(fe, i["val"]) == ("c", 0) and vf.expr(fe, i["ptr"])[0] == "alloca"]
    allerr_phi = None
    nb = 0
    for st in ("ERROR", "CLOSED", "CONNECTING"):
        for same in (True, False):
            for rel in ("lt", "eq", "gt"):
                if same and rel != "eq":
                    continue
                nb += 1
                sval = {"ERROR": ERR, "CLOSED": closed, "CONNECTING": pdb.enum_value("RTR_MGR_CONNECTING")}[st]

                if same:
                    sval = ERR      # the list element is the reporting group itself, which is in ERROR

                def values(pe, sval=sval):
                    if vf.last_field(pe) == "rtr_mgr_group.status":
                        return ERR if vf.root_of(pe) == GROUPE else sval     # the reporting group is in ERROR
                    if vf.last_field(pe) == "tommy_node_struct.next":
                        return 0                                            # one list element
                    return None

                def oracle(inst, pred, a, b, E):
                    for x, y, sw in ((a, b, False), (b, a, True)):
                        if y == GROUPE and x[0] == "load" and vf.last_field(x[1]) == "rtr_mgr_group_node.group" and pred in ("eq", "ne"):
                            return same if pred == "eq" else not same
                        if x[0] == "load" and vf.last_field(x[1]) == "rtr_mgr_group.preference" and vf.root_of(x[1]) != GROUPE and \
                                y[0] == "load" and vf.last_field(y[1]) == "rtr_mgr_group.preference" and vf.root_of(y[1]) == GROUPE:
                            return _pred_under(pred, rel, sw)
                    return None
                heads = fe.calls("tommy_list_head")
                if len(heads) != 1:
                    raise AnalysisBroken("_rtr_mgr_cb_state_established: list walk not found")
                NEXT = ("fld", vf.expr(fe, heads[0].ref), "tommy_node_struct.next")
                est_v = pdb.enum_value("RTR_MGR_ESTABLISHED")

                def classify(inst, E, stt):
                    if inst.op == "call" and inst.callee == "tommy_list_head":
                        return [([], {inst.ref: ("nin", frozenset([0]))})]
                    if inst.op == "call" and inst.callee == "rtr_mgr_config_status_is_synced":
                        return [([], {inst.ref: flow.av_in(1)})]
                    if inst.op == "call" and inst.callee == SET:
                        return ["report:%s" % flow.av_single(E.val(inst.args[2]))]
                    return None
                outs5, fl5 = es.count_effects(fe, pdb, classify, retsets, oracle=oracle, cap=96, values=values)
                should = (not same) and st == "CONNECTING" and rel == "lt"
                reps = [sorted(k for k in o["counts"] if k.startswith("report:")) for o in outs5]
                want_rep = ["report:%d" % (ERR if should else est_v)]
                good = bool(outs5) and all(r == want_rep for r in reps)
                ctx.check(good, "C15.R5", "hold-back[other %s,%s,pref %s own]" % (st, "own group" if same else "other group", {"lt": "<", "eq": "=", "gt": ">"}[rel]),
                          "%s:%d" % (fe.relfile, fe.line), "with one other group in the list the synced group in ERROR reports %s (expected %s)" % (reps[:2], want_rep),
                          key="C15.R5:hold:%s:%s:%s" % (st, same, rel))
    # who may stop sockets from the callback
    reach = pdb.reachable_from(["rtr_mgr_cb"], stop=("rtr_stop",))
    stoppers = sorted({c.fn.name for c in pdb.callers("rtr_stop") if c.fn.name in reach})
    ctx.check(stoppers == ["rtr_mgr_close_less_preferable_groups"], "C15.R5", "only-one-stopper-in-callback", MG, "rtr_stop reachable from rtr_mgr_cb through %s" % stoppers, key="C15.R5:stoppers")


def r6(ctx, retsets):
    pdb = ctx.pdb
    ctx.rule("C15.R6", "socket errors (FATAL, TRANSPORT, NO_DATA_AVAIL) put the group into ERROR; if then no group is ESTABLISHED the first "
             "CLOSED group in list order (ascending preference by R2) other than the failing one is started; the started group is "
             "reported CONNECTING")
    cb = pdb.fn("rtr_mgr_cb")
    ctx.touch(cb)
    ST = pdb.enum("rtr_socket_state")
    sw = [i for i in cb.all_insts() if i.op == "switch"]
    if len(sw) != 1:
        raise AnalysisBroken("rtr_mgr_cb: state dispatch is not a single switch")
    target = {}
    for k, dst in sw[0]["cases"]:
        calls = [c.callee for c in cb.blocks[dst].insts if c.op == "call" and c.callee and c.callee.startswith("_rtr_mgr_cb_state")]
        target[k] = calls[0] if calls else None
    for name in ("RTR_ERROR_FATAL", "RTR_ERROR_TRANSPORT", "RTR_ERROR_NO_DATA_AVAIL"):
        ctx.check(target.get(ST[name]) == "_rtr_mgr_cb_state_error", "C15.R6", "dispatch:%s" % name, sw[0].loc(), "handled by %s" % target.get(ST[name]), key="C15.R6:dispatch:%s" % name)
    ctx.check(target.get(ST["RTR_ESTABLISHED"]) == "_rtr_mgr_cb_state_established" and target.get(ST["RTR_SHUTDOWN"]) == "_rtr_mgr_cb_state_shutdown", "C15.R6", "dispatch:established/shutdown", sw[0].loc(),
              "ESTABLISHED -> %s, SHUTDOWN -> %s" % (target.get(ST["RTR_ESTABLISHED"]), target.get(ST["RTR_SHUTDOWN"])), key="C15.R6:dispatch:other")
    fe = pdb.fn("_rtr_mgr_cb_state_error")
    ctx.touch(fe)
    ERR = pdb.enum_value("RTR_MGR_ERROR")
    for some_est in (1, 0):
        for have_next in (True, False):
            def classify(inst, E, st):
                if inst.op == "call" and inst.callee:
                    c = inst.callee
                    if c == SET:
                        v = vf.expr(fe, inst.args[2])
                        mine = vf.expr(fe, inst.args[1]) == ("arg", 2)
                        first = not st
                        return ["report_error" + ("" if mine and first else "_late")] if v == ("c", ERR) else ["report_other"]
                    if c == "is_some_rtr_mgr_group_established":
                        return [([], {inst.ref: flow.av_in(some_est)})]
                    if c == "get_best_inactive_rtr_mgr_group":
                        okargs = vf.expr(fe, inst.args[1]) == ("arg", 2)
                        return [(["pick" if okargs else "pick?"], {inst.ref: (("nin", frozenset([0])) if have_next else flow.av_in(0))})]
                    if c == "rtr_mgr_start_sockets":
                        e = vf.expr(fe, inst.args[0])
                        return ["start_picked" if e[0] == "call" and e[1] == "get_best_inactive_rtr_mgr_group" else "start_other"]
                return None
            outs, fl = es.count_effects(fe, pdb, classify, retsets)
            if some_est:
                exp = {"report_error": 1}
            elif have_next:
                exp = {"report_error": 1, "pick": 1, "start_picked": 1}
            else:
                exp = {"report_error": 1, "pick": 1}
            found = [o["counts"] for o in outs]
            ctx.check(bool(outs) and all(c == exp for c in found), "C15.R6", "state_error[%s,%s]" % ("some group established" if some_est else "no group established", "closed group available" if have_next else "none available"),
                      "%s:%d" % (fe.relfile, fe.line), "effects %s, expected %s" % (found, exp), key="C15.R6:error:%s:%s" % (some_est, have_next))
    # "some group is established" means exactly: a group whose reported status is ESTABLISHED (one list element per status value)
    ie = pdb.fn("is_some_rtr_mgr_group_established")
    ctx.touch(ie)
    est = pdb.enum_value("RTR_MGR_ESTABLISHED")
    for stname, stv in sorted(pdb.enum("rtr_mgr_status").items(), key=lambda kv: kv[1]):
        def values(pe, stv=stv):
            if vf.last_field(pe) == "rtr_mgr_group.status":
                return stv
            if vf.last_field(pe) == "tommy_node_struct.next":
                return 0        # a list of one group
            return None

        def classify_e(inst, E, st):
            if inst.op == "call" and inst.callee == "tommy_list_head":
                return [([], {inst.ref: ("nin", frozenset([0]))})]
            return None
        outs_e, _f = es.count_effects(ie, pdb, classify_e, None, values=values)
        rets = {flow.av_single(o["ret"]) for o in outs_e}
        good = rets == ({1} if stv == est else {0})
        ctx.check(good, "C15.R6", "some-group-established[status %s]" % stname[8:], "%s:%d" % (ie.relfile, ie.line),
                  "with one group in this status the answer is %s" % sorted(rets, key=str), key="C15.R6:some-est:%s" % stname)
    # a group that was closed can be started again: rtr_stop leaves a socket that had a thread in RTR_CLOSED (not in the final
    # RTR_SHUTDOWN, which rtr_fsm_start treats as "leave at once"), whatever state the socket was in
    from engine import dt
    sf = pdb.fn("rtr_stop")
    ctx.touch(sf)
    TID = ("fld", ("arg", 0), "rtr_socket.thread_id")
    outs_s = dt.eval_inline(sf, pdb, {TID: ("nin", frozenset([0]))}, {"rtr_change_socket_state"})
    finals = set()
    for o in outs_s:
        stv = [e[3] for e in o["events"] if e[0] == "store" and e[2] == "rtr_socket.state"]
        finals.add(stv[-1] if stv else None)
    ctx.check(bool(outs_s) and finals == {pdb.enum_value("RTR_CLOSED")}, "C15.R6", "rtr_stop:leaves-the-socket-restartable", "%s:%d" % (sf.relfile, sf.line),
              "state after stopping a socket that had a thread: %s (expected RTR_CLOSED on every path)" % sorted(finals, key=str), key="C15.R6:rtr_stop:closed")
    gb = pdb.fn("get_best_inactive_rtr_mgr_group")
    ctx.touch(gb)
    closed = pdb.enum_value("RTR_MGR_CLOSED")
    for st_closed in (True, False):
        for same in (True, False):
            def oracle(inst, pred, a, b, E):
                for x, y, sw_ in ((a, b, False), (b, a, True)):
                    if x[0] == "load" and vf.last_field(x[1]) == "rtr_mgr_group.status" and y == ("c", closed) and pred in ("eq", "ne"):
                        return st_closed if pred == "eq" else not st_closed
                    if y == ("arg", 1) and x[0] == "load" and vf.last_field(x[1]) == "rtr_mgr_group_node.group" and pred in ("eq", "ne"):
                        return same if pred == "eq" else not same
                return None
            went_on = []

            def classify(inst, E, st):
                if inst.op == "call" and inst.callee == "tommy_list_head":
                    head_ok = vf.last_field(vf.expr(gb, inst.args[0])) == "tommy_list_wrapper.list"
                    return [(["head" if head_ok else "head?"], {inst.ref: ("nin", frozenset([0]))})]
                if inst.op == "load" and vf.last_field(vf.expr(gb, inst["ptr"])) == "tommy_node_struct.next":
                    # there is another element; 'walks on' = that element is looked at
                    return ["=adv:1"]
                if inst.op == "load" and vf.last_field(vf.expr(gb, inst["ptr"])) == "tommy_node_struct.data" and st.get("adv") == "1":
                    went_on.append(1)
                    return flow.KILL
                return None
            outs, fl = es.count_effects(gb, pdb, classify, retsets, oracle=oracle,
                                        values=lambda pe: ("nin", frozenset([0])) if vf.last_field(pe) in ("tommy_node_struct.next", "tommy_node_struct.data", "rtr_mgr_group_node.group") else None)
            picked = [o for o in outs if o["ret"] != flow.av_in(0)]
            should = st_closed and not same
            good = (bool(picked) and not went_on and all(vf.expr(gb, o["inst"]["val"])[0] in ("load", "phi") for o in picked)) if should else (not picked and bool(went_on))
            ctx.check(good, "C15.R6", "best_inactive[first element %s,%s]" % ("CLOSED" if st_closed else "not CLOSED", "the failing group" if same else "another group"),
                      "%s:%d" % (gb.relfile, gb.line), "returns it: %s, walks on: %s" % (bool(picked), bool(went_on)), key="C15.R6:best:%s:%s" % (st_closed, same))
    ss = pdb.fn("rtr_mgr_start_sockets")
    ctx.touch(ss)
    il = [L for L in es.index_loops(ss) if L["init"] == "#0" and L["bound"][0] == "load" and vf.last_field(L["bound"][1]) == "rtr_mgr_group.sockets_len"]
    stc = [i for i in ss.all_insts() if i.op == "store" and vf.store_field(i) == "rtr_mgr_group.status"]
    good = bool(il) and len(stc) == 1 and vf.expr(ss, stc[0]["val"]) == ("c", pdb.enum_value("RTR_MGR_CONNECTING"))
    ctx.check(good, "C15.R6", "start_sockets:all-sockets+CONNECTING", "%s:%d" % (ss.relfile, ss.line), "starts every socket of the group and marks it CONNECTING", key="C15.R6:start_sockets")
    # list order = preference order is what makes 'first closed' the most preferred: R2's sort obligations
    fg = pdb.fn("rtr_mgr_get_first_group")
    ctx.touch(fg)
    h = fg.calls("tommy_list_head")
    ctx.check(len(h) == 1 and vf.last_field(vf.expr(fg, h[0].args[0])) == "tommy_list_wrapper.list", "C15.R6", "first-group=list-head", "%s:%d" % (fg.relfile, fg.line),
              "rtr_mgr_get_first_group returns the head of the sorted list", key="C15.R6:first-group")


def check(ctx):
    retsets = flow.return_sets(ctx.pdb)
    r1(ctx, retsets)
    r2(ctx, retsets)
    r3(ctx)
    r4(ctx, retsets)
    r5(ctx, retsets)
    r6(ctx, retsets)
    # the configuration lock is balanced on all paths (pairing rule of C16 applied to rtr_mgr.c)
    ctx.rule("C15.R7", "the configuration lock of the manager is released exactly once on every path of every function that takes it")
    n = 0
    for f in [x for x in ctx.pdb.all_functions() if x.unit == MG]:
        probs, st = ls.lock_pairing(f, ctx.pdb, retsets)
        if not st["acquires"] and not st["releases"]:
            continue
        n += st["acquires"]
        if probs:
            for inst, msg in probs:
                ctx.violation("C15.R7", "%s:pairing" % f.name, inst.loc(), msg, key="C15.R7:%s" % f.name)
        else:
            ctx.ok("C15.R7", "%s:pairing" % f.name, "%s:%d" % (f.relfile, f.line), "%d acquires balanced on %d return states" % (st["acquires"], st["rets"]))
    ctx.floor("C15.R7", n, 8)
    from specs import C07
    with ctx.shared({"C07.R2": ("C15.R8", "last_update is non-zero only after a completed synchronisation: the all-sockets-synced predicate that gates "
                                "ESTABLISHED reads it")}):
        C07.r2(ctx, retsets)
    ctx.not_decided("interleavings of state callbacks coming from several socket threads at once")
    ctx.note("state and status names are decided under C20")


WITNESSES = [
    {"id": "C15.w1-duplicate-test-compares-wrong-field", "rule": "C15.R1", "file": MG,
     "old": "\t\tif ((i > 0) && (groups[i].preference == last_preference)) {", "new": "\t\tif ((i > 0) && (groups[i].sockets_len == last_preference)) {"},
    {"id": "C15.w2-undo-F9-groups-uninitialised", "rule": "C15.R1", "file": MG,
     "old": "\tconfig->len = groups_len;\n\tconfig->groups = NULL;\n", "new": "\tconfig->len = groups_len;\n"},
    {"id": "C15.w3-no-sort-after-add", "rule": "C15.R2", "file": MG,
     "old": "\ttommy_list_sort(&config->groups->list, &rtr_mgr_config_cmp_tommy);\n\n\tstruct rtr_mgr_group *best_group = rtr_mgr_get_first_group(config);\n\n\tif (best_group->status == RTR_MGR_CLOSED)\n\t\trtr_mgr_start_sockets(best_group);\n\n\tpthread_rwlock_unlock(&config->mutex);\n\treturn RTR_SUCCESS;",
     "new": "\tstruct rtr_mgr_group *best_group = rtr_mgr_get_first_group(config);\n\n\tif (best_group->status == RTR_MGR_CLOSED)\n\t\trtr_mgr_start_sockets(best_group);\n\n\tpthread_rwlock_unlock(&config->mutex);\n\treturn RTR_SUCCESS;"},
    {"id": "C15.w4-remove-allows-last-group", "rule": "C15.R2", "file": MG,
     "old": "\tif (config->len == 1) {\n\t\tMGR_DBG1(\"Cannot remove last remaining group!\");", "new": "\tif (config->len == 0) {\n\t\tMGR_DBG1(\"Cannot remove last remaining group!\");"},
    {"id": "C15.w5-established-without-sync-check", "rule": "C15.R4", "file": MG,
     "old": "\t\tif (all_error && rtr_mgr_config_status_is_synced(group)) {", "new": "\t\tif (all_error) {"},
    {"id": "C15.w6-close-direction-flipped", "rule": "C15.R5", "file": MG,
     "old": "\t\t    (current_group->preference > group->preference)) {\n\t\t\tfor (unsigned int j = 0; j < current_group->sockets_len; j++)\n\t\t\t\trtr_stop", "new": "\t\t    (current_group->preference < group->preference)) {\n\t\t\tfor (unsigned int j = 0; j < current_group->sockets_len; j++)\n\t\t\t\trtr_stop"},
    {"id": "C15.w7-best-inactive-returns-last-closed", "rule": "C15.R6", "file": MG,
     "old": "\t\tif ((current_group != group) && (current_group->status == RTR_MGR_CLOSED)) {\n\t\t\tpthread_rwlock_unlock(&config->mutex);\n\t\t\treturn current_group;\n\t\t}\n\t\tnode = node->next;\n\t}\n\tpthread_rwlock_unlock(&config->mutex);\n\treturn NULL;",
     "new": "\t\tif ((current_group != group) && (current_group->status == RTR_MGR_CLOSED))\n\t\t\tbest = current_group;\n\t\tnode = node->next;\n\t}\n\tpthread_rwlock_unlock(&config->mutex);\n\treturn best;",
     "edits": [(MG, "\t\tif ((current_group != group) && (current_group->status == RTR_MGR_CLOSED)) {\n\t\t\tpthread_rwlock_unlock(&config->mutex);\n\t\t\treturn current_group;\n\t\t}\n\t\tnode = node->next;\n\t}\n\tpthread_rwlock_unlock(&config->mutex);\n\treturn NULL;",
                "\t\tif ((current_group != group) && (current_group->status == RTR_MGR_CLOSED))\n\t\t\tbest = current_group;\n\t\tnode = node->next;\n\t}\n\tpthread_rwlock_unlock(&config->mutex);\n\treturn best;"),
               (MG, "\tpthread_rwlock_rdlock(&config->mutex);\n\ttommy_node *node = tommy_list_head(&config->groups->list);\n\n\twhile (node) {\n\t\tstruct rtr_mgr_group_node *group_node = node->data;\n\t\tstruct rtr_mgr_group *current_group = group_node->group;\n\n\t\tif ((current_group != group) && (current_group->status == RTR_MGR_CLOSED))",
                "\tstruct rtr_mgr_group *best = NULL;\n\n\tpthread_rwlock_rdlock(&config->mutex);\n\ttommy_node *node = tommy_list_head(&config->groups->list);\n\n\twhile (node) {\n\t\tstruct rtr_mgr_group_node *group_node = node->data;\n\t\tstruct rtr_mgr_group *current_group = group_node->group;\n\n\t\tif ((current_group != group) && (current_group->status == RTR_MGR_CLOSED))")]},
    {"id": "C15.w8-synced-ignores-last_update", "rule": "C15.R4", "file": MG,
     "old": "\t\tif ((group->sockets[i]->last_update == 0) ||\n\t\t    ((state != RTR_ESTABLISHED)", "new": "\t\tif (((state != RTR_ESTABLISHED)"},
    {"id": "C15.w9-comparator-descending", "rule": "C15.R3", "file": MG,
     "old": "\tif (ar->preference > br->preference)\n\t\treturn 1;\n\telse if (ar->preference < br->preference)\n\t\treturn -1;", "new": "\tif (ar->preference > br->preference)\n\t\treturn -1;\n\telse if (ar->preference < br->preference)\n\t\treturn 1;"},
    {"id": "C15.w10-error-starts-group-even-if-established", "rule": "C15.R6", "file": MG,
     "old": "\tif (!is_some_rtr_mgr_group_established(config)) {\n\t\tstruct rtr_mgr_group *next_group", "new": "\tif (1) {\n\t\tstruct rtr_mgr_group *next_group"},
    {"id": "C15.w11-hold-back-by-less-preferred", "rule": "C15.R5", "file": MG,
     "old": "\t\t\t    (current_group->preference < group->preference)) {\n\t\t\t\tall_error = false;", "new": "\t\t\t    (current_group->preference != group->preference)) {\n\t\t\t\tall_error = false;"},
    {"id": "C15.w12-established-without-closing-others", "rule": "C15.R4", "file": MG,
     "old": "\t\tif (rtr_mgr_config_status_is_synced(group)) {\n\t\t\tset_status(config, group, RTR_MGR_ESTABLISHED, sock);\n\t\t\trtr_mgr_close_less_preferable_groups(sock, config, group);", "new": "\t\tif (rtr_mgr_config_status_is_synced(group)) {\n\t\t\tset_status(config, group, RTR_MGR_ESTABLISHED, sock);"},
    {"id": "C15.w13-transport-error-not-dispatched", "rule": "C15.R6", "file": MG,
     "old": "\tcase RTR_ERROR_FATAL:\n\tcase RTR_ERROR_TRANSPORT:\n\tcase RTR_ERROR_NO_DATA_AVAIL:", "new": "\tcase RTR_ERROR_FATAL:\n\tcase RTR_ERROR_NO_DATA_AVAIL:"},
    {"id": "C15.w14-add-group-leaves-lock-on-duplicate", "rule": "C15.R7", "also": ("C15.R2",), "file": MG,
     "old": "\t\t\terr_code = RTR_INVALID_PARAM;\n\t\t\tgoto err;", "new": "\t\t\treturn RTR_INVALID_PARAM;"},
    {"id": "C15.w-group-count-raised-before-the-group-is-in", "rule": "C15.R2", "file": MG,
     "old": "\tnew_group->status = RTR_MGR_CLOSED;\n\n\terr_code = rtr_mgr_init_sockets(new_group,", "new": "\tnew_group->status = RTR_MGR_CLOSED;\n\tconfig->len++;\n\n\terr_code = rtr_mgr_init_sockets(new_group,"},
    {"id": "C15.w-established-means-synced", "rule": "C15.R6", "file": MG,
     "old": "\t\tif (group_node->group->status == RTR_MGR_ESTABLISHED) {", "new": "\t\tif (rtr_mgr_config_status_is_synced(group_node->group)) {"},
    {"id": "C15.w-stop-asks-the-state-setter-for-closed", "rule": "C15.R6", "file": "rtrlib/rtr/rtr.c",
     "old": "\t\trtr_socket->thread_id = 0;\n\t\trtr_socket->state = RTR_CLOSED;", "new": "\t\trtr_socket->thread_id = 0;\n\t\trtr_change_socket_state(rtr_socket, RTR_CLOSED);"},
    {"id": "C15.w-best-group-looked-up-before-the-removal", "rule": "C15.R2", "file": MG,
     "old": "\tgroup_node = remove_node->data;\n\tremove_group = group_node->group;\n\ttommy_list_remove_existing(&config->groups->list, remove_node);",
     "new": "\tgroup_node = remove_node->data;\n\tremove_group = group_node->group;\n\tstruct rtr_mgr_group *first = rtr_mgr_get_first_group(config);\n\ttommy_list_remove_existing(&config->groups->list, remove_node);\n\tif (first->status == RTR_MGR_CLOSED && first != remove_group)\n\t\trtr_mgr_start_sockets(first);"},
]
