"""C12 — generated BGPsec signatures verify under an independent RFC 8205 implementation (partial).

The RFC 8205 section 4.2 table (specs/C11.py r3) *is* the independent implementation, in table form: a digest layout
that is self-consistent between signer and validator but differs from the RFC fails it.
R3 signing digest layout (all existing signature segments included)          [shared machinery with C11.R3]
R4 size formula / writer agreement for SIGNING                                [C11.R4]
R5 precondition table of rtr_bgpsec_generate_signature
R6 ECDSA_sign wiring: digest of the whole stream, segment buffer sized by ECDSA_size, sig_len from the out-parameter
Not decided: that the produced bytes are a valid ECDSA signature (OpenSSL).
"""
from engine import es, flow, vf
from engine.pdb import AnalysisBroken
from specs import C11

GS = "rtr_bgpsec_generate_signature"


def cells(pdb):
    D = ("arg", 0)
    NN = ("nin", frozenset([0]))
    PATH, NLRI = ("fld", D, "rtr_bgpsec.path"), ("fld", D, "rtr_bgpsec.nlri")
    PL, SL = ("fld", D, "rtr_bgpsec.path_len"), ("fld", D, "rtr_bgpsec.sigs_len")
    AFI = ("fld", ("load", NLRI), "rtr_bgpsec_nlri.afi")
    NEW = ("arg", 2)
    base = {0: NN, 1: NN, 2: NN, PATH: NN, PL: 3, SL: 2, AFI: 2, NEW: 0}
    OK = {"rtr_bgpsec_has_algorithm_suite": 0}

    def mk(b, ch):
        d = dict(b)
        d.update(ch)
        return d
    return [("data NULL", mk(base, {0: 0}), OK, "RTR_BGPSEC_INVALID_ARGUMENTS"),
            ("path NULL", mk(base, {PATH: 0}), OK, "RTR_BGPSEC_INVALID_ARGUMENTS"),
            ("private key NULL", mk(base, {1: 0}), OK, "RTR_BGPSEC_INVALID_ARGUMENTS"),
            ("output not empty", mk(base, {NEW: NN}), OK, "RTR_BGPSEC_INVALID_ARGUMENTS"),
            ("unsupported suite", mk(base, {}), {"rtr_bgpsec_has_algorithm_suite": -1}, "RTR_BGPSEC_UNSUPPORTED_ALGORITHM_SUITE"),
            ("AFI 0", mk(base, {AFI: 0}), OK, "RTR_BGPSEC_UNSUPPORTED_AFI"),
            ("AFI 3", mk(base, {AFI: 3}), OK, "RTR_BGPSEC_UNSUPPORTED_AFI"),
            ("as many path as signature segments", mk(base, {PL: 2}), OK, "RTR_BGPSEC_WRONG_SEGMENT_COUNT"),
            ("two more path than signature segments", mk(base, {PL: 4}), OK, "RTR_BGPSEC_WRONG_SEGMENT_COUNT"),
            ("private key not loadable", mk(base, {}), {"rtr_bgpsec_has_algorithm_suite": 0, "load_private_key": -3}, "RTR_BGPSEC_LOAD_PRIV_KEY_ERROR"),
            ("key without a usable size", mk(base, {}), {"rtr_bgpsec_has_algorithm_suite": 0, "load_private_key": 0, "ECDSA_size": 0}, "RTR_BGPSEC_LOAD_PRIV_KEY_ERROR")]


def r6(ctx, retsets):
    pdb = ctx.pdb
    ctx.rule("C12.R6", "rtr_bgpsec_generate_signature hashes the whole aligned stream, signs that 32-byte digest with the loaded key "
             "into a buffer of ECDSA_size(key) bytes and stores the length ECDSA_sign reports as sig_len; success is returned "
             "only after sign_byte_sequence succeeded")
    fn = pdb.fn(GS)
    ctx.touch(fn)
    E_ = pdb.enum("rtr_bgpsec_rtvals")
    al = fn.calls("align_byte_sequence")
    hs = fn.calls("hash_byte_sequence")
    sg = fn.calls("sign_byte_sequence")
    ns = fn.calls("rtr_bgpsec_new_signature_seg")
    sz = fn.calls("ECDSA_size")
    ctx.floor("C12.R6", min(len(al), len(hs), len(sg), len(ns), len(sz)), 1)
    SIGNING = pdb.enum_value("SIGNING")
    good = vf.expr(fn, al[0].args[0]) == ("arg", 0) and vf.expr(fn, al[0].args[2]) == ("c", SIGNING)
    rs = fn.calls("req_stream_size")
    good = good and len(rs) == 1 and vf.expr(fn, rs[0].args[1]) == ("c", SIGNING)
    ctx.check(good, "C12.R6", "align-for-signing", al[0].loc(), "align_byte_sequence(data, stream, SIGNING) with a stream of req_stream_size(data, SIGNING)", key="C12.R6:align")
    h = hs[0]
    ha = [vf.expr(fn, a) for a in h.args]
    whole = ha[0][0] == "call" and ha[0][1] == "get_stream_start" and ha[1][0] == "call" and ha[1][1] == "get_stream_size" and fn.dom(al[0], h)
    ctx.check(whole, "C12.R6", "hash-whole-stream", h.loc(), "hash_byte_sequence(%s, %s, ...)" % (vf.show(ha[0]), vf.show(ha[1])), key="C12.R6:hash")
    s0 = sg[0]
    sa = [vf.expr(fn, a) for a in s0.args]
    out_al = vf.expr(fn, h.args[3])
    # 'the digest just computed': on every path the signing call is executed after the hash call reported success (the hash may
    # sit in a branch of its own, with the verdict carried in a variable to the branch that signs)
    unhashed = []

    def cl_order(inst, E, st):
        if inst is h:
            return [(["=h:ok"], {inst.ref: flow.av_in(E_["RTR_BGPSEC_SUCCESS"])}), (["=h:failed"], {inst.ref: ("nin", frozenset([E_["RTR_BGPSEC_SUCCESS"]]))})]
        if inst is s0 and st.get("h") != "ok":
            unhashed.append(st.get("h", "not executed"))
        return None
    es.count_effects(fn, pdb, cl_order, retsets, cap=96)
    wired = sa[0] == ("load", out_al) and sa[3] == ("load", ("arg", 2)) and not unhashed
    ctx.check(wired, "C12.R6", "sign-the-digest", s0.loc(), "sign_byte_sequence(digest just computed, key, alg, *new_signature)", key="C12.R6:sign-args")
    sized = vf.expr(fn, ns[0].args[1])[0] in ("call",) and vf.expr(fn, ns[0].args[1])[1] == "ECDSA_size" or \
        (vf.mentions(vf.expr(fn, ns[0].args[1]), lambda x: isinstance(x, tuple) and x[0] == "call" and x[1] == "ECDSA_size"))
    ctx.check(sized, "C12.R6", "buffer-sized-by-ECDSA_size", ns[0].loc(), "signature buffer of %s bytes" % vf.show(vf.expr(fn, ns[0].args[1])), key="C12.R6:size")

    def classify(inst, E, st):
        if inst.op == "call" and inst.callee:
            c = inst.callee
            forks = {"rtr_bgpsec_has_algorithm_suite": [0], "load_private_key": [0], "align_byte_sequence": [0, -1], "hash_byte_sequence": [0, -1]}
            if c in forks:
                return [(["=%s:%d" % (c[:5], v)], {inst.ref: flow.av_in(v)}) for v in forks[c]]
            if c == "ECDSA_size":
                return [([], {inst.ref: flow.av_in(72)})]
            if c == "rtr_bgpsec_new_signature_seg":
                return [([], {inst.ref: ("nin", frozenset([0]))}), (["=alloc:fail"], {inst.ref: flow.av_in(0)})]
            if c == "sign_byte_sequence":
                return [(["=sign:ok"], {inst.ref: flow.av_in(0)}), (["=sign:fail"], {inst.ref: flow.av_in(E_["RTR_BGPSEC_SIGNING_ERROR"])})]
        return None
    D = ("arg", 0)
    NN = ("nin", frozenset([0]))
    cell = {0: NN, 1: NN, 2: NN, ("fld", D, "rtr_bgpsec.path"): NN, ("fld", D, "rtr_bgpsec.path_len"): 3, ("fld", D, "rtr_bgpsec.sigs_len"): 2,
            ("fld", ("load", ("fld", D, "rtr_bgpsec.nlri")), "rtr_bgpsec_nlri.afi"): 1, ("arg", 2): 0}
    outs, fl = es.count_effects(fn, pdb, classify, retsets, cell=cell)
    succ = [o for o in outs if flow.av_single(o["ret"]) == 0]
    ctx.check(bool(succ) and all(o["counts"].get("sign") == "ok" for o in succ), "C12.R6", "success-only-after-signing", "%s:%d" % (fn.relfile, fn.line),
              "success states: %s" % [o["counts"] for o in succ][:3], key="C12.R6:success")
    bad = [o for o in outs if o["counts"].get("sign") == "fail" and flow.av_single(o["ret"]) != E_["RTR_BGPSEC_SIGNING_ERROR"]]
    ctx.check(not bad, "C12.R6", "signing-error-reported", "%s:%d" % (fn.relfile, fn.line), "a failed signing returns RTR_BGPSEC_SIGNING_ERROR", key="C12.R6:sign-error")
    sb = pdb.fn("sign_byte_sequence")
    ctx.touch(sb)
    es_ = sb.calls("ECDSA_sign")
    ctx.floor("C12.R6", len(es_), 1)
    a = [vf.expr(sb, x) for x in es_[0].args]
    outlen = a[4]
    good = a[1] == ("arg", 0) and a[2] == ("c", 32) and a[3] == ("load", ("fld", ("arg", 3), "rtr_signature_seg.signature")) and a[5] == ("arg", 1) and outlen[0] == "alloca"
    st = [i for i in sb.all_insts() if i.op == "store" and vf.store_field(i) == "rtr_signature_seg.sig_len" and vf.root_of(vf.expr(sb, i["ptr"])) == ("arg", 3)]
    lenok = len(st) == 1 and vf.expr(sb, st[0]["val"]) == ("load", outlen) and sb.dom(es_[0], st[0])
    ctx.check(good and lenok, "C12.R6", "ECDSA_sign:wiring", es_[0].loc(), "ECDSA_sign(0, digest, 32, segment buffer, &len, key) and sig_len <- len: args %s, length %s" % (good, lenok),
              key="C12.R6:ECDSA_sign")

    def cl(inst, E, stt):
        if inst.op == "call" and inst.callee == "ECDSA_sign":
            return ["signed"]
        if inst.op == "store" and vf.store_field(inst) == "rtr_signature_seg.sig_len":
            return ["len_stored"]
        return None
    for res, want in ((0, E_["RTR_BGPSEC_SIGNING_ERROR"]), (71, 0)):
        outl = next(iter([x for x in sb.all_insts() if x.op == "alloca" and ("alloca", x.id, x.get("name", "")) == outlen]), None)

        class H(es.CountHooks):
            pass
        # ECDSA_sign writes the length through its out-parameter: model by a fact on the local after the call

        def cl3(inst, E, stt, res=res):
            if inst.op == "call" and inst.callee == "ECDSA_sign":
                return [(["signed"], {("M", outlen): flow.av_in(res)})]
            if inst.op == "store" and vf.store_field(inst) == "rtr_signature_seg.sig_len":
                return ["len_stored"]
            return None
        o5, f5 = es.count_effects(sb, pdb, cl3, retsets, cell={2: 1})
        rets = {flow.av_single(o["ret"]) for o in o5}
        stored = {o["counts"].get("len_stored", 0) for o in o5}
        ctx.check(rets == {want} and stored == ({1} if res else {0}), "C12.R6", "sign_byte_sequence[length %d]" % res, "%s:%d" % (sb.relfile, sb.line),
                  "returns %s, sig_len stored %s" % (sorted(rets, key=str), sorted(stored)), key="C12.R6:sign:%d" % res)


def check(ctx):
    pdb = ctx.pdb
    retsets = flow.return_sets(pdb)
    C11.validation_shape(pdb)
    C11.r3(ctx, "C12.R3", "SIGNING")
    C11.r4(ctx, "C12.R4")
    ctx.rule("C12.R5", "rtr_bgpsec_generate_signature refuses NULL arguments / a non-empty output pointer, unsupported suite, AFI outside "
             "{1,2}, a path that is not exactly one segment longer than the signatures, and an unusable private key, each with "
             "its specific code and before anything is hashed")
    C11.r5(ctx, retsets, GS, "C12.R5", cells(pdb))
    C11.no_static_state(ctx, "C12.R5")
    C11.no_swapped_arguments(ctx, "C12.R5")
    r6(ctx, retsets)
    ctx.not_decided("that ECDSA_sign produces a signature an independent verifier accepts (OpenSSL); only the wiring is decided")
    ctx.not_decided("hop-by-hop composition (a path built from generated signatures validates) beyond C11.R3/R4 = C12.R3/R4 agreement")


BG = "rtrlib/bgpsec/bgpsec.c"
BU = "rtrlib/bgpsec/bgpsec_utils.c"
WITNESSES = [
    {"id": "C12.w1-signing-count-check-equal", "rule": "C12.R5", "file": BG,
     "old": "\tif (data->path_len != (data->sigs_len + 1))", "new": "\tif (data->path_len < (data->sigs_len + 1))"},
    {"id": "C12.w2-sig_len-not-stored", "rule": "C12.R6", "file": BU,
     "old": "\t\telse\n\t\t\tnew_signature->sig_len = sig_res;", "new": ""},
    {"id": "C12.w3-signing-skips-first-signature", "rule": "C12.R3", "file": BU,
     "old": "\tif (type == VALIDATION)\n\t\ttmp_sig = data->sigs->next;\n\telse\n\t\ttmp_sig = data->sigs;", "new": "\ttmp_sig = data->sigs ? data->sigs->next : NULL;"},
    {"id": "C12.w4-safi-after-nlri-length", "rule": "C12.R3", "file": BU,
     "old": "\twrite_stream(s, (uint8_t *)&data->safi, 1);\n\twrite_stream(s, (uint8_t *)&data->nlri->nlri_len, 1);", "new": "\twrite_stream(s, (uint8_t *)&data->nlri->nlri_len, 1);\n\twrite_stream(s, (uint8_t *)&data->safi, 1);"},
    {"id": "C12.w5-aligned-for-validation", "rule": "C12.R6", "file": BG,
     "old": "\tretval = align_byte_sequence(data, s, SIGNING);", "new": "\tretval = align_byte_sequence(data, s, VALIDATION);"},
    {"id": "C12.w6-key-error-code", "rule": "C12.R5", "file": BG,
     "old": "\tif (retval != RTR_BGPSEC_SUCCESS) {\n\t\tretval = RTR_BGPSEC_LOAD_PRIV_KEY_ERROR;\n\t\tgoto err;\n\t}", "new": "\tif (retval != RTR_BGPSEC_SUCCESS) {\n\t\tretval = RTR_BGPSEC_ERROR;\n\t\tgoto err;\n\t}"},
    {"id": "C12.w7-sign-hashes-from-offset", "rule": "C12.R6", "file": BG,
     "old": "\tretval = hash_byte_sequence(curr, get_stream_size(s), data->alg, &hash_result);", "new": "\tretval = hash_byte_sequence(curr + 4, get_stream_size(s) - 4, data->alg, &hash_result);"},
    {"id": "C12.w8-target-as-host-order", "rule": "C12.R3", "file": BU,
     "old": "\tasn = htonl(data->target_as);", "new": "\tasn = data->target_as;"},
    {"id": "C12.w9-nlri-bytes-floor", "rule": "C12.R4", "also": ("C12.R3",), "file": BU,
     "old": "\tuint8_t nlri_len_b = (data->nlri->nlri_len + 7) / 8; // bits to bytes", "new": "\tuint8_t nlri_len_b = data->nlri->nlri_len / 8; // bits to bytes"},
    {"id": "C12.w-private-key-check-remembered", "rule": "C12.R5", "file": BU,
     "old": "\tchar *p = (char *)bytes_key;\n\t*priv_key = NULL;", "new": "\tstatic unsigned int calls;\n\tchar *p = (char *)bytes_key;\n\t*priv_key = NULL;\n\tif (calls++ > 1000)\n\t\treturn RTR_BGPSEC_LOAD_PRIV_KEY_ERROR;"},
    {"id": "C12.w-size-from-the-first-signature-only", "rule": "C12.R4", "file": BU,
     "old": "\t\tsig_segs_size += curr->sig_len + sizeof(curr->sig_len) + SKI_SIZE;", "new": "\t\tsig_segs_size += sig_segs->sig_len + sizeof(curr->sig_len) + SKI_SIZE;"},
    {"id": "C12.w-wrapper-crosses-the-as-numbers", "rule": "C12.R5", "file": "rtrlib/rtr_mgr.c",
     "old": "\treturn rtr_bgpsec_new(alg, safi, afi, my_as, target_as, nlri);", "new": "\treturn rtr_bgpsec_new(alg, safi, afi, target_as, my_as, nlri);"},
]
