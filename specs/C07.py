"""C07 — data that can no longer be refreshed expires; stopping a socket removes its data.

R1 the expiry check runs before every transport open (CONNECTING arm) and in both no-data arms
R2 last_update == 0  <=>  the socket holds no data (write discipline of the timestamp)
R3 decision table of rtr_purge_outdated_records
R4 rtr_stop purges both tables with the own socket after the worker thread was joined
R5 every purge names the socket's own tables and the socket itself (other sockets' records untouched)
"""
from engine import es, flow, fsm, vf
from engine.pdb import AnalysisBroken

SOCK = ("arg", 0)
LU = ("fld", SOCK, "rtr_socket.last_update")
LIVE_PFX = ("load", ("fld", SOCK, "rtr_socket.pfx_table"))
LIVE_SPKI = ("load", ("fld", SOCK, "rtr_socket.spki_table"))
PURGE = "rtr_purge_outdated_records"
RECV = "rtr_sync_receive_and_store_pdus"


def _same_region(fn, a, b):
    if a.block.id == b.block.id:
        return True
    return (fn.bdom(a.block.id, b.block.id) and fn.bpdom(b.block.id, a.block.id)) or \
           (fn.bdom(b.block.id, a.block.id) and fn.bpdom(a.block.id, b.block.id))


def r1(ctx):
    pdb = ctx.pdb
    ctx.rule("C07.R1", "rtr_purge_outdated_records runs before tr_open on every path of the CONNECTING arm and in the "
             "NO_DATA_AVAIL / NO_INCR_UPDATE_AVAIL arms")
    st = pdb.enum("rtr_socket_state")
    outs = fsm.explore_arm(pdb, st["RTR_CONNECTING"], forks={"tr_open": [-1, 0], "rtr_send_serial_query": [-1, 0]},
                           interesting={PURGE})
    n = 0
    for o in outs:
        ev = [e[:2] for e in o["events"]]
        if ("call", "tr_open") in ev:
            n += 1
            i = ev.index(("call", "tr_open"))
            ctx.check(("call", PURGE) in ev[:i], "C07.R1", "CONNECTING:purge-before-open#%d" % n, "rtrlib/rtr/rtr.c",
                      "events: %s" % ev[1:], key="C07.R1:connecting")
    ctx.floor("C07.R1", n, 2)
    for K in ("RTR_ERROR_NO_DATA_AVAIL", "RTR_ERROR_NO_INCR_UPDATE_AVAIL"):
        outs = fsm.explore_arm(pdb, st[K], interesting={PURGE})
        good = bool(outs) and all(("call", PURGE) in [e[:2] for e in o["events"]] for o in outs)
        ctx.check(good, "C07.R1", "%s:purge" % K, "rtrlib/rtr/rtr.c", "expiry check present in the arm", key="C07.R1:%s" % K)


def r2(ctx, retsets):
    pdb = ctx.pdb
    ctx.rule("C07.R2", "last_update is set to 0 only where the socket provably holds no data (constructor, or both tables "
             "purged with the own socket on every path through the store); it becomes non-zero only through "
             "rtr_set_last_update after the payload was received successfully")
    stores = vf.stores_to_field(pdb, "rtr_socket.last_update")
    ctx.floor("C07.R2", len(stores), 3)
    for s in stores:
        fn = s.fn
        ctx.touch(fn)
        v = vf.expr(fn, s["val"])
        if v != ("c", 0):
            ctx.violation("C07.R2", "last_update<-%s in %s" % (vf.show(v), fn.name), s.loc(),
                          "timestamp written with something else than 0 outside rtr_set_last_update",
                          key="C07.R2:%s:nonzero" % fn.name)
            continue
        if fn.name == "rtr_init":
            ctx.ok("C07.R2", "last_update=0 in rtr_init", s.loc(), "constructor: the socket holds no data")
            continue
        rm_p = [c for c in fn.calls("pfx_table_src_remove") if _same_region(fn, s, c)]
        rm_s = [c for c in fn.calls("spki_table_src_remove") if _same_region(fn, s, c)]
        sock = vf.root_of(vf.expr(fn, s["ptr"]))
        good = bool(rm_p) and bool(rm_s) and \
            all(vf.expr(fn, c.args[1]) == sock and vf.expr(fn, c.args[0]) == ("load", ("fld", sock, "rtr_socket.pfx_table")) for c in rm_p) and \
            all(vf.expr(fn, c.args[1]) == sock and vf.expr(fn, c.args[0]) == ("load", ("fld", sock, "rtr_socket.spki_table")) for c in rm_s)
        ctx.check(good, "C07.R2", "last_update=0 in %s" % fn.name, s.loc(),
                  "both tables purged with the own socket on every path through the store" if good else
                  "timestamp cleared while the socket may still hold records (no purge of both tables in the same region)",
                  key="C07.R2:%s:last_update" % fn.name)
    # non-zero: address of the field handed only to the clock, inside rtr_set_last_update
    n = 0
    for f in pdb.all_functions():
        for c in f.calls():
            for k, a in enumerate(c.args):
                e = vf.expr(f, a)
                if isinstance(e, tuple) and e[0] == "fld" and e[2] == "rtr_socket.last_update":
                    n += 1
                    ctx.check(f.name == "rtr_set_last_update" and c.callee == "lrtr_get_monotonic_time", "C07.R2",
                              "&last_update passed to %s in %s" % (c.callee, f.name), c.loc(), "timestamp written by the monotonic clock only",
                              key="C07.R2:addr:%s" % f.name)
    ctx.floor("C07.R2", n, 1)
    for c in pdb.callers("rtr_set_last_update"):
        fn = c.fn
        g = es.guards_of(fn, c)
        dominated = any(vf.mentions(vf.expr(fn, cond), lambda x: isinstance(x, tuple) and x[0] == "call" and x[1] == RECV) for cond, t, br in g)
        ctx.check(fn.name == "rtr_sync" and dominated, "C07.R2", "rtr_set_last_update in %s" % fn.name, c.loc(),
                  "timestamp set only after %s succeeded" % RECV, key="C07.R2:set:%s" % fn.name)


def r3(ctx, retsets):
    pdb = ctx.pdb
    ctx.rule("C07.R3", "rtr_purge_outdated_records: no-op iff last_update == 0 or (clock ok and last_update + expire_interval "
             ">= now); otherwise both tables purged with the own socket, request_session_id = true, serial 0, last_update 0")
    fn = pdb.fn(PURGE)
    ctx.touch(fn)
    # the expiry comparison
    cmps = []
    for i in fn.all_insts():
        if i.op == "icmp" and i["pred"] in ("slt", "sgt", "ult", "ugt", "sle", "sge", "ule", "uge"):
            a, b = vf.expr(fn, i["a"]), vf.expr(fn, i["b"])
            def is_sum(e):
                return vf.mentions(e, lambda x: x == ("load", LU)) and e[0] == "bin" and e[1] == "add"
            def is_now(e):
                return e[0] == "load" and e[1][0] == "alloca"
            if is_sum(a) and is_now(b):
                cmps.append((i, i["pred"], "sum?now"))
            elif is_sum(b) and is_now(a):
                cmps.append((i, i["pred"], "now?sum"))
    if len(cmps) != 1:
        raise AnalysisBroken("%s: expiry comparison (last_update + interval vs now) not found" % PURGE)
    ci, pred, orient = cmps[0]
    sume = vf.expr(fn, ci["a"] if orient == "sum?now" else ci["b"])
    other = [x for x in (sume[2], sume[3]) if not vf.mentions(x, lambda y: y == ("load", LU))]
    uses_expire = len(other) == 1 and vf.mentions(other[0], lambda y: y == ("load", ("fld", SOCK, "rtr_socket.expire_interval"))) \
        and not vf.mentions(other[0], lambda y: isinstance(y, tuple) and y[0] == "bin")
    ctx.check(uses_expire, "C07.R3", "expiry-uses-expire_interval", ci.loc(),
              "deadline = last_update + %s" % (vf.show(other[0]) if other else "?"), key="C07.R3:deadline")
    # the comparison must be 'deadline < now' or its exact negation 'deadline >= now' (either operand order)
    p_ = pred[1:]
    if orient == "now?sum":
        p_ = {"lt": "gt", "gt": "lt", "le": "ge", "ge": "le"}[p_]
    true_means_expired = {"lt": True, "ge": False}.get(p_)      # 'le' / 'gt' are off by one at deadline == now
    ctx.check(true_means_expired is not None, "C07.R3", "expiry-comparison", ci.loc(),
              "records expire when last_update + expire_interval < now (found: deadline %s now)" % {"lt": "<", "ge": ">=", "le": "<=", "gt": ">"}[p_], key="C07.R3:comparison")
    if true_means_expired is None:
        true_means_expired = True
    now_alloca = vf.root_of(vf.expr(fn, ci["b"] if orient == "sum?now" else ci["a"]))
    clock = [c for c in fn.calls("lrtr_get_monotonic_time")]
    ctx.check(len(clock) == 1 and vf.expr(fn, clock[0].args[0]) == now_alloca and fn.dom(clock[0], ci), "C07.R3", "now-from-clock",
              ci.loc(), "'now' is the value just read from the monotonic clock", key="C07.R3:now")
    cells = [("last_update=0", {LU: 0}, None, None, False),
             ("last_update!=0,clock fails", {LU: ("nin", frozenset([0]))}, -1, None, True),
             ("last_update!=0,clock ok,expired", {LU: ("nin", frozenset([0]))}, 0, True, True),
             ("last_update!=0,clock ok,fresh", {LU: ("nin", frozenset([0]))}, 0, False, False)]
    for name, cell, clk, expired, want_purge in cells:
        def oracle(inst, pred_, a, b, E, expired=expired):
            if inst.id == ci.id and expired is not None:
                return expired if true_means_expired else not expired
            return None

        def classify(inst, E, st, clk=clk):
            if inst.op == "call":
                if inst.callee == "lrtr_get_monotonic_time" and clk is not None:
                    return [([], {inst.ref: flow.av_in(clk)})]
                if inst.callee == "pfx_table_src_remove":
                    return ["purge_pfx" if (vf.expr(fn, inst.args[0]), vf.expr(fn, inst.args[1])) == (LIVE_PFX, SOCK) else "purge_pfx_wrongargs"]
                if inst.callee == "spki_table_src_remove":
                    return ["purge_spki" if (vf.expr(fn, inst.args[0]), vf.expr(fn, inst.args[1])) == (LIVE_SPKI, SOCK) else "purge_spki_wrongargs"]
            if inst.op == "store":
                f = vf.store_field(inst)
                if f in ("rtr_socket.request_session_id", "rtr_socket.serial_number", "rtr_socket.last_update"):
                    return ["%s=%s" % (f.split(".")[1], flow.av_single(E.val(inst["val"])))]
            return None
        outs, fl = es.count_effects(fn, pdb, classify, retsets, cell=cell, oracle=oracle)
        exp = {"purge_pfx": 1, "purge_spki": 1, "request_session_id=1": 1, "serial_number=0": 1, "last_update=0": 1} if want_purge else {}
        found = [o["counts"] for o in outs]
        ctx.check(bool(outs) and all(c == exp for c in found), "C07.R3", "purge[%s]" % name, "%s:%d" % (fn.relfile, fn.line),
                  "effects %s, expected %s" % (found, exp or "none"), key="C07.R3:%s" % name)


def r4(ctx):
    pdb = ctx.pdb
    ctx.rule("C07.R4", "rtr_stop: after joining the worker thread both tables are purged with the own socket; the purge "
             "depends on nothing but the socket having been started")
    fn = pdb.fn("rtr_stop")
    ctx.touch(fn)
    joins = fn.calls("pthread_join")
    for callee, live in (("pfx_table_src_remove", LIVE_PFX), ("spki_table_src_remove", LIVE_SPKI)):
        cs = fn.calls(callee)
        ctx.floor("C07.R4", len(cs), 1)
        for c in cs:
            args_ok = vf.expr(fn, c.args[0]) == live and vf.expr(fn, c.args[1]) == SOCK
            after_join = bool(joins) and all(fn.dom(j, c) for j in joins)
            guards = es.guards_of(fn, c)
            only_thread = all(vf.mentions(vf.expr(fn, cond), lambda x: x == ("load", ("fld", SOCK, "rtr_socket.thread_id"))) for cond, t, br in guards)
            ctx.check(args_ok and after_join and only_thread and len(guards) <= 1, "C07.R4", "rtr_stop:%s" % callee, c.loc(),
                      "own table/socket=%s, after pthread_join=%s, guarded only by thread_id=%s" % (args_ok, after_join, only_thread and len(guards) <= 1),
                      key="C07.R4:%s" % callee)


def r5(ctx):
    pdb = ctx.pdb
    ctx.rule("C07.R5", "every removal-by-source issued by the protocol code names the socket's own table and the socket itself")
    n = 0
    for callee, fld in (("pfx_table_src_remove", "rtr_socket.pfx_table"), ("spki_table_src_remove", "rtr_socket.spki_table")):
        for c in pdb.callers(callee):
            if not c.fn.unit.startswith("rtrlib/rtr/"):
                continue
            n += 1
            fn = c.fn
            sock = vf.expr(fn, c.args[1])
            tab = vf.expr(fn, c.args[0])
            good = sock[0] == "arg" and tab == ("load", ("fld", sock, fld))
            ctx.check(good, "C07.R5", "%s in %s" % (callee, fn.name), c.loc(), "purges (%s, %s)" % (vf.show(tab), vf.show(sock)),
                      key="C07.R5:%s:%s" % (callee, fn.name))
    ctx.floor("C07.R5", n, 4)     # two tables x at least two purge sites (giving the data up, failed roll-back); merged sites lower the count


def check(ctx):
    retsets = flow.return_sets(ctx.pdb)
    r1(ctx)
    r2(ctx, retsets)
    r3(ctx, retsets)
    r4(ctx)
    r5(ctx)
    from specs import C02
    with ctx.shared({"C02.R3": ("C07.R6", "the purge really empties the socket's share of the prefix table: removal by source deletes every element of "
                                "that source (slot re-examined after a deletion, node re-examined after a pull-up, both children, both families)")}):
        C02.r3(ctx, retsets)
    from specs import C10
    with ctx.shared({"C10.R3": ("C07.R7", "the purge really empties the socket's share of the router-key table: the removal walk moves one entry at a "
                                "time and ends only at the end of the list (or on failure)")}):
        C10.r_walks(ctx, only=["spki_table_src_remove"])
    from specs import C03
    with ctx.shared({"C03.R6": ("C07.R8", "a failed exchange is seen as failed all the way up (no status dropped, no failure code mistaken for success), so "
                                "it cannot refresh the expiry timestamp")}):
        C03.r6(ctx, retsets)
    with ctx.shared({"C03.R2": ("C07.R9", "a response that could not be applied (and was rolled back or purged) is reported as failed by the receive "
                                "function: success is returned on exactly the paths that applied every buffered PDU, so a rejected "
                                "response cannot refresh the expiry timestamp either")}):
        C03.r2_r3_r4(ctx, retsets)
    from specs import C05
    with ctx.shared({"C05.R5": ("C07.R10", "the purge on reconnect is followed by a Reset Query in the same round: the choice between Serial and "
                                "Reset Query is made on request_session_id as it is after the purge check")}):
        C05.r5(ctx, retsets)
    ctx.not_decided("real time: the check is about which comparison is made and what follows it, not about clocks")


PK = "rtrlib/rtr/packets.c"
RT = "rtrlib/rtr/rtr.c"
WITNESSES = [
    {"id": "C07.w1-no-purge-before-open", "rule": "C07.R1", "file": RT,
     "old": "\t\t\trtr_purge_outdated_records(rtr_socket);\n\n\t\t\tif (tr_open(rtr_socket->tr_socket) == TR_ERROR) {",
     "new": "\t\t\tif (tr_open(rtr_socket->tr_socket) == TR_ERROR) {"},
    {"id": "C07.w2-undo-F3-clear-timestamp-at-reload-start", "rule": "C07.R2", "file": PK,
     "old": "\t\t\trtr_socket->is_resetting = true;\n\t\t}\n\t\trtr_socket->session_id = cr_pdu->session_id;",
     "new": "\t\t\trtr_socket->last_update = 0;\n\t\t\trtr_socket->is_resetting = true;\n\t\t}\n\t\trtr_socket->session_id = cr_pdu->session_id;"},
    {"id": "C07.w3-stamp-before-receive", "rule": "C07.R2", "file": PK,
     "old": "\tif (rtr_sync_receive_and_store_pdus(rtr_socket) == RTR_ERROR)\n\t\treturn RTR_ERROR;\n\n\trtr_socket->request_session_id = false;\n\tif (rtr_set_last_update(rtr_socket) == RTR_ERROR)\n\t\treturn RTR_ERROR;",
     "new": "\tif (rtr_set_last_update(rtr_socket) == RTR_ERROR)\n\t\treturn RTR_ERROR;\n\tif (rtr_sync_receive_and_store_pdus(rtr_socket) == RTR_ERROR)\n\t\treturn RTR_ERROR;\n\n\trtr_socket->request_session_id = false;"},
    {"id": "C07.w4-expiry-comparison-flipped", "rule": "C07.R3", "file": RT,
     "old": "(rtr_socket->last_update + rtr_socket->expire_interval) < cur_time)", "new": "(rtr_socket->last_update + rtr_socket->expire_interval) > cur_time)"},
    {"id": "C07.w5-purge-uses-refresh-interval", "rule": "C07.R3", "file": RT,
     "old": "(rtr_socket->last_update + rtr_socket->expire_interval) < cur_time)", "new": "(rtr_socket->last_update + rtr_socket->refresh_interval) < cur_time)"},
    {"id": "C07.w6-purge-forgets-spki", "rule": "C07.R3", "also": ("C07.R2",), "file": RT,
     "old": "\t\tspki_table_src_remove(rtr_socket->spki_table, rtr_socket);\n\t\tRTR_DBG1(\"Removed outdated router keys from spki_table\");",
     "new": "\t\tRTR_DBG1(\"Removed outdated router keys from spki_table\");"},
    {"id": "C07.w7-stop-without-spki-purge", "rule": "C07.R4", "also": ("C07.R2",), "file": RT,
     "old": "\t\tpfx_table_src_remove(rtr_socket->pfx_table, rtr_socket);\n\t\tspki_table_src_remove(rtr_socket->spki_table, rtr_socket);\n\t\trtr_socket->thread_id = 0;",
     "new": "\t\tpfx_table_src_remove(rtr_socket->pfx_table, rtr_socket);\n\t\trtr_socket->thread_id = 0;"},
    {"id": "C07.w8-stop-purges-only-when-data", "rule": "C07.R4", "file": RT,
     "old": "\t\tpfx_table_src_remove(rtr_socket->pfx_table, rtr_socket);\n\t\tspki_table_src_remove(rtr_socket->spki_table, rtr_socket);\n\t\trtr_socket->thread_id = 0;",
     "new": "\t\tif (rtr_socket->is_resetting)\n\t\t\tpfx_table_src_remove(rtr_socket->pfx_table, rtr_socket);\n\t\tspki_table_src_remove(rtr_socket->spki_table, rtr_socket);\n\t\trtr_socket->thread_id = 0;"},
    {"id": "C07.w9-purge-clock-failure-ignored", "rule": "C07.R3", "file": RT,
     "old": "\tif (rtval == -1 || (rtr_socket->last_update", "new": "\tif (rtval != -1 && (rtr_socket->last_update"},
]
