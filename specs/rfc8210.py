"""Oracle tables written from RFC 8210 / RFC 6810 (independent of rtrlib's headers).
Offsets and sizes in bytes; all multi-byte fields are big-endian on the wire."""

# type -> (name, fixed total length or None, [(field, offset, size)])
PDU = {
    0: ("Serial Notify", 12, [("ver", 0, 1), ("type", 1, 1), ("session_id", 2, 2), ("length", 4, 4), ("serial", 8, 4)]),
    1: ("Serial Query", 12, [("ver", 0, 1), ("type", 1, 1), ("session_id", 2, 2), ("length", 4, 4), ("serial", 8, 4)]),
    2: ("Reset Query", 8, [("ver", 0, 1), ("type", 1, 1), ("zero", 2, 2), ("length", 4, 4)]),
    3: ("Cache Response", 8, [("ver", 0, 1), ("type", 1, 1), ("session_id", 2, 2), ("length", 4, 4)]),
    4: ("IPv4 Prefix", 20, [("ver", 0, 1), ("type", 1, 1), ("zero", 2, 2), ("length", 4, 4), ("flags", 8, 1),
                            ("prefix_len", 9, 1), ("max_len", 10, 1), ("zero2", 11, 1), ("prefix", 12, 4), ("asn", 16, 4)]),
    6: ("IPv6 Prefix", 32, [("ver", 0, 1), ("type", 1, 1), ("zero", 2, 2), ("length", 4, 4), ("flags", 8, 1),
                            ("prefix_len", 9, 1), ("max_len", 10, 1), ("zero2", 11, 1), ("prefix", 12, 16), ("asn", 28, 4)]),
    7: ("End of Data", {0: 12, 1: 24}, [("ver", 0, 1), ("type", 1, 1), ("session_id", 2, 2), ("length", 4, 4), ("serial", 8, 4),
                                        ("refresh", 12, 4), ("retry", 16, 4), ("expire", 20, 4)]),
    8: ("Cache Reset", 8, [("ver", 0, 1), ("type", 1, 1), ("zero", 2, 2), ("length", 4, 4)]),
    9: ("Router Key", 123, [("ver", 0, 1), ("type", 1, 1), ("flags", 2, 1), ("zero", 3, 1), ("length", 4, 4), ("ski", 8, 20),
                            ("asn", 28, 4), ("spki", 32, 91)]),
    10: ("Error Report", None, [("ver", 0, 1), ("type", 1, 1), ("error_code", 2, 2), ("length", 4, 4), ("len_enc", 8, 4)]),
}
# multi-byte integer fields that need byte-order conversion, per type: (offset, size)
CONVERT = {
    0: [(2, 2), (4, 4), (8, 4)], 1: [(2, 2), (4, 4), (8, 4)], 2: [(2, 2), (4, 4)], 3: [(2, 2), (4, 4)],
    4: [(2, 2), (4, 4), (12, 4), (16, 4)], 6: [(2, 2), (4, 4), (12, 4), (16, 4), (20, 4), (24, 4), (28, 4)],
    7: [(2, 2), (4, 4), (8, 4), (12, 4), (16, 4), (20, 4)], 8: [(2, 2), (4, 4)], 9: [(4, 4), (28, 4)],
    10: [(2, 2), (4, 4), (8, 4)],
}
ERROR_CODES = {"corrupt data": 0, "internal error": 1, "no data available": 2, "invalid request": 3,
               "unsupported protocol version": 4, "unsupported pdu type": 5, "withdrawal of unknown record": 6,
               "duplicate announcement received": 7, "unexpected protocol version": 8}
# section 6, seconds
TIMERS = {"refresh": (1, 86400, 3600), "retry": (1, 7200, 600), "expire": (600, 172800, 7200)}
HEADER_LEN = 8


# ---------------------------------------------------------------- byte-order conversion calls, in whichever spelling
_CONV_WRAPPERS = {
    "rtr_pdu_header_to_network_byte_order": ("header", "net"), "rtr_pdu_header_to_host_byte_order": ("header", "host"),
    "rtr_pdu_footer_to_network_byte_order": ("footer", "net"), "rtr_pdu_footer_to_host_byte_order": ("footer", "host"),
    "rtr_pdu_to_network_byte_order": ("all", "net"), "rtr_pdu_to_host_byte_order": ("all", "host"),
}


def conv_kind(pdb, fn, inst):
    """(part, direction) if `inst` converts a PDU's byte order: one of the named wrappers, or the conversion function itself
    called with a constant direction (what the wrappers are after inlining)"""
    from engine import vf
    if inst.op != "call" or not inst.callee:
        return None
    if inst.callee in _CONV_WRAPPERS:
        return _CONV_WRAPPERS[inst.callee]
    part = {"rtr_pdu_convert_header_byte_order": "header", "rtr_pdu_convert_footer_byte_order": "footer"}.get(inst.callee)
    if part and len(inst.args) >= 2:
        d = vf.expr(fn, inst.args[1])
        if d == ("c", pdb.enum_value("TO_NETWORK_BYTE_ORDER")):
            return (part, "net")
        if d == ("c", pdb.enum_value("TO_HOST_HOST_BYTE_ORDER")):
            return (part, "host")
    return None
