"""C19 — address text conversion round-trips and agrees with the platform parser (partial).

Decided (both are literal clauses of the statement):
R1 "conversion never writes beyond the buffer length it was told": every write through the output buffer is an
   snprintf bounded by the length argument, or lies behind 'len >= INET6_ADDRSTRLEN' with that constant >= the longest
   text the formatter can produce
R2 "the result of parsing depends only on the text given": the parsers read no global state, and every element of a
   local array that is read has been written on every path (IPv6: all eight groups present or '::' expanded; IPv4:
   the four octets only after sscanf reported four conversions)
R1/R2 also carry two grammar tables from RFC 4291 2.2 (which addresses get the embedded-IPv4 text form; where a dotted quad
   is accepted) and the family dispatch of lrtr_ip_str_to_addr.
Not decided: round-trip equality and agreement with inet_pton as such.
"""
from engine import es, flow, vf
from engine.pdb import AnalysisBroken
from specs.C01 import _pred_under

INET6_ADDRSTRLEN = 46
# libc functions whose result is a function of their arguments (they may write errno)
PURE = {"__isoc99_sscanf", "sscanf", "strchr", "strrchr", "strlen", "strnlen", "strtoul", "strtol", "strtoull", "strtoll", "memcpy", "memset", "memcmp",
        "strncmp", "strcmp", "isdigit", "isxdigit", "lrtr_dbg", "inet_pton", "__ctype_b_loc", "toupper", "tolower", "__ctype_tolower_loc", "__ctype_toupper_loc"}
STATEFUL = {"getenv", "setlocale", "localeconv", "rand", "random", "time", "clock_gettime", "strtok"}
STATE_CELLS = {"__errno_location": "errno"}


def _at_most_len(fn, e, lenarg, slack, depth=0):
    """e <= len - slack on every path: len - k itself (k >= slack), or a value that is either that or was tested to be no larger
    on the way in (if (n > len - 1) n = len - 1;)"""
    LEN = ("arg", lenarg)
    if depth > 3:
        return False
    if e == LEN:
        return slack == 0
    if e[0] == "bin" and e[1] == "sub" and e[2] == LEN and e[3][0] == "c":
        return e[3][1] >= slack and e[3][1] >= 0
    if e[0] == "bin" and e[1] == "add" and e[2] == LEN and e[3][0] == "c":
        return -e[3][1] >= slack
    if e[0] == "c":
        return False
    if e[0] == "phi":
        ph = fn.insts[e[1]]
        for v, pb in ph["inc"]:
            x = vf.expr(fn, v)
            if _at_most_len(fn, x, lenarg, slack, depth + 1):
                continue
            term = fn.blocks[pb].term
            Gs = [es.Guards(fn, term)]
            if term.op == "br" and "cond" in term.d and term["t"] != term["f"]:
                Gs.append(es.edge_facts(fn, term, term["t"] == ph.block.id))     # what taking this very edge says
            caps = [("bin", "sub", LEN, ("c", k)) for k in range(slack, slack + 2)] + [("bin", "add", LEN, ("c", -k)) for k in range(slack, slack + 2)] + \
                   ([LEN] if slack == 0 else [])
            if any(G.le(x, c) for G in Gs for c in caps) or (slack <= 1 and any(G.lt(x, LEN) for G in Gs)):
                continue
            return False
        return True
    return False


def r1(ctx):
    pdb = ctx.pdb
    ctx.rule("C19.R1", "formatters: writes through the caller's buffer are snprintf(buffer, len, ...) or are dominated by the test "
             "len >= 46; 46 bytes hold the longest output (8 groups of 4 hex digits + 7 colons + NUL = 40; '::ffff:' + dotted quad + NUL = 23)")
    n = 0
    for fname, bufarg, lenarg in (("lrtr_ipv4_addr_to_str", 1, 2), ("lrtr_ipv6_addr_to_str", 1, 2)):
        fn = pdb.fn(fname)
        ctx.touch(fn)
        BUF = ("arg", bufarg)

        def from_buf(e, depth=0):
            r = vf.root_of(e)
            if r == BUF:
                return True
            if isinstance(r, tuple) and r[0] == "phi" and depth < 4:
                ph = fn.insts[r[1]]
                return any(from_buf(vf.expr(fn, v), depth + 1) for v, b in ph["inc"] if vf.expr(fn, v) != r)
            return False
        writes = []
        for i in fn.all_insts():
            if i.op == "store" and from_buf(vf.expr(fn, i["ptr"])):
                writes.append((i, "store"))
            elif i.op == "call" and i.callee in ("sprintf", "snprintf", "strcpy", "strcat", "memcpy", "vsprintf") and from_buf(vf.expr(fn, i.args[0])):
                writes.append((i, i.callee))
            elif i.op == "call" and (i.callee or "").startswith("llvm.memcpy") and from_buf(vf.expr(fn, i.args[0])):
                writes.append((i, "memcpy"))
        if not writes:
            raise AnalysisBroken("%s: no write through the output buffer found" % fname)
        for i, kind in writes:
            n += 1
            if kind == "snprintf":
                good = vf.expr(fn, i.args[1]) == ("arg", lenarg) and vf.expr(fn, i.args[0]) == BUF
                why = "snprintf(buffer, %s, ...)" % vf.show(vf.expr(fn, i.args[1]))
            else:
                guards = [(vf.expr(fn, g), t) for g, t, br in es.guards_of(fn, i)]
                bound = [g[3][1] for g, t in guards if g[0] == "icmp" and g[2] == ("arg", lenarg) and g[3][0] == "c" and
                         ((g[1] == "ult" and not t) or (g[1] == "uge" and t))]
                good = bool(bound) and max(bound) >= INET6_ADDRSTRLEN
                why = "%s behind len >= %s" % (kind, max(bound) if bound else "nothing")
                if not good:
                    # the snprintf contract written out: a count cut to what fits (n = min(n, len - 1)) and a terminator at that count
                    LEN = ("arg", lenarg)
                    nz = es.Guards(fn, i).ne(LEN, ("c", 0)) or es.Guards(fn, i).lt(("c", 0), LEN)
                    G = es.Guards(fn, i)

                    def below(e, slack):
                        """e <= len - slack; 'count - 1' with the count tested to be non-zero (no wrap-around) needs one less of the count,
                        and a non-zero count that is at most len says that len is not zero"""
                        if e[0] == "bin" and ((e[1] == "sub" and e[3] == ("c", 1)) or (e[1] == "add" and e[3] == ("c", -1))) and e[2] != LEN and \
                                (G.ne(e[2], ("c", 0)) or G.lt(("c", 0), e[2])):
                            return _at_most_len(fn, e[2], lenarg, max(0, slack - 1))
                        return nz and _at_most_len(fn, e, lenarg, slack)
                    if kind == "memcpy":
                        sz = vf.expr(fn, i.args[2])
                        good = vf.expr(fn, i.args[0]) == BUF and below(sz, 0)
                        why = "copies %s bytes to the start of the buffer; bounded by len: %s (len != 0: %s)" % (vf.show(sz), good, nz)
                    elif kind == "store" and i.get("size", 1) == 1:
                        pe = vf.expr(fn, i["ptr"])
                        ix = pe[2] if pe[0] in ("ptradd", "idx") and pe[1] == BUF else (("c", 0) if pe == BUF else None)
                        good = ix is not None and below(ix, 1)
                        why = "one byte at buffer[%s]; index below len: %s (len != 0: %s)" % (vf.show(ix) if ix else "?", good, nz)
            ctx.check(good, "C19.R1", "%s:write@%d" % (fname, n), i.loc(), why, key="C19.R1:%s:%s" % (fname, kind))
        # longest output from the format strings
        if fname == "lrtr_ipv6_addr_to_str":
            fmts = []
            for c in fn.calls("sprintf"):
                fe = vf.expr(fn, c.args[1])
                g = pdb.glob_in(fn.unit, fe[1]) if fe[0] == "g" else None
                fmts.append(g["init"]["str"] if g and isinstance(g.get("init"), dict) else None)
            ok = set(fmts) <= {"%x", "::%s%d.%d.%d.%d"} and None not in fmts
            # %x of a value masked to 16 bits: the words[] elements are uint16_t
            al = [a for a in fn.all_insts() if a.op == "alloca" and a.get("name", "").startswith("words")]
            w16 = bool(al) and al[0]["aty"].endswith("x i16]")
            ctx.check(ok and w16, "C19.R1", "ipv6-longest-output", "%s:%d" % (fn.relfile, fn.line),
                      "format strings %s; hex groups are 16-bit values: %s => at most 40 bytes incl. NUL" % (fmts, w16), key="C19.R1:ipv6:formats")
    ctx.floor("C19.R1", n, 5)
    # IPv4 text is the four bytes most significant first: where the formatter hands byte extractions of the address to one printf-style
    # call, their order is decided (digits produced by arithmetic of the library's own are values, not shape: not decided)
    fn = pdb.fn("lrtr_ipv4_addr_to_str")
    ADDR = ("load", ("fld", ("arg", 0), "lrtr_ipv4_addr.addr"))

    def shift_of(e, at, depth=0):
        if e[0] == "load" and e[1][0] in ("idx", "alloca") and depth < 2:
            st_ = vf.reaching_store(fn, e[1], at)
            return shift_of(vf.expr(fn, st_["val"]), at, depth + 1) if st_ is not None else None
        if e[0] == "bin" and e[1] == "and" and e[3] == ("c", 255):
            e = e[2]
        if e == ADDR:
            return 0
        if e[0] == "bin" and e[1] in ("lshr", "ashr") and e[2] == ADDR and e[3][0] == "c":
            return e[3][1]
        return None
    for c in fn.calls(("snprintf", "sprintf")):
        k0 = 3 if c.callee == "snprintf" else 2
        fe = vf.expr(fn, c.args[k0 - 1])
        g = pdb.glob_in(fn.unit, fe[1]) if fe[0] == "g" else None
        fmt = g["init"].get("str") if g and isinstance(g.get("init"), dict) else None
        import re as _re
        if fmt is None or not _re.match(r"^(%(hh|h)?[ud]\.){3}%(hh|h)?[ud]$", fmt):
            continue
        shifts = [shift_of(vf.expr(fn, a), c) for a in c.args[k0:]]
        if len(shifts) != 4 or None in shifts:
            continue
        ctx.check(shifts == [24, 16, 8, 0], "C19.R1", "ipv4-bytes-most-significant-first", c.loc(),
                  "format %s is given the address shifted right by %s (expected 24, 16, 8, 0)" % (fmt, shifts), key="C19.R1:ipv4:byte-order")
    # dispatcher passes buffer and length through unchanged
    fn = pdb.fn("lrtr_ip_addr_to_str")
    ctx.touch(fn)
    for c in fn.calls(("lrtr_ipv4_addr_to_str", "lrtr_ipv6_addr_to_str")):
        ctx.check(vf.expr(fn, c.args[1]) == ("arg", 1) and vf.expr(fn, c.args[2]) == ("arg", 2), "C19.R1", "dispatch:%s" % c.callee, c.loc(),
                  "buffer and length handed through unchanged", key="C19.R1:dispatch:%s" % c.callee)


def r1_embedded_form(ctx):
    """the '::[ffff:]a.b.c.d' form prints only the last 32 bits (and whether bits 64..95 are non-zero): it may be chosen only for
    addresses that this determines - the zero run starts at group 0 and covers six groups, or five with group 5 == 0xffff"""
    pdb = ctx.pdb
    fn = pdb.fn("lrtr_ipv6_addr_to_str")

    def var_phis(name):
        return {i.id for i in fn.all_insts() if i.op == "phi" and i.d.get("var") == name}
    pos, ln = var_phis("bestpos"), var_phis("bestlen")
    loops = fn.loops()
    inloop = set().union(*loops.values()) if loops else set()
    tests = [i for i in fn.all_insts() if i.op == "icmp" and i.block.id not in inloop and
             any(x[0] == "phi" and x[1] in pos for x in (vf.expr(fn, i["a"]), vf.expr(fn, i["b"]))) and ("c", 0) in (vf.expr(fn, i["a"]), vf.expr(fn, i["b"]))]
    dotted = []
    for c in fn.calls("sprintf"):
        fe = vf.expr(fn, c.args[1])
        g = pdb.glob_in(fn.unit, fe[1]) if fe[0] == "g" else None
        if g and isinstance(g.get("init"), dict) and "%d.%d" in (g["init"].get("str") or ""):
            dotted.append(c)
    if not pos or not ln or len(tests) != 1 or not dotted:
        ctx.not_decided("choice of the embedded-IPv4 text form in lrtr_ipv6_addr_to_str (its zero-run variables were not identified)")
        return
    t0 = tests[0]

    def num(pred, a, b):
        return {"eq": a == b, "ne": a != b, "slt": a < b, "sle": a <= b, "sgt": a > b, "sge": a >= b, "ult": a < b, "ule": a <= b, "ugt": a > b, "uge": a >= b}[pred]
    n = 0
    for p0 in (0, 1, -1):
        for blen in (4, 5, 6, 7):
            for w2 in (0xffff, 0x8000, 0x1ffff, 0):
                n += 1
                reached = []

                def oracle(inst, pred, a, b, E, p0=p0, blen=blen, w2=w2):
                    for x, y, sw in ((a, b, False), (b, a, True)):
                        if y[0] != "c" or not isinstance(y[1], int):
                            continue
                        v = None
                        if x[0] == "phi" and x[1] in pos:
                            v = p0
                        elif x[0] == "phi" and x[1] in ln:
                            v = blen
                        elif x[0] == "load" and x[1][0] in ("idx", "ptradd") and vf.root_of(x[1]) == ("arg", 0) and x[1][2] == ("c", 2):
                            v = w2
                        if v is not None:
                            return num(pred, v, y[1]) if not sw else num(pred, y[1], v)
                    return None

                def classify(inst, E, st):
                    if inst.op == "call" and inst in dotted:
                        reached.append(1)
                        return flow.KILL
                    if inst.op == "br" and inst.block.id in inloop:
                        return flow.KILL
                    return None
                es.count_effects(fn, pdb, classify, None, oracle=oracle, start_block=t0.block.id, cap=64)
                allowed = p0 == 0 and (blen == 6 or (blen == 5 and w2 == 0xffff))
                if reached and not allowed:
                    ctx.violation("C19.R1", "embedded-form[run starts at %d, %d zero groups, bits 64..95 = %#x]" % (p0, blen, w2), t0.loc(),
                                  "the dotted form is chosen for an address it does not determine: the parser reads the text back as another address",
                                  key="C19.R1:embedded-form")
                    return
    ctx.ok("C19.R1", "embedded-form-only-for-mapped-and-compatible-addresses", t0.loc(), "%d cells (start of the zero run x its length x bits 64..95)" % n)


def r2(ctx, retsets):
    pdb = ctx.pdb
    ctx.rule("C19.R2", "parsers: no global state is read or written; IPv6: the eight 16-bit groups are all defined when the address is "
             "assembled (either eight groups were parsed or '::' was expanded); IPv4: the octets are read only after sscanf "
             "converted all four")
    for fname in ("lrtr_ipv6_str_to_addr", "lrtr_ipv4_str_to_addr", "lrtr_ip_str_to_addr"):
        fn = pdb.fn(fname)
        ctx.touch(fn)
        globs = []
        for i in fn.all_insts():
            if i.op in ("load", "store"):
                r = vf.root_of(vf.expr(fn, i["ptr"]))
                if isinstance(r, tuple) and r[0] == "g":
                    g = pdb.glob_in(fn.unit, r[1])
                    if not (g and g.get("const")):
                        globs.append((i, r[1]))
                # errno is global state too: reading it makes the verdict depend on what ran before (writing it is harmless)
                if i.op == "load" and isinstance(r, tuple) and r[0] == "call" and r[1] in STATE_CELLS:
                    globs.append((i, STATE_CELLS[r[1]]))
        ctx.check(not globs, "C19.R2", "%s:no-global-state" % fname, (globs[0][0].loc() if globs else "%s:%d" % (fn.relfile, fn.line)),
                  ("reads or writes %s" % sorted({g for _, g in globs})) if globs else "no mutable global, static or errno is read", key="C19.R2:%s:globals" % fname)
        stateful = sorted({c.callee for c in fn.calls() if c.callee in STATEFUL})
        ctx.check(not stateful, "C19.R2", "%s:callees" % fname, "%s:%d" % (fn.relfile, fn.line),
                  "calls whose result depends on process state: %s" % (stateful or "none"), key="C19.R2:%s:callees" % fname)
        unknown = sorted({c.callee for c in fn.calls() if c.callee and not c.callee.startswith("llvm.") and c.callee not in PURE and
                          c.callee not in STATEFUL and c.callee not in STATE_CELLS and not pdb.has_fn(c.callee)})
        if unknown:
            raise AnalysisBroken("%s calls %s: not known to be free of hidden state" % (fname, unknown))
    # IPv6: cell 'no :: seen' and 'group count != 8' must not reach the assembly of the address
    fn = pdb.fn("lrtr_ipv6_str_to_addr")
    words = [a for a in fn.all_insts() if a.op == "alloca" and "x i16]" in a["aty"]]
    if len(words) != 1:
        raise AnalysisBroken("lrtr_ipv6_str_to_addr: local group array not found")
    W = ("alloca", words[0].id, words[0].get("name", ""))
    loops = fn.loops()
    # the parse loop = the loop that contains stores to words[count++] from the parsed value
    wstores = [i for i in fn.all_insts() if i.op == "store" and vf.root_of(vf.expr(fn, i["ptr"])) == W]
    if not wstores:
        raise AnalysisBroken("no store into the group array")
    blockops = [c for c in fn.calls() if (c.callee or "").startswith(("llvm.memmove", "llvm.memset", "llvm.memcpy", "memmove", "memset", "memcpy"))
                and vf.root_of(vf.expr(fn, c.args[0])) == W]
    if blockops:
        raise AnalysisBroken("lrtr_ipv6_str_to_addr: the group array is now moved / filled with block operations (line %d): the rules on the '::' expansion "
                             "and on which groups are defined are written for the element-wise loops" % blockops[0].line)
    count_phis = set()
    for s_ in wstores:
        e = vf.expr(fn, s_["ptr"])
        if e[0] == "idx" and e[2][0] == "phi":
            count_phis.add(e[2][1])
    # count phi: initialised with 0 at function level; hfil phi: initialised with -1
    def init_of(pid):
        return {vf.expr(fn, v) for v, b in fn.insts[pid]["inc"]}
    cnt = [p for p in count_phis if ("c", 0) in init_of(p)]
    hf = [i.id for i in fn.all_insts() if i.op == "phi" and ("c", -1) in init_of(i.id)]
    if not cnt or not hf:
        raise AnalysisBroken("group counter / '::' marker not identified")
    out_stores = [i for i in fn.all_insts() if i.op == "store" and vf.root_of(vf.expr(fn, i["ptr"])) == ("arg", 1)]
    if not out_stores:
        raise AnalysisBroken("no store to the result address")
    for L in es.index_loops(fn):
        if any(es.in_loop_body(L, s_) for s_ in out_stores) and L["bound"][0] != "c":
            raise AnalysisBroken("lrtr_ipv6_str_to_addr: the loop that assembles the address runs to a bound chosen at run time (%s), not over the "
                                 "four words: the cells on the number of groups are written for the parser that always fills eight groups" % vf.show(L["bound"]))
    for i in fn.all_insts():
        if i.op == "icmp" and i["pred"] in ("eq", "ne"):
            a, b = vf.expr(fn, i["a"]), vf.expr(fn, i["b"])
            for x, y in ((a, b), (b, a)):
                if x[0] == "phi" and x[1] in cnt and y[0] == "phi" and y[1] not in hf and {vf.expr(fn, v)[0] for v, bb in fn.insts[y[1]]["inc"]} == {"c"}:
                    raise AnalysisBroken("lrtr_ipv6_str_to_addr: the number of groups is compared with a number chosen at run time (line %d), not with 8: "
                                         "the cells 'eight groups' / 'fewer than eight' cannot be set from outside" % i.line)
    for have_fill, count8 in ((False, False), (False, True), (True, False)):
        def oracle(inst, pred, a, b, E):
            for x, y, sw in ((a, b, False), (b, a, True)):
                if x[0] == "phi" and x[1] in hf and y[0] == "c" and y[1] in (0, -1) and pred in ("sge", "sgt", "slt", "sle", "ne", "eq"):
                    val = 3 if have_fill else -1
                    return {"sge": val >= y[1], "sgt": val > y[1], "slt": val < y[1], "sle": val <= y[1], "ne": val != y[1], "eq": val == y[1]}[pred] if not sw else None
                if x[0] == "phi" and y == ("c", 8) and pred in ("eq", "ne") and not any(inst.block.id in body for body in loops.values() if len(body) > 8):
                    return count8 if pred == "eq" else not count8
            return None

        def classify(inst, E, st):
            if inst.op == "store" and vf.root_of(vf.expr(fn, inst["ptr"])) == ("arg", 1):
                return ["assembled"]
            return None
        outs, fl = es.count_effects(fn, pdb, classify, retsets, oracle=oracle, cap=64)
        ok_rets = [o for o in outs if flow.av_single(o["ret"]) == 0]
        reached = any(o["counts"].get("assembled") for o in ok_rets)
        if not have_fill and not count8:
            ctx.check(not reached, "C19.R2", "ipv6[no '::', fewer than 8 groups]", out_stores[0].loc(),
                      "address assembled and success returned: %s (must be refused: the missing groups were never written)" % reached, key="C19.R2:ipv6:short")
        else:
            ctx.check(reached, "C19.R2", "ipv6[%s]" % ("'::' present" if have_fill else "8 groups"), out_stores[0].loc(), "address assembled: %s" % reached,
                      key="C19.R2:ipv6:%s" % ("fill" if have_fill else "full"))
    # the '::' expansion defines every group from the gap to the end: two loops writing words[], running down to the marker
    exp = [s_ for s_ in wstores if not any(vf.expr(fn, s_["ptr"])[2] == ("phi", c) for c in cnt)]
    zero = [s_ for s_ in exp if vf.expr(fn, s_["val"]) == ("c", 0)]
    move = [s_ for s_ in exp if vf.expr(fn, s_["val"])[0] == "load" and vf.root_of(vf.expr(fn, s_["val"])[1]) == W]
    ctx.check(bool(zero) and bool(move), "C19.R2", "ipv6:'::'-expansion-writes-all", (exp[0].loc() if exp else "%s:%d" % (fn.relfile, fn.line)),
              "expansion shifts the trailing groups and zero-fills the gap: shift %s, zero-fill %s" % (bool(move), bool(zero)), key="C19.R2:ipv6:expansion")
    # embedded dotted quad (RFC 4291 2.2 form 3, x:x:x:x:x:x:d.d.d.d): it stands for the last two groups, so it must be accepted
    # after exactly six groups, or after fewer than six when a '::' was seen; after more than six it must be refused (the two
    # groups it adds would not fit).  Decision table over the group counter and the '::' marker at the '.' test.
    dots = [i for i in fn.all_insts() if i.op == "icmp" and i["pred"] in ("eq", "ne") and ("c", 46) in (vf.expr(fn, i["a"]), vf.expr(fn, i["b"]))]
    quad_calls = fn.calls("lrtr_ipv4_str_to_addr")
    if len(dots) != 1 or not quad_calls:
        ctx.not_decided("position of an embedded dotted quad in lrtr_ipv6_str_to_addr (the '.' test or the IPv4 sub-parser call was not found)")
    else:
        dot = dots[0]
        for rel in ("lt", "eq", "gt"):
            for fill in (True, False):
                def oracle(inst, pred, a, b, E, rel=rel, fill=fill):
                    if inst.id == dot.id:
                        return pred == "eq"
                    for x, y, sw in ((a, b, False), (b, a, True)):
                        if x[0] == "phi" and x[1] in cnt and y == ("c", 6):
                            return _pred_under(pred, rel, sw)
                        if x[0] == "phi" and x[1] in hf and y[0] == "c" and y[1] in (0, -1):
                            val = 3 if fill else -1
                            if sw:
                                return None
                            return {"sge": val >= y[1], "sgt": val > y[1], "slt": val < y[1], "sle": val <= y[1], "ne": val != y[1], "eq": val == y[1]}.get(pred)
                    return None
                seen = []

                def classify(inst, E, st):
                    if inst.op == "call" and inst.callee == "lrtr_ipv4_str_to_addr":
                        seen.append("quad")
                        return flow.KILL
                    if inst.op == "store" and vf.root_of(vf.expr(fn, inst["ptr"])) == W:
                        seen.append("group")
                        return flow.KILL
                    return None
                outs_q, _f = es.count_effects(fn, pdb, classify, None, oracle=oracle, start_block=dot.block.id, cap=64)
                refused = any(flow.av_single(o["ret"]) == -1 for o in outs_q)
                name = "dotted-quad[%s groups before it, '::' %s]" % ({"lt": "fewer than 6", "eq": "6", "gt": "more than 6"}[rel], "seen" if fill else "not seen")
                if (rel == "eq" and not fill) or (rel == "lt" and fill):
                    ctx.check(seen == ["quad"] and not refused, "C19.R2", name, dot.loc(), "handed to the IPv4 sub-parser: %s; refused: %s (must be accepted)" % (seen == ["quad"], refused),
                              key="C19.R2:quad:%s:%s" % (rel, fill))
                elif rel == "gt":
                    ctx.check("quad" not in seen, "C19.R2", name, dot.loc(), "handed to the IPv4 sub-parser: %s (must be refused: no room for two more groups)" % ("quad" in seen),
                              key="C19.R2:quad:%s:%s" % (rel, fill))
    # family dispatch: a text with a ':' goes to the IPv6 parser, any other to the IPv4 parser; nothing is rejected or accepted
    # without asking the parser, and the parser's verdict is the result (':' is in every IPv6 text and in no IPv4 text)
    fd = pdb.fn("lrtr_ip_str_to_addr")
    ctx.touch(fd)
    v4, v6 = pdb.enum_value("LRTR_IPV4"), pdb.enum_value("LRTR_IPV6")
    for has_colon in (True, False):
        for verdict in (0, -1):
            def classify(inst, E, st, has_colon=has_colon, verdict=verdict):
                if inst.op == "call" and inst.callee in ("strchr", "memchr", "strrchr"):
                    ch = flow.av_single(E.val(inst.args[1]))
                    if vf.expr(fd, inst.args[0]) == ("arg", 0) and ch == ord(":"):
                        return [(["asked-colon"], {inst.ref: (("nin", frozenset([0])) if has_colon else flow.av_in(0))})]
                    return None
                if inst.op == "call" and inst.callee in ("lrtr_ipv4_str_to_addr", "lrtr_ipv6_str_to_addr"):
                    fam = "v4" if "ipv4" in inst.callee else "v6"
                    dst = vf.expr(fd, inst.args[1])
                    okargs = vf.expr(fd, inst.args[0]) == ("arg", 0) and vf.root_of(dst) == ("arg", 1)
                    return [(["parse:" + fam + ("" if okargs else "?")], {inst.ref: flow.av_in(verdict)})]
                if inst.op == "store" and vf.store_field(inst) == "lrtr_ip_addr.ver":
                    return ["=ver:%s" % flow.av_single(E.val(inst["val"]))]
                return None
            outs_d, _f = es.count_effects(fd, pdb, classify, None)
            fam = "v6" if has_colon else "v4"
            want = {"asked-colon": 1, "parse:" + fam: 1, "ver": str(v6 if has_colon else v4)}
            bad = [o for o in outs_d if o["counts"] != want or flow.av_single(o["ret"]) != verdict]
            ctx.check(bool(outs_d) and not bad, "C19.R2", "ip_str_to_addr:dispatch[%s, parser says %d]" % ("':' present" if has_colon else "no ':'", verdict),
                      "%s:%d" % (fd.relfile, fd.line),
                      ("a path does %s and returns %s" % (bad[0]["counts"], flow.av_single(bad[0]["ret"]))) if bad else
                      "every path asks the %s parser once with (text, &ip->u) and returns its verdict, version tag set" % fam,
                      key="C19.R2:dispatch:%s:%d" % (has_colon, verdict))
    # IPv4
    f4 = pdb.fn("lrtr_ipv4_str_to_addr")
    sc = f4.calls(("__isoc99_sscanf", "sscanf"))
    if not sc:
        ctx.not_decided("lrtr_ipv4_str_to_addr no longer uses sscanf: 'octets only after four conversions' is not decided for this implementation")
        return
    buff = [a for a in f4.all_insts() if a.op == "alloca" and "x i8]" in a["aty"]]
    loads = [i for i in f4.all_insts() if i.op == "load" and buff and vf.root_of(vf.expr(f4, i["ptr"])) == ("alloca", buff[0].id, buff[0].get("name", ""))]
    good = bool(loads)
    for l in loads:
        g = [(vf.expr(f4, x), t) for x, t, br in es.guards_of(f4, l)]
        good = good and any(e[0] == "icmp" and e[2][0] == "call" and "sscanf" in e[2][1] and e[3] == ("c", 4) and ((e[1] == "ne" and not t) or (e[1] == "eq" and t)) for e, t in g)
    nargs = len(sc[0].args) - 2 if sc else 0
    ctx.check(good and nargs == 4, "C19.R2", "ipv4:octets-only-after-4-conversions", (loads[0].loc() if loads else "%s:%d" % (f4.relfile, f4.line)),
              "%d octet reads, each dominated by sscanf(...) == 4 with %d output arguments" % (len(loads), nargs), key="C19.R2:ipv4:sscanf")
    src_ok = bool(sc) and vf.expr(f4, sc[0].args[0]) == ("arg", 0)
    ctx.check(src_ok, "C19.R2", "ipv4:parses-its-argument", sc[0].loc() if sc else "%s:%d" % (f4.relfile, f4.line), "sscanf reads the string argument", key="C19.R2:ipv4:source")


def check(ctx):
    retsets = flow.return_sets(ctx.pdb)
    r1(ctx)
    r1_embedded_form(ctx)
    r2(ctx, retsets)
    ctx.not_decided("round trip: every address converted to text parses back to the same address")
    ctx.not_decided("agreement with inet_pton on every string it accepts")
    ctx.note("this property is decided only in its two shape clauses (bounded writes; input-only dependence); the manifest says so")


V6 = "rtrlib/lib/ipv6.c"
V4 = "rtrlib/lib/ipv4.c"
WITNESSES = [
    {"id": "C19.w1-no-length-test-in-ipv6-formatter", "rule": "C19.R1", "file": V6,
     "old": "\tif (len < INET6_ADDRSTRLEN)\n\t\treturn -1;\n\tconst uint32_t *a = ip_addr->addr;", "new": "\tif (len < 16)\n\t\treturn -1;\n\tconst uint32_t *a = ip_addr->addr;"},
    {"id": "C19.w2-sprintf-in-ipv4-formatter", "rule": "C19.R1", "file": V4,
     "old": "\tif (snprintf(str, len, \"%hhu.%hhu.%hhu.%hhu\", buff[0], buff[1], buff[2], buff[3]) < 0)", "new": "\tif (sprintf(str, \"%hhu.%hhu.%hhu.%hhu\", buff[0], buff[1], buff[2], buff[3]) < 0)"},
    {"id": "C19.w2b-ipv4-bytes-least-significant-first", "rule": "C19.R1", "file": V4,
     "old": "\tif (snprintf(str, len, \"%hhu.%hhu.%hhu.%hhu\", buff[0], buff[1], buff[2], buff[3]) < 0)", "new": "\tif (snprintf(str, len, \"%hhu.%hhu.%hhu.%hhu\", buff[3], buff[2], buff[1], buff[0]) < 0)"},
    {"id": "C19.w2c-ipv4-second-byte-shift", "rule": "C19.R1", "file": V4,
     "old": "\tbuff[1] = ip->addr >> 16 & 0xff;", "new": "\tbuff[1] = ip->addr >> 8 & 0xff;"},
    {"id": "C19.w3-undo-F16-short-ipv6-accepted", "rule": "C19.R2", "file": V6,
     "old": "\t} else if (i != 8) {\n\t\t/* without :: all eight groups must be present */\n\t\treturn -1;\n\t}\n", "new": "\t}\n"},
    {"id": "C19.w4-parser-uses-static-scratch", "rule": "C19.R2", "file": V4,
     "old": "\tuint8_t buff[4];\n\n\tif (sscanf(str,", "new": "\tstatic uint8_t buff[4];\n\n\tif (sscanf(str,"},
    {"id": "C19.w5-ipv4-accepts-three-octets", "rule": "C19.R2", "file": V4,
     "old": "&buff[0], &buff[1], &buff[2], &buff[3]) != 4)", "new": "&buff[0], &buff[1], &buff[2], &buff[3]) < 3)"},
    {"id": "C19.w6-ipv4-snprintf-with-constant-size", "rule": "C19.R1", "file": V4,
     "old": "\tif (snprintf(str, len, \"%hhu.%hhu.%hhu.%hhu\"", "new": "\tif (snprintf(str, 16, \"%hhu.%hhu.%hhu.%hhu\""},
    {"id": "C19.w7-short-check-off-by-one", "rule": "C19.R2", "file": V6,
     "old": "\t} else if (i != 8) {", "new": "\t} else if (i < 7) {"},
    {"id": "C19.w8-family-chosen-by-the-first-character", "rule": "C19.R2", "file": "rtrlib/lib/ip.c",
     "old": "\tif (!strchr(str, ':')) {", "new": "\tif (str[0] >= '0' && str[0] <= '9' && strchr(str, '.')) {"},
    {"id": "C19.w9-parser-consults-errno", "rule": "C19.R2", "file": V4,
     "old": "\tuint8_t buff[4];\n\n\tif (sscanf(str,", "new": "\tuint8_t buff[4];\n\textern int *__errno_location(void);\n\n\tif (*__errno_location() == 34)\n\t\treturn -1;\n\tif (sscanf(str,"},
    {"id": "C19.w10-embedded-form-for-any-five-zero-groups", "rule": "C19.R1", "file": V6,
     "old": "\tif (!bestpos && ((bestlen == 5 && a[2] == 0xffff) || bestlen == 6))", "new": "\tif (!bestpos && (bestlen == 5 || bestlen == 6))"},
    {"id": "C19.w11-dotted-quad-only-after-double-colon", "rule": "C19.R2", "file": V6,
     "old": "\t\t} else if (*a == '.' && (i == 6 || (i < 6 && hfil >= 0))) {", "new": "\t\t} else if (*a == '.' && i <= 6 && hfil >= 0) {"},
    {"id": "C19.w12-dotted-quad-after-seven-groups", "rule": "C19.R2", "file": V6,
     "old": "\t\t} else if (*a == '.' && (i == 6 || (i < 6 && hfil >= 0))) {", "new": "\t\t} else if (*a == '.' && (i >= 6 || hfil >= 0)) {"},
]
