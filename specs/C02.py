"""C02 — the prefix table is an exact set of records under every operation history (partial).

R1 record identity: an element is the record iff AS, max-length and source are all equal; a node is the record's node
   iff length and prefix are equal (pfx_table_find_elem, trie_lookup_exact, prefix_is_same)
R2 return code <-> effect table of pfx_table_add / pfx_table_remove (duplicate / not-found change nothing, success
   changes exactly one thing, errors change nothing structural; root pointer follows the root node)
R3 removal by source: deletes exactly the elements of that source, every one of them (same slot is re-examined after a
   deletion, same node after a pull-up, both children, both address families)
R4 node payload (prefix, length, data) always moves as a triple from one source node
R5 enumeration visits every element of every node exactly once with all five fields
Not decided: that trie_insert / trie_remove keep the path invariant for every history.
"""
from engine import es, flow, vf
from engine.pdb import AnalysisBroken
from specs.C01 import _pred_under

TP = "rtrlib/pfx/trie/trie-pfx.c"
TRIE = "rtrlib/pfx/trie/trie.c"
NOTIFY = "pfx_table_notify_clients"


def r1(ctx):
    pdb = ctx.pdb
    ctx.rule("C02.R1", "records that differ in any of AS, max-length, source (element level) or prefix, length (node level) are "
             "distinct: pfx_table_find_elem returns an element iff all three fields are equal; trie_lookup_exact sets found iff "
             "length and prefix are equal")
    fn = pdb.fn("pfx_table_find_elem")
    ctx.touch(fn)
    latch = {t for (t, h) in fn.back_edges()}

    def el(e, f):
        return e[0] == "load" and vf.last_field(e[1]) == "data_elem." + f

    def rec(e, f):
        return e[0] == "load" and vf.last_field(e[1]) == "pfx_record." + f and vf.root_of(e[1]) == ("arg", 1)
    n = 0
    for a_eq in (True, False):
        for m_eq in (True, False):
            for s_eq in (True, False):
                n += 1
                cont = []

                def oracle(inst, pred, a, b, E):
                    if pred not in ("eq", "ne"):
                        return None
                    for f, eq in (("asn", a_eq), ("max_len", m_eq), ("socket", s_eq)):
                        if (el(a, f) and rec(b, f)) or (el(b, f) and rec(a, f)):
                            return eq if pred == "eq" else not eq
                    return None

                def classify(inst, E, st):
                    if inst.op == "br" and inst.block.id in latch:
                        cont.append(1)
                        return flow.KILL
                    if inst.op == "store" and vf.expr(fn, inst["ptr"]) == ("arg", 2):
                        return ["index_out"]
                    return None
                outs, fl = es.count_effects(fn, pdb, classify, None, oracle=oracle, cell={2: ("nin", frozenset([0]))})
                same = a_eq and m_eq and s_eq
                hit = [o for o in outs if o["ret"] != flow.av_in(0)]
                good = (bool(hit) and not cont and all(o["counts"].get("index_out") == 1 for o in hit)) if same else (not hit and bool(cont))
                ctx.check(good, "C02.R1", "find_elem[asn%s,max%s,socket%s]" % tuple("=" if x else "!=" for x in (a_eq, m_eq, s_eq)), "%s:%d" % (fn.relfile, fn.line),
                          "returns the element: %s, goes on: %s" % (bool(hit), bool(cont)), key="C02.R1:find_elem:%s%s%s" % (a_eq, m_eq, s_eq))
    fn = pdb.fn("trie_lookup_exact")
    ctx.touch(fn)
    FOUND = ("arg", 4)
    for lrel in ("lt", "eq", "gt"):
        for p_eq in (True, False):
            def oracle(inst, pred, a, b, E):
                for x, y, sw in ((a, b, False), (b, a, True)):
                    if x[0] == "load" and vf.last_field(x[1]) == "trie_node.len" and y == ("arg", 2) and pred in ("eq", "ne"):
                        return _pred_under(pred, lrel, sw)
                return None

            def classify(inst, E, st):
                if inst.op == "call" and inst.callee == "lrtr_ip_addr_equal":
                    return [(["cmp"], {inst.ref: flow.av_in(1 if p_eq else 0)})]
                if inst.op == "call" and inst.callee == "prefix_is_same":
                    # the comparison helper is decided by its own cells below
                    return [(["cmp"], {inst.ref: flow.av_in(1 if (lrel == "eq" and p_eq) else 0)})]
                if inst.op == "store" and vf.expr(fn, inst["ptr"]) == FOUND:
                    return ["=found:%s" % flow.av_single(E.val(inst["val"]))]
                if inst.op == "call" and inst.callee == "is_left_child":
                    return flow.KILL     # first node only
                if inst.op == "icmp" and inst["pred"] in ("ugt", "sgt"):
                    return None
                return None
            outs, fl = es.count_effects(fn, pdb, classify, None, oracle=oracle, cell={0: ("nin", frozenset([0])), ("arg", 3): 0})
            found = {o["counts"].get("found") for o in outs if o["ret"] != flow.av_in(0)}
            same = lrel == "eq" and p_eq
            good = ("1" in found) == same and not (same and not found)
            ctx.check(good, "C02.R1", "lookup_exact[len%smask,prefix%s]" % ({"lt": "<", "eq": "=", "gt": ">"}[lrel], "=" if p_eq else "!="), "%s:%d" % (fn.relfile, fn.line),
                      "found set to %s on returns at the first node" % sorted(found, key=str), key="C02.R1:lookup_exact:%s:%s" % (lrel, p_eq))
    init = [i for i in fn.blocks[0].insts if i.op == "store" and vf.expr(fn, i["ptr"]) == FOUND and vf.expr(fn, i["val"]) == ("c", 0)]
    ctx.check(bool(init), "C02.R1", "lookup_exact:found-initialised-false", "%s:%d" % (fn.relfile, fn.line), "*found = false before the walk", key="C02.R1:lookup_exact:init")
    # prefix_is_same (inlined into trie_remove when the specs do not name it; it is named here, so it stays a function)
    ps = pdb.fn("prefix_is_same")
    ctx.touch(ps)
    cm = [i for i in ps.all_insts() if i.op == "icmp" and i["pred"] == "eq" and any(x[0] == "load" and vf.last_field(x[1]) == "trie_node.len" for x in (vf.expr(ps, i["a"]), vf.expr(ps, i["b"])))]
    eqc = ps.calls("lrtr_ip_addr_equal")
    ctx.check(len(cm) == 1 and len(eqc) == 1 and ("arg", 2) in (vf.expr(ps, cm[0]["a"]), vf.expr(ps, cm[0]["b"])), "C02.R1", "prefix_is_same", "%s:%d" % (ps.relfile, ps.line),
              "length equal and prefix equal", key="C02.R1:prefix_is_same")


def r1_whole_prefix(ctx):
    """exact match means: the stored prefix and the queried prefix are equal as given - no masking to the length (10.0.0.1/8 and
    10.0.0.0/8 are two records; callbacks and removals name the spelling that was added)"""
    pdb = ctx.pdb
    for fname, qarg in (("trie_lookup_exact", 1), ("prefix_is_same", 1)):
        fn = pdb.fn(fname)
        ctx.touch(fn)
        for c in fn.calls("lrtr_ip_addr_equal"):
            srcs = []
            for a in c.args[:2]:
                e = vf.expr(fn, a)
                r = vf.root_of(e)
                src = e
                if isinstance(r, tuple) and r[0] == "alloca":
                    cps = [m for m in fn.calls() if (m.callee or "").startswith("llvm.memcpy") and vf.root_of(vf.expr(fn, m.args[0])) == r and fn.dom(m, c)]
                    src = vf.expr(fn, cps[-1].args[1]) if cps else e
                srcs.append(src)
            node_side = [x for x in srcs if x[0] == "fld" and x[2] == "trie_node.prefix"]
            query_side = [x for x in srcs if x == ("arg", qarg)]
            ctx.check(len(node_side) == 1 and len(query_side) == 1, "C02.R1", "%s:compares-whole-prefixes" % fname, c.loc(),
                      "lrtr_ip_addr_equal(%s, %s): the node's stored prefix and the queried prefix themselves" % tuple(vf.show(x)[:50] for x in srcs),
                      key="C02.R1:%s:whole" % fname)


def r1_words(ctx):
    """address equality looks at the whole address: one differing 32-bit word, the version tag, makes two prefixes different"""
    pdb = ctx.pdb
    f6 = pdb.fn("lrtr_ipv6_addr_equal")
    ctx.touch(f6)

    def word_cell(pe):
        if pe[0] == "idx" and pe[1][0] == "fld" and pe[1][1] in (("arg", 0), ("arg", 1)) and pe[1][2] == "lrtr_ipv6_addr.addr" and pe[2][0] == "c":
            return pe[1][1][1], pe[2][1]
        return None
    for differ in (None, 0, 1, 2, 3):
        # concrete words: both addresses carry the same four values, except that word `differ` of the second one is another value
        def values(pe, differ=differ):
            wc = word_cell(pe)
            if wc is None:
                return None
            side, k = wc
            if k not in (0, 1, 2, 3):
                return None
            return 0x20010db8 + 0x01010101 * k + (0x40000000 if (side == 1 and k == differ) else 0)
        outs, _f = es.count_effects(f6, pdb, lambda i, E, st: None, None, values=values, cap=96)
        rets = {flow.av_single(o["ret"]) for o in outs}
        want = {1} if differ is None else {0}
        ctx.check(rets == want, "C02.R1", "ipv6_addr_equal[%s]" % ("all four words equal" if differ is None else "word %d differs" % differ),
                  "%s:%d" % (f6.relfile, f6.line), "returns %s (expected %s)" % (sorted(rets, key=str), sorted(want)), key="C02.R1:ipv6_equal:%s" % differ)
    f4 = pdb.fn("lrtr_ipv4_addr_equal")
    ctx.touch(f4)
    for same in (True, False):
        def oracle4(inst, pred, a, b, E, same=same):
            fa = {vf.last_field(x[1]) if x[0] == "load" else None for x in (a, b)}
            ra = {vf.root_of(x[1]) if x[0] == "load" else None for x in (a, b)}
            if fa == {"lrtr_ipv4_addr.addr"} and ra == {("arg", 0), ("arg", 1)} and pred in ("eq", "ne"):
                return same if pred == "eq" else not same
            return None
        outs, _f = es.count_effects(f4, pdb, lambda i, E, st: None, None, oracle=oracle4)
        rets = {flow.av_single(o["ret"]) for o in outs}
        ctx.check(rets == ({1} if same else {0}), "C02.R1", "ipv4_addr_equal[%s]" % ("equal" if same else "different"), "%s:%d" % (f4.relfile, f4.line),
                  "returns %s" % sorted(rets, key=str), key="C02.R1:ipv4_equal:%s" % same)
    fe = pdb.fn("lrtr_ip_addr_equal")
    ctx.touch(fe)
    v6 = pdb.enum_value("LRTR_IPV6")
    v4 = pdb.enum_value("LRTR_IPV4")
    for va, vb in ((v4, v4), (v6, v6), (v4, v6), (v6, v4)):
        for inner in (1, 0):
            def values(pe, va=va, vb=vb):
                if vf.last_field(pe) == "lrtr_ip_addr.ver":
                    return va if vf.root_of(pe) == ("arg", 0) else vb
                return None

            def classify(inst, E, st, inner=inner):
                if inst.op == "call" and inst.callee in ("lrtr_ipv6_addr_equal", "lrtr_ipv4_addr_equal"):
                    ok = vf.root_of(vf.expr(fe, inst.args[0])) == ("arg", 0) and vf.root_of(vf.expr(fe, inst.args[1])) == ("arg", 1)
                    return [(["ask:" + ("v6" if "ipv6" in inst.callee else "v4") + ("" if ok else "?")], {inst.ref: flow.av_in(inner)})]
                return None
            outs, _f = es.count_effects(fe, pdb, classify, None, values=values)
            if va != vb:
                good = bool(outs) and all(flow.av_single(o["ret"]) == 0 for o in outs)
            else:
                want = {"ask:v6" if va == v6 else "ask:v4": 1}
                good = bool(outs) and all(o["counts"] == want and flow.av_single(o["ret"]) == inner for o in outs)
            ctx.check(good, "C02.R1", "ip_addr_equal[ver %d vs %d, family comparison says %d]" % (va, vb, inner), "%s:%d" % (fe.relfile, fe.line),
                      "outcomes %s" % sorted({(tuple(sorted(o["counts"])), str(flow.av_single(o["ret"]))) for o in outs}), key="C02.R1:ip_equal:%d:%d:%d" % (va, vb, inner))


def r2(ctx, retsets):
    pdb = ctx.pdb
    ctx.rule("C02.R2", "pfx_table_add: DUPLICATE_RECORD => nothing changed; SUCCESS => exactly one of {element appended, new node "
             "inserted below its parent, new node became the root}; ERROR => nothing inserted. pfx_table_remove: RECORD_NOT_FOUND => "
             "nothing changed; SUCCESS => exactly one element deleted, the node released iff it became empty, the root pointer "
             "cleared iff the released node was the root; ERROR => nothing released")
    E_ = pdb.enum("pfx_rtvals")
    inv = {v: k for k, v in E_.items()}
    fn = pdb.fn("pfx_table_add")
    ctx.touch(fn)

    def classify(inst, E, st):
        if inst.op == "call" and inst.callee:
            c = inst.callee
            if c == "pfx_table_get_root":
                return [(["=root:0"], {inst.ref: flow.av_in(0)}), (["=root:1"], {inst.ref: ("nin", frozenset([0]))})]
            if c == "pfx_table_find_elem":
                return [(["=dup:1"], {inst.ref: ("nin", frozenset([0]))}), (["=dup:0"], {inst.ref: flow.av_in(0)})]
            if c == "pfx_table_append_elem":
                return [(["append_ok"], {inst.ref: flow.av_in(0)}), (["append_fail"], {inst.ref: flow.av_in(-1)})]
            if c == "pfx_table_create_node":
                return [(["create_ok"], {inst.ref: flow.av_in(0)}), (["create_fail"], {inst.ref: flow.av_in(-1)})]
            if c == "trie_insert":
                return ["insert"]
            if c in ("trie_remove", "pfx_table_del_elem", "lrtr_free"):
                return ["destructive:" + c]
        if inst.op == "store" and vf.store_field(inst) in ("pfx_table.ipv4", "pfx_table.ipv6"):
            return ["root_store"]
        return None
    outs, fl = es.count_effects(fn, pdb, classify, retsets)
    bad = []
    for o in outs:
        c = {k: v for k, v in o["counts"].items() if k not in ("root", "dup")}
        r = flow.av_single(o["ret"])
        name = inv.get(r, str(r))
        if name == "PFX_DUPLICATE_RECORD":
            good = c == {} and o["counts"].get("dup") == "1"
        elif name == "PFX_SUCCESS":
            good = c in ({"append_ok": 1}, {"create_ok": 1, "insert": 1}, {"create_ok": 1, "root_store": 1}) and \
                (("root_store" in c) == (o["counts"].get("root") == "0"))
        elif name == "PFX_ERROR":
            good = c in ({"append_fail": 1}, {"create_fail": 1})
        else:
            good = False
        if not good:
            bad.append((o, name, c))
    if bad:
        o, name, c = bad[0]
        ctx.violation("C02.R2", "pfx_table_add:ret=%s" % name, o["inst"].loc(), "returns %s after %s (root present: %s, element present: %s)" % (
            name, c or "no mutation", o["counts"].get("root"), o["counts"].get("dup")), key="C02.R2:add:%s" % name, path=flow.trace_lines(fn, o["trace"]))
    else:
        ctx.ok("C02.R2", "pfx_table_add:table", "%s:%d" % (fn.relfile, fn.line), "%d return states agree with the effect table" % len(outs))
    # the root store puts the new node into the family of the record
    fn2 = pdb.fn("pfx_table_remove")
    ctx.touch(fn2)

    def classify2(inst, E, st):
        if inst.op == "call" and inst.callee:
            c = inst.callee
            if c == "pfx_table_find_elem":
                return [(["=el:1"], {inst.ref: ("nin", frozenset([0]))}), (["=el:0"], {inst.ref: flow.av_in(0)})]
            if c == "pfx_table_del_elem":
                return [(["del_ok"], {inst.ref: flow.av_in(0)}), (["del_fail"], {inst.ref: flow.av_in(-1)})]
            if c == "trie_remove":
                return [(["trie_remove"], {inst.ref: ("nin", frozenset([0]))})]
            if c == "lrtr_free":
                return ["free"]
            if c in ("pfx_table_append_elem", "pfx_table_create_node", "trie_insert"):
                return ["constructive:" + c]
        if inst.op == "store" and vf.store_field(inst) in ("pfx_table.ipv4", "pfx_table.ipv6"):
            return ["root_clear" if flow.av_single(E.val(inst["val"])) == 0 else "root_store?"]
        return None
    found_alloca = None
    for c in fn2.calls("trie_lookup_exact"):
        found_alloca = vf.expr(fn2, c.args[4])
    outs, fl = es.count_effects(fn2, pdb, classify2, retsets)
    bad = []
    for o in outs:
        c = {k: v for k, v in o["counts"].items() if k not in ("el",)}
        r = flow.av_single(o["ret"])
        name = inv.get(r, str(r))
        if name == "PFX_RECORD_NOT_FOUND":
            good = c == {}
        elif name == "PFX_SUCCESS":
            good = c in ({"del_ok": 1}, {"del_ok": 1, "trie_remove": 1, "free": 2}, {"del_ok": 1, "trie_remove": 1, "free": 2, "root_clear": 1})
        elif name == "PFX_ERROR":
            good = c == {"del_fail": 1}
        else:
            good = False
        if not good:
            bad.append((o, name, c))
    if bad:
        o, name, c = bad[0]
        ctx.violation("C02.R2", "pfx_table_remove:ret=%s" % name, o["inst"].loc(), "returns %s after %s" % (name, c or "no mutation"),
                      key="C02.R2:remove:%s" % name, path=flow.trace_lines(fn2, o["trace"]))
    else:
        ctx.ok("C02.R2", "pfx_table_remove:table", "%s:%d" % (fn2.relfile, fn2.line), "%d return states agree with the effect table" % len(outs))
    # guards: node released only when it became empty; root cleared only when the released node is the root
    tr = fn2.calls("trie_remove")
    ctx.floor("C02.R2", len(tr), 1)
    for c in tr:
        G = es.Guards(fn2, c)
        is_len = lambda x: x[0] == "load" and vf.last_field(x[1]) == "node_data.len"
        empty = bool(G.find_eq(is_len, lambda y: y == ("c", 0))) or G.false(is_len)
        ctx.check(empty, "C02.R2", "pfx_table_remove:release-iff-empty", c.loc(), "trie_remove is reached only when the node's element array became empty", key="C02.R2:remove:empty")
    # decision table: released node is / is not the root, per address family
    v4 = pdb.enum_value("LRTR_IPV4")
    v6 = pdb.enum_value("LRTR_IPV6")
    VER = ("fld", ("fld", ("arg", 1), "pfx_record.prefix"), "lrtr_ip_addr.ver")
    for isroot in (True, False):
        for ver, fam in ((v4, "pfx_table.ipv4"), (v6, "pfx_table.ipv6")):
            # on pointer values (however the comparison and the root's address are written): the family's root is node 600, the
            # released node is 600 or another node
            RV, XV = 600, 700

            def values3(pe):
                if pe[0] == "fld" and pe[1] == ("arg", 0) and pe[2] in ("pfx_table.ipv4", "pfx_table.ipv6"):
                    return RV
                return None

            def classify3(inst, E, st):
                if inst.op == "call" and inst.callee == "pfx_table_find_elem":
                    return [([], {inst.ref: ("nin", frozenset([0]))})]
                if inst.op == "call" and inst.callee == "pfx_table_del_elem":
                    return [([], {inst.ref: flow.av_in(0)})]
                if inst.op == "call" and inst.callee == "pfx_table_get_root":
                    return [([], {inst.ref: flow.av_in(RV)})]
                if inst.op == "call" and inst.callee == "trie_remove":
                    return [(["released"], {inst.ref: flow.av_in(RV if isroot else XV)})]
                if inst.op == "store":
                    f = vf.last_field(E.path_expr(inst["ptr"]))
                    if f in ("pfx_table.ipv4", "pfx_table.ipv6") and vf.root_of(E.path_expr(inst["ptr"])) == ("arg", 0):
                        return ["clear:" + f if flow.av_single(E.val(inst["val"])) == 0 else "store:" + f]
                return None
            outs3, fl3 = es.count_effects(fn2, pdb, classify3, retsets, values=values3, cell={VER: ver})
            rel = [o for o in outs3 if o["counts"].get("released")]
            exp = {"released": 1, "clear:" + fam: 1} if isroot else {"released": 1}
            ctx.check(bool(rel) and all(o["counts"] == exp for o in rel), "C02.R2", "pfx_table_remove:root[%s,%s]" % ("root" if isroot else "inner node", fam.split(".")[1]),
                      "%s:%d" % (fn2.relfile, fn2.line), "effects after releasing the node: %s, expected %s" % ([o["counts"] for o in rel], exp),
                      key="C02.R2:remove:root:%s:%s" % (isroot, fam))
    # the same for pfx_table_add's root store: the new node becomes the root of the record's family
    for ver, fam in ((v4, "pfx_table.ipv4"), (v6, "pfx_table.ipv6")):
        def classify4(inst, E, st):
            if inst.op == "call" and inst.callee == "pfx_table_get_root":
                return [([], {inst.ref: flow.av_in(0)})]
            if inst.op == "call" and inst.callee == "pfx_table_create_node":
                return [([], {inst.ref: flow.av_in(0)})]
            if inst.op == "store" and vf.store_field(inst) in ("pfx_table.ipv4", "pfx_table.ipv6"):
                return ["root<-new:" + vf.store_field(inst)]
            return None
        outs4, fl4 = es.count_effects(fn, pdb, classify4, retsets, cell={VER: ver})
        ctx.check(bool(outs4) and all(o["counts"] == {"root<-new:" + fam: 1} for o in outs4), "C02.R2", "pfx_table_add:first-record[%s]" % fam.split(".")[1],
                  "%s:%d" % (fn.relfile, fn.line), "effects %s" % [o["counts"] for o in outs4], key="C02.R2:add:root:%s" % fam)
    # lookups use the record's own prefix / length
    for f in (fn, fn2):
        for c in f.calls("trie_lookup_exact"):
            a = [vf.expr(f, x) for x in c.args[1:3]]
            good = a[0] == ("fld", ("arg", 1), "pfx_record.prefix") and a[1] == ("load", ("fld", ("arg", 1), "pfx_record.min_len"))
            ctx.check(good, "C02.R2", "%s:lookup-key" % f.name, c.loc(), "exact lookup by (%s, %s)" % (vf.show(a[0]), vf.show(a[1])), key="C02.R2:%s:key" % f.name)


def r2_shift(ctx):
    """deleting an element closes the gap without losing or duplicating a neighbour"""
    pdb = ctx.pdb
    fn = pdb.fn("pfx_table_del_elem")
    ctx.touch(fn)
    ARY = ("load", ("fld", ("arg", 0), "node_data.ary"))
    LEN = ("load", ("fld", ("arg", 0), "node_data.len"))
    esz = pdb.struct("data_elem")["size"]
    moves = []
    for c in fn.calls():
        if not (c.callee or "").startswith(("llvm.memcpy", "llvm.memmove", "memmove", "memcpy")):
            continue
        d, s_ = vf.expr(fn, c.args[0]), vf.expr(fn, c.args[1])
        if d[0] == "ptradd" and s_[0] == "ptradd" and d[1] == ARY and s_[1] == ARY:
            moves.append((c, d[2], s_[2], vf.expr(fn, c.args[2])))
    # element-wise stores (field by field) would show up as stores through ary[i]; the struct copy is a memcpy at -O0
    if not moves:
        raise AnalysisBroken("pfx_table_del_elem: the move that closes the gap was not found")
    from specs import C18 as _C18
    _C18.del_elem_shape(pdb)
    good = True
    detail = []
    for c, di, si, n in moves:
        loops = [L for L in es.index_loops(fn) if es.in_loop_body(L, c)]
        if loops:
            L = loops[0]
            i = ("phi", L["phi"].id)
            asc = vf.expr(fn, L["init"]) == ("arg", 1) and L["bound"] == ("bin", "sub", LEN, ("c", 1))
            ok = di == i and si == ("bin", "add", i, ("c", 1)) and asc and n == ("c", esz)
            detail.append("loop i=index..len-2: ary[%s] <- ary[%s]" % (vf.show(di), vf.show(si)))
        else:
            # one block move: the tail [index+1, len) to index, with an overlap-safe primitive
            ok = "memmove" in c.callee and di == ("arg", 1) and si == ("bin", "add", ("arg", 1), ("c", 1)) and \
                vf.mentions(n, lambda x: x == LEN) and vf.mentions(n, lambda x: x == ("arg", 1)) and vf.mentions(n, lambda x: x == ("c", esz))
            detail.append("%s(ary+%s, ary+%s, %s)" % (c.callee.split(".")[1] if "." in c.callee else c.callee, vf.show(di), vf.show(si), vf.show(n)))
        good = good and ok
    if not good and any(es.in_loop_body(L, c) for c, di, si, n in moves for L in es.index_loops(fn)):
        # another spelling of the shifting loop (index running one ahead, a cursor ...): evaluated with the array at address 1000 -
        # deleting index 0 of 3 and index 1 of 4 must copy element j+1 to element j for j = index .. len-2, in that order
        evald = []
        for index, ln in ((0, 3), (1, 4), (2, 4)):
            seqs = []

            def classify_m(inst, E, st):
                if inst.op == "call" and (inst.callee or "").startswith(("llvm.memcpy", "llvm.memmove", "memcpy", "memmove")):
                    d_, s_ = flow.av_single(E.val(inst.args[0])), flow.av_single(E.val(inst.args[1]))
                    if d_ is not None and s_ is not None and d_ >= 1000 and s_ >= 1000:
                        k = int(st.get("k", "0"))
                        return ["=k:%d" % (k + 1), "=m%d:%d<%d" % (k, d_, s_)]
                return None
            outs_m, _f = es.count_effects(fn, pdb, classify_m, None, values=lambda pe, ln=ln: {"node_data.ary": 1000, "node_data.len": ln}.get(vf.last_field(pe)),
                                          cell={1: index}, cap=64)
            want_m = ["%d<%d" % (1000 + esz * j, 1000 + esz * (j + 1)) for j in range(index, ln - 1)]
            for o in outs_m:
                cnt = o["counts"]
                seqs.append([cnt.get("m%d" % k) for k in range(int(cnt.get("k", "0")))])
            evald.append((index, ln, bool(seqs) and all(q == want_m for q in seqs), seqs[:1]))
        if all(e[2] for e in evald):
            good = True
            detail = ["evaluated (array at 1000, delete index 0 of 3, 1 of 4, 2 of 4): element j+1 is copied to element j for j = index .. len-2, in ascending order"]
        else:
            detail.append("evaluated: %s" % [(e[0], e[1], e[3]) for e in evald if not e[2]][:2])
    ctx.check(good, "C02.R2", "del_elem:gap-closed-in-ascending-order", moves[0][0].loc(),
              "; ".join(detail) + " (each slot from index on receives its successor before that successor is overwritten)", key="C02.R2:del_elem:shift")


def r3(ctx, retsets):
    pdb = ctx.pdb
    ctx.rule("C02.R3", "removal by source: an element is deleted iff its source equals the socket argument; after a deletion the same "
             "slot is examined again (the next element has moved into it); after the node was emptied and refilled by a pull-up "
             "the same node is examined again; both children and both address families are visited")
    fn = pdb.fn("pfx_table_remove_id")
    ctx.touch(fn)
    dels = fn.calls("pfx_table_del_elem")
    ctx.floor("C02.R3", len(dels), 1)
    d = dels[0]
    # evaluated on small nodes instead of matched against one loop shape: the node holds the listed records (O = of the socket being
    # removed, x = of another socket); the walk over its element array is followed with pfx_table_del_elem modelled as 'element k
    # leaves, the later ones move down, the length drops by one'.  What must be left are exactly the x records, in their order.
    OWN, OTHER = 1000, 2000

    def slot_of(pe):
        e = pe
        while isinstance(e, tuple) and e[0] == "fld":
            e = e[1]
        if isinstance(e, tuple) and e[0] in ("idx", "ptradd") and isinstance(e[2], tuple) and e[2][0] == "c":
            return e[2][1]
        return None
    bad = []
    scen = ("O", "OO", "OOO", "xO", "Ox", "OxO", "xOOx", "OOxOO", "xxx", "OxxO")
    for sc in scen:
        model = [OWN if ch == "O" else OTHER for ch in sc]
        dead = []
        state = {"dels": 0, "torn": False}

        def values(pe, model=model):
            f = vf.last_field(pe)
            if f == "node_data.len":
                return len(model)
            if f == "data_elem.socket":
                k = slot_of(pe)
                if k is not None and 0 <= k < len(model):
                    return model[k]
            return None

        def cl(inst, E, st, model=model, dead=dead, state=state):
            if inst.op == "call" and inst.callee == "pfx_table_del_elem":
                if int(st.get("del", "0")) != state["dels"]:
                    state["torn"] = True      # the walk was not followed along one path
                    return flow.KILL
                k = flow.av_single(E.val(inst.args[1]))
                if k is None or not (0 <= k < len(model)):
                    dead.append(("?", k))
                    return flow.KILL
                dead.append((k, model[k]))
                del model[k]
                state["dels"] += 1
                return [(["=del:%d" % state["dels"]], {inst.ref: flow.av_in(0)})]
            if inst.op == "call" and inst.callee in ("trie_remove", "pfx_table_remove_id"):
                return flow.KILL      # the node's own array has been dealt with
            return None
        es.count_effects(fn, pdb, cl, retsets, cell={3: OWN}, values=values, cap=64)
        if state["torn"]:
            raise AnalysisBroken("pfx_table_remove_id: the walk over a node's elements could not be followed along a single path")
        want = [OTHER] * sc.count("x")
        if model != want or any(v != OWN for k, v in dead):
            bad.append("node [%s]: deleted %s, left %s" % (sc, ["slot %s (%s)" % (k, "own" if v == OWN else "foreign" if v == OTHER else v) for k, v in dead],
                                                          "".join("O" if v == OWN else "x" for v in model)))
    ctx.check(not bad, "C02.R3", "same-slot-re-examined", d.loc(),
              "; ".join(bad[:3]) if bad else "%d node contents (O = record of the socket, x = another socket's): every O and no x is deleted, "
              "also when two O are neighbours (the slot a record moved into is examined again)" % len(scen), key="C02.R3:same-slot")
    # pull-up: decision table on the node returned by trie_remove
    tr = fn.calls("trie_remove")
    ctx.floor("C02.R3", len(tr), 1)
    t0 = tr[0]
    ROOT = ("load", ("arg", 1))
    # decided on pointer values, not on how the comparisons are written: the node is N, *root is N or another node, and
    # trie_remove hands back the node it unlinked (N itself, or a node further down when N was refilled by a pull-up)
    NV, RV, XV = 500, 600, 700
    for which in ("root", "node", "other", "other-below-root"):
        ptrs = {"root": (NV, NV), "node": (RV, NV), "other": (RV, XV), "other-below-root": (NV, XV)}[which]
        oracle = None
        looped = []
        latch = {t for (t, h) in fn.back_edges()}

        def classify(inst, E, st):
            if inst.op == "call" and inst.callee == "trie_remove":
                if st.get("rm"):
                    looped.append("again")
                    return flow.KILL
                return [(["rm"], {inst.ref: flow.av_in(ptrs[1])})]
            if inst.op == "call" and inst.callee == "pfx_table_del_elem":
                return flow.KILL if st.get("rm") else [([], {inst.ref: flow.av_in(0)})]
            if inst.op == "call" and inst.callee == "pfx_table_remove_id":
                return ["recurse"]
            if inst.op == "store" and vf.expr(fn, inst["ptr"]) == ("arg", 1):
                return ["root_clear" if flow.av_single(E.val(inst["val"])) == 0 else "root_store?"]
            if inst.op == "load" and st.get("rm") and vf.last_field(vf.expr(fn, inst["ptr"])) == "trie_node.data" and vf.root_of(vf.expr(fn, inst["ptr"])) == ("arg", 2):
                looped.append("re-examined")
                return flow.KILL
            return None
        DLEN = None
        outs, fl = es.count_effects(fn, pdb, classify, retsets, cell={2: NV, ("arg", 1): ptrs[0]})
        after = [o for o in outs if o["counts"].get("rm")]
        if which == "root":
            good = bool(after) and all(o["counts"].get("root_clear") == 1 and not o["counts"].get("recurse") and flow.av_single(o["ret"]) == 0 for o in after) and not looped
            want = "*root = NULL, return success"
        elif which == "node":
            good = bool(after) and all(not o["counts"].get("root_clear") and not o["counts"].get("recurse") and flow.av_single(o["ret"]) == 0 for o in after) and not looped
            want = "return success (the node itself is gone)"
        else:
            good = "re-examined" in looped and not after
            want = "the node (now holding a child's payload) is examined again"
        ctx.check(good, "C02.R3", "after-release[%s]" % which, t0.loc(), "outcomes: %s%s; expected: %s" % ([o["counts"] for o in after], looped, want),
                  key="C02.R3:after-release:%s" % which)
    # children
    recs = fn.calls("pfx_table_remove_id")
    kids = set()
    for c in recs:
        e = vf.expr(fn, c.args[2])
        if e[0] == "load":
            kids.add(vf.last_field(e[1]))
        okargs = vf.expr(fn, c.args[0]) == ("arg", 0) and vf.expr(fn, c.args[1]) == ("arg", 1) and vf.expr(fn, c.args[3]) == ("arg", 3) and \
            vf.expr(fn, c.args[4]) == ("bin", "add", ("arg", 4), ("c", 1))
        ctx.check(okargs, "C02.R3", "recursion-args@%d" % c.line, c.loc(), "same table, root, socket; level + 1", key="C02.R3:recursion-args")
    ctx.check(kids == {"trie_node.lchild", "trie_node.rchild"}, "C02.R3", "both-children", "%s:%d" % (fn.relfile, fn.line), "recursion into %s" % sorted(kids), key="C02.R3:children")
    # left-child failure propagates, right child visited on all other paths

    def classify_k(inst, E, st):
        if inst.op == "call" and inst.callee == "pfx_table_remove_id":
            e = vf.expr(fn, inst.args[2])
            side = "L" if vf.last_field(e[1]) == "trie_node.lchild" else "R"
            return [(["%s_ok" % side], {inst.ref: flow.av_in(0)}), (["%s_fail" % side], {inst.ref: flow.av_in(-1)})]
        if inst.op == "call" and inst.callee == "pfx_table_del_elem":
            return flow.KILL
        if inst.op == "call" and inst.callee == "trie_remove":
            return flow.KILL
        if inst.op == "load" and vf.last_field(vf.expr(fn, inst["ptr"])) in ("trie_node.lchild", "trie_node.rchild") and inst.get("ty", "").endswith("*"):
            return None
        return None

    class HK(es.CountHooks):
        pass
    LCH = ("fld", ("arg", 2), "trie_node.lchild")
    RCH = ("fld", ("arg", 2), "trie_node.rchild")
    outs, fl = es.count_effects(fn, pdb, classify_k, retsets, cell={LCH: ("nin", frozenset([0])), RCH: ("nin", frozenset([0]))})
    okk = bool(outs)
    for o in outs:
        c = o["counts"]
        r = flow.av_single(o["ret"])
        if c.get("L_fail"):
            okk = okk and r == -1
        elif c.get("L_ok"):
            okk = okk and (c.get("R_ok") or c.get("R_fail")) and r == (0 if c.get("R_ok") else -1)
    ctx.check(okk, "C02.R3", "children-visited-and-errors-propagate", "%s:%d" % (fn.relfile, fn.line),
              "with both children present: %s" % sorted({(tuple(sorted(o["counts"])), flow.av_single(o["ret"])) for o in outs}), key="C02.R3:children-paths")
    sr = pdb.fn("pfx_table_src_remove")
    ctx.touch(sr)
    # every non-empty family is walked, whatever the other family looks like; a failed walk fails the call
    succ = pdb.enum_value("PFX_SUCCESS")
    fams_seen = set()
    for has4 in (True, False):
        for has6 in (True, False):
            def values(pe, has4=has4, has6=has6):
                if pe[0] == "fld" and pe[1] == ("arg", 0) and pe[2] in ("pfx_table.ipv4", "pfx_table.ipv6"):
                    return ("nin", frozenset([0])) if (has4 if pe[2].endswith("4") else has6) else 0
                return None

            def classify_f(inst, E, st):
                if inst.op == "call" and inst.callee == "pfx_table_remove_id":
                    e = E.path_expr(inst.args[1])
                    fam = e[2].split(".")[1] if e[0] == "fld" and e[1] == ("arg", 0) else "?"
                    fams_seen.add(fam)
                    return [(["walk:" + fam], {inst.ref: flow.av_in(0)}), (["walk:" + fam, "=failed:" + fam], {inst.ref: flow.av_in(-1)})]
                return None
            outs_f, fl_f = es.count_effects(sr, pdb, classify_f, retsets, values=values, cap=96)
            want = {k: 1 for k, v in (("walk:ipv4", has4), ("walk:ipv6", has6)) if v}
            clean = [o for o in outs_f if "failed" not in o["counts"]]
            failed = [o for o in outs_f if "failed" in o["counts"]]
            good = bool(clean) and all({k: v for k, v in o["counts"].items() if k.startswith("walk:")} == want and flow.av_single(o["ret"]) == succ for o in clean) \
                and all(flow.av_single(o["ret"]) == pdb.enum_value("PFX_ERROR") for o in failed) and (bool(failed) == (has4 or has6))
            ctx.check(good, "C02.R3", "src_remove:families[ipv4 %s, ipv6 %s]" % ("non-empty" if has4 else "empty", "non-empty" if has6 else "empty"),
                      "%s:%d" % (sr.relfile, sr.line), "walks on the success paths: %s (expected %s); a failed walk returns PFX_ERROR: %s" % (
                          sorted({tuple(sorted(k for k in o["counts"] if k.startswith("walk:"))) for o in clean}), sorted(want),
                          sorted({str(flow.av_single(o["ret"])) for o in failed})), key="C02.R3:src_remove:families:%s:%s" % (has4, has6))
    for c in sr.calls("pfx_table_remove_id"):
        ctx.check(vf.expr(sr, c.args[3]) == ("arg", 1) and vf.expr(sr, c.args[0]) == ("arg", 0) and vf.expr(sr, c.args[4]) == ("c", 0), "C02.R3", "src_remove:args", c.loc(),
                  "walk starts at the family root, level 0, with the socket argument", key="C02.R3:src_remove:args")
    ctx.check(fams_seen == {"ipv4", "ipv6"}, "C02.R3", "src_remove:both-families", "%s:%d" % (sr.relfile, sr.line),
              "families walked over all cells: %s" % sorted(fams_seen), key="C02.R3:src_remove:families")


def _pull_up_iterative(ctx, fn, reps):
    """trie_remove written as a loop, evaluated on a small concrete tree: the node found is 500, the left child of node v is 2v, the right
    one 2v+1, the data block of node v is 100000+v; the found node has a left spine of two nodes (1000, 2000) and no right children.
    Each pull-up must take a child of the node the walk stands on into that node and go on at that child; the data block of the node
    found (100500) must end up in the node the walk ends on - handed down at every step or once at the end - and that node is returned"""
    pdb = ctx.pdb
    FOUND, LEAF = 500, 2000
    bad = []
    seen = []
    datamap = {}       # data blocks as the walk has moved them so far (the model tree is followed along one path)

    def present(v):
        return v in (1000, 2000)

    def node_value(E, e, depth=0):
        if depth > 6 or not isinstance(e, tuple):
            return None
        if e == ("arg", 0):
            return FOUND
        if e[0] == "phi" and len(e) == 2:
            return flow.av_single(E.val("%%%d" % e[1]))
        if e[0] == "load" and isinstance(e[1], tuple) and e[1][0] == "fld" and vf.last_field(e[1]) in ("trie_node.lchild", "trie_node.rchild"):
            v = node_value(E, e[1][1], depth + 1)
            if v is None:
                return None
            c = 2 * v + (0 if vf.last_field(e[1]).endswith("lchild") else 1)
            return c if present(c) else 0
        return None

    class H(es.CountHooks):
        def load_value(self, pe, E):
            if pe[0] == "fld" and vf.last_field(pe) in ("trie_node.lchild", "trie_node.rchild", "trie_node.data"):
                v = node_value(E, pe[1])
                if v is None or v == 0:
                    return None
                if vf.last_field(pe) == "trie_node.data":
                    return flow.av_in(datamap.get(v, 100000 + v))
                c = 2 * v + (0 if vf.last_field(pe).endswith("lchild") else 1)
                return flow.av_in(c if present(c) else 0)
            return None

    pending = []

    def classify(inst, E, st):
        while pending:
            k_, v_ = pending.pop(0)
            datamap[k_] = v_
        cur = int(st.get("cur", str(FOUND)))
        if inst.op == "call" and inst.callee == "prefix_is_same":
            return [([], {inst.ref: flow.av_in(1)})]
        if inst.op == "call" and inst.callee == "trie_is_leaf":
            v = node_value(E, E.flow.expr(inst.args[0]))
            if v is None:
                v = flow.av_single(E.val(inst.args[0]))
            return [([], {inst.ref: flow.av_in(1 if v == LEAF else 0)})] if v is not None else None
        if inst.op == "call" and inst.callee == "replace_node_data":
            dst, src = flow.av_single(E.val(inst.args[0])), flow.av_single(E.val(inst.args[1]))
            if dst is None:
                dst = node_value(E, E.flow.expr(inst.args[0]))
            if src is None:
                src = node_value(E, E.flow.expr(inst.args[1]))
            seen.append(inst)
            if dst != cur or src not in (2 * cur, 2 * cur + 1):
                bad.append((inst, "pulls node %s into node %s while the walk stands on node %s (expected: one of its children %d / %d into it)" % (src, dst, cur, 2 * cur, 2 * cur + 1)))
                return flow.KILL
            # replace_node_data copies prefix, length and data of the child (applied after this call: values read before it keep what they read)
            pending.append((dst, datamap.get(src, 100000 + src)))
            return ["=cur:%d" % src, "pulls"]
        if inst.op == "store" and st.get("pulls") and vf.store_field(inst) == "trie_node.data":
            pe = E.flow.expr(inst["ptr"])
            owner = node_value(E, pe[1]) if pe[0] == "fld" else None
            val = flow.av_single(E.val(inst["val"]))
            if owner is not None and val is not None:
                datamap[owner] = val
            return ["=handed:%s>%s" % (val, owner)]
        return None
    h = H(fn, pdb, classify, None, None, 96, None, None, {0: FOUND}, None)
    fl = flow.Flow(fn, h)
    fl.run()
    rets = [(dict(p), flow.av_single(av)) for (i, p, av, f, tr) in fl.ret_states]
    done = [(c, r) for c, r in rets if c.get("pulls")]
    if not seen or not done:
        raise AnalysisBroken("trie_remove (loop form): the walk from the node found to the leaf could not be followed on the model tree")
    for c, r in done:
        if c.get("cur") != str(LEAF) or r != LEAF:
            bad.append((reps[0], "on the model tree 500 -> 1000 -> 2000 the walk ends on node %s and returns node %s (expected the leaf 2000)" % (c.get("cur"), r)))
        elif c.get("handed") != "%d>%d" % (100000 + FOUND, LEAF):
            bad.append((reps[0], "the last data block handed over is %s (value>node; expected %d>%d: the found node's block ends up in the leaf that is returned)" % (
                c.get("handed"), 100000 + FOUND, LEAF)))
    ctx.check(not bad, "C02.R4", "trie_remove:pull-up@%d" % reps[0].line, (bad[0][0].loc() if bad else reps[0].loc()),
              bad[0][1] if bad else "model tree 500 -> 1000 -> 2000: each step pulls a child of the current node into it and moves on to that child; the found node's "
              "data block ends up in the leaf, which is returned (loop form)", key="C02.R4:trie_remove:pull-up")


def r4(ctx):
    pdb = ctx.pdb
    ctx.rule("C02.R4", "a node's payload is (prefix, length, data): whenever trie.c copies one of them from another node it copies "
             "all three from the same node (swap in trie_insert, pull-up in trie_remove)")
    for fname in ("swap_nodes", "replace_node_data"):
        fn = pdb.fn(fname)
        ctx.touch(fn)
        # simulate: content of (node, field) after the function
        NODES = {("arg", 0): "A", ("arg", 1): "B"}
        content = {}
        for nd, nm in NODES.items():
            for f in ("prefix", "len", "data"):
                content[(nm, f)] = nm + "." + f
        ssa = {}
        seq = []
        b = fn.blocks[0]
        seen = set()
        while True:
            seq.extend(b.insts)
            seen.add(b.id)
            if len(b.succs) != 1 or b.succs[0] in seen:
                break
            b = fn.blocks[b.succs[0]]
        local = {}

        def cell(pe):
            f = vf.last_field(pe)
            r = vf.root_of(pe)
            if f and f.startswith("trie_node.") and f.split(".")[1] in ("prefix", "len", "data"):
                if r in NODES:
                    return (NODES[r], f.split(".")[1])
                if isinstance(r, tuple) and r[0] == "alloca":
                    return ("T%d" % r[1], f.split(".")[1])
            return None
        for i in seq:
            if i.op == "load":
                c = cell(vf.expr(fn, i["ptr"]))
                if c is not None:
                    ssa[i.ref] = content.get(c, "?")
            elif i.op == "store":
                c = cell(vf.expr(fn, i["ptr"]))
                if c is not None:
                    content[c] = ssa.get(vf.strip_casts(fn, i["val"]), "?")
            elif i.op == "call" and (i.callee or "").startswith("llvm.memcpy"):
                d, s_ = cell(vf.expr(fn, i.args[0])), cell(vf.expr(fn, i.args[1]))
                if d is not None:
                    content[d] = content.get(s_, "?") if s_ is not None else "?"
        if fname == "swap_nodes":
            want = {("A", f): "B." + f for f in ("prefix", "len", "data")}
            want.update({("B", f): "A." + f for f in ("prefix", "len", "data")})
        else:
            want = {("A", f): "B." + f for f in ("prefix", "len", "data")}
            want.update({("B", f): "B." + f for f in ("prefix", "len", "data")})
        got = {k: v for k, v in content.items() if k[0] in ("A", "B")}
        ctx.check(got == want, "C02.R4", "%s:triple" % fname, "%s:%d" % (fn.relfile, fn.line),
                  "after the call: %s" % {"%s.%s" % k: v for k, v in sorted(got.items())}, key="C02.R4:%s" % fname)
    # trie_remove: replace_node_data(root, child) followed by child.data = saved root data (the two nodes exchange data blocks)
    fn = pdb.fn("trie_remove")
    ctx.touch(fn)
    recursive = bool(fn.calls("trie_remove"))
    reps = fn.calls("replace_node_data")
    ctx.floor("C02.R4", len(reps), 1)

    def is_child(e, depth=0):
        if e[0] == "load" and vf.last_field(e[1]) in ("trie_node.lchild", "trie_node.rchild") and vf.root_of(e[1]) == ("arg", 0):
            return True
        if e[0] == "phi" and depth < 2:
            return all(is_child(vf.expr(fn, v), depth + 1) for v, b in fn.insts[e[1]]["inc"])
        return False
    if not recursive:
        _pull_up_iterative(ctx, fn, reps)
    for c in (reps if recursive else []):
        child = vf.expr(fn, c.args[1])
        # (dominance, not "same basic block": the three statements may sit in an inlined helper)
        saved = [i for i in fn.all_insts() if i.op == "load" and vf.expr(fn, i["ptr"]) == ("fld", ("arg", 0), "trie_node.data") and fn.dom(i, c)]
        st = [i for i in fn.all_insts() if i.op == "store" and vf.store_field(i) == "trie_node.data" and fn.dom(c, i)]
        good = vf.expr(fn, c.args[0]) == ("arg", 0) and is_child(child) and \
            bool(saved) and len(st) == 1 and any(vf.strip_casts(fn, st[0]["val"]) == sv.ref for sv in saved) and vf.expr(fn, st[0]["ptr"])[1] == child
        nxt = [r for r in fn.calls("trie_remove") if fn.dom(c, r)]
        good = good and len(nxt) == 1 and vf.expr(fn, nxt[0].args[0]) == child
        ctx.check(good, "C02.R4", "trie_remove:pull-up@%d" % c.line, c.loc(),
                  "child's (prefix, len, data) pulled into the node, the node's old data block handed to the child, then the child is removed", key="C02.R4:trie_remove:pull-up")
    # which child: the one with the shorter prefix (ties: either; a missing child: the other one).  trie_lookup_exact and
    # trie_insert rely on 'a node's prefix is never longer than its children's', so pulling up the longer child loses records
    ROOT = ("arg", 0)

    def child_of(e):
        if e[0] == "load" and e[1][0] == "fld" and e[1][1] == ROOT and vf.last_field(e[1]) in ("trie_node.lchild", "trie_node.rchild"):
            return vf.last_field(e[1])[-6]
        return None
    ncell = 0
    for has_l in (True, False):
        for has_r in (True, False):
            for rel in ("lt", "eq", "gt"):
                if not (has_l and has_r) and rel != "eq":
                    continue
                if not has_l and not has_r:
                    continue
                ncell += 1
                pulled = []

                def values(pe):
                    if pe[0] == "fld" and pe[1] == ROOT:
                        f = vf.last_field(pe)
                        if f == "trie_node.lchild":
                            return ("nin", frozenset([0])) if has_l else 0
                        if f == "trie_node.rchild":
                            return ("nin", frozenset([0])) if has_r else 0
                    return None

                def oracle(inst, pred, a, b, E):
                    a, b = E.resolve(a), E.resolve(b)
                    for x, y, sw in ((a, b, False), (b, a, True)):
                        if x[0] == "load" and y[0] == "load" and vf.last_field(x[1]) == "trie_node.len" and vf.last_field(y[1]) == "trie_node.len":
                            cx, cy = child_of(x[1][1]), child_of(y[1][1])
                            if cx == "l" and cy == "r":
                                return _pred_under(pred, rel, sw)
                    return None

                def classify(inst, E, st):
                    if inst.op == "call" and inst.callee == "prefix_is_same":
                        return [([], {inst.ref: flow.av_in(1)})]
                    if inst.op == "call" and inst.callee == "trie_is_leaf":
                        return [([], {inst.ref: flow.av_in(0)})]
                    if inst.op == "call" and inst.callee == "replace_node_data":
                        pulled.append(child_of(E.resolve(E.path_expr(inst.args[1]))))
                        return flow.KILL      # the first pull-up below the node found is the one this table is about
                    return None
                es.count_effects(fn, pdb, classify, None, oracle=oracle, values=values, cap=96)
                want = {"l"} if (has_l and (not has_r or rel == "lt")) else ({"r"} if (has_r and (not has_l or rel == "gt")) else {"l", "r"})
                name = "left %s, right %s%s" % ("present" if has_l else "absent", "present" if has_r else "absent",
                                                (", left.len %s right.len" % {"lt": "<", "eq": "=", "gt": ">"}[rel]) if has_l and has_r else "")
                ctx.check(bool(pulled) and set(pulled) <= want, "C02.R4", "trie_remove:pulled-child[%s]" % name, "%s:%d" % (fn.relfile, fn.line),
                          "pulled up: %s (allowed: %s)" % (sorted(set(map(str, pulled))), sorted(want)), key="C02.R4:trie_remove:choice:%s:%s:%s" % (has_l, has_r, rel))
    ctx.floor("C02.R4", ncell, 5)


def r5(ctx):
    pdb = ctx.pdb
    ctx.rule("C02.R5", "enumeration: for every node the callback is called once per element index 0..len-1 with asn, prefix, min_len, "
             "max_len and socket of that element, the left subtree before and the right subtree after, each exactly once")
    fn = pdb.fn("pfx_table_for_each_rec")
    ctx.touch(fn)
    ind = [c for c in fn.calls() if c.callee is None]
    ctx.floor("C02.R5", len(ind), 1)
    c = ind[0]
    loops = [L for L in es.index_loops(fn) if es.in_loop_body(L, c)]
    full = bool(loops) and loops[0]["init"] == "#0" and loops[0]["bound"][0] == "load" and vf.last_field(loops[0]["bound"][1]) == "node_data.len"
    uncond = bool(loops) and all(fn.bdom(c.block.id, b) or fn.bpdom(c.block.id, b) or b == loops[0]["header"] for b in loops[0]["body"] if b != loops[0]["header"])
    one = len(ind) == 1 and vf.expr(fn, c["fptr"]) == ("arg", 1) and vf.expr(fn, c.args[1]) == ("arg", 2)
    ctx.check(full and uncond and one, "C02.R5", "callback-per-element", c.loc(), "loop 0..len-1: %s, unconditional: %s, fp(&record, data): %s" % (full, uncond, one), key="C02.R5:per-element")
    rec = vf.expr(fn, c.args[0])
    got = {}
    body = loops[0]["body"] if loops else set()
    for i in fn.all_insts():
        if i.op == "store" and i.block.id not in body and fn.dom(i, c) and vf.root_of(vf.expr(fn, i["ptr"])) == rec \
                and vf.store_field(i) in ("pfx_record.prefix", "pfx_record.min_len"):
            # the two node-level fields are the same for every element of the node: set once before the element loop
            got.setdefault(vf.store_field(i), vf.expr(fn, i["val"]))
        if i.op == "call" and (i.callee or "").startswith("llvm.memcpy") and i.block.id not in body and fn.dom(i, c) \
                and vf.root_of(vf.expr(fn, i.args[0])) == rec and vf.last_field(vf.expr(fn, i.args[0])) == "pfx_record.prefix":
            got.setdefault("pfx_record.prefix", ("load", vf.expr(fn, i.args[1])))
        if i.block.id in body and fn.dom(i, c):
            if i.op == "store" and vf.root_of(vf.expr(fn, i["ptr"])) == rec:
                got[vf.store_field(i)] = vf.expr(fn, i["val"])
            if i.op == "call" and (i.callee or "").startswith("llvm.memcpy") and vf.root_of(vf.expr(fn, i.args[0])) == rec:
                got[vf.last_field(vf.expr(fn, i.args[0]))] = ("load", vf.expr(fn, i.args[1]))
    src = {"pfx_record.asn": "data_elem.asn", "pfx_record.max_len": "data_elem.max_len", "pfx_record.socket": "data_elem.socket",
           "pfx_record.prefix": "trie_node.prefix", "pfx_record.min_len": "trie_node.len"}
    missing = [f for f, s_ in src.items() if not (got.get(f) and got[f][0] == "load" and vf.last_field(got[f][1]) == s_)]
    idx_ok = True
    for f in ("pfx_record.asn", "pfx_record.max_len", "pfx_record.socket"):
        v = got.get(f)
        if v and loops:
            e = v[1]
            while e[0] == "fld":
                e = e[1]
            idx_ok = idx_ok and e[0] in ("idx", "ptradd") and e[2] == ("phi", loops[0]["phi"].id)
    ctx.check(not missing and idx_ok, "C02.R5", "record-fields", c.loc(), "fields missing or from the wrong place: %s; element fields indexed by the loop index: %s" % ([m.split(".")[1] for m in missing], idx_ok),
              key="C02.R5:fields")
    recs = fn.calls("pfx_table_for_each_rec")
    # the function may check its own argument on entry instead of every caller checking the child
    derefs = [i for i in fn.all_insts() if i.op == "load" and vf.expr(fn, i["ptr"])[0] == "fld" and vf.expr(fn, i["ptr"])[1] == ("arg", 0)]
    entry_checks = bool(derefs) and all(es.Guards(fn, i).nonzero(("arg", 0)) for i in derefs)
    kids = []
    for r in recs:
        e = vf.expr(fn, r.args[0])
        guarded = es.Guards(fn, r).nonzero(e) or entry_checks
        kids.append((vf.last_field(e[1]) if e[0] == "load" else None, guarded, vf.expr(fn, r.args[1]) == ("arg", 1) and vf.expr(fn, r.args[2]) == ("arg", 2)))
    # a child may also be visited by going round a loop with the node variable moved to that child (tail call written as a loop)
    looped = []
    for ph in [i for i in fn.all_insts() if i.op == "phi"]:
        incs = [vf.expr(fn, v) for v, b in ph["inc"]]
        if ("arg", 0) in incs:
            for e in incs:
                if e[0] == "load" and e[1][0] == "fld" and e[1][1] == ("phi", ph.id) and vf.last_field(e[1]) in ("trie_node.lchild", "trie_node.rchild"):
                    looped.append(vf.last_field(e[1]))
    visited = sorted([k[0] for k in kids] + looped)
    ctx.check(visited == ["trie_node.lchild", "trie_node.rchild"] and all(k[1] and k[2] for k in kids), "C02.R5", "each-child-once", "%s:%d" % (fn.relfile, fn.line),
              "recursion: %s; by moving the node variable in a loop: %s" % (kids, looped), key="C02.R5:children")
    # pfx_table_get_root hands out the root of the family asked for
    gr = pdb.fn("pfx_table_get_root")
    ctx.touch(gr)
    famver = {"ipv4": pdb.enum_value("LRTR_IPV4"), "ipv6": pdb.enum_value("LRTR_IPV6")}
    for fam, ver in famver.items():
        outs_g, _f = es.count_effects(gr, pdb, lambda i, E, st: None, None, cell={1: ver})
        got = {es.ret_expr(gr, o) for o in outs_g}
        ctx.check(got == {("load", ("fld", ("arg", 0), "pfx_table." + fam))}, "C02.R5", "get_root[%s]" % fam, "%s:%d" % (gr.relfile, gr.line),
                  "returns %s" % sorted(vf.show(g) for g in got if g), key="C02.R5:get_root:%s" % fam)
    for fam in ("ipv4", "ipv6"):
        f = pdb.fn("pfx_table_for_each_%s_record" % fam)
        ctx.touch(f)
        cs = f.calls("pfx_table_for_each_rec")
        start = vf.expr(f, cs[0].args[0]) if len(cs) == 1 else None
        is_root = start == ("load", ("fld", ("arg", 0), "pfx_table." + fam)) or \
            (start is not None and start[0] == "call" and start[1] == "pfx_table_get_root" and start[3] == (("arg", 0), ("c", famver[fam])))
        good = len(cs) == 1 and is_root and vf.expr(f, cs[0].args[1]) == ("arg", 1) and vf.expr(f, cs[0].args[2]) == ("arg", 2)
        ctx.check(good, "C02.R5", "for_each_%s:root" % fam, "%s:%d" % (f.relfile, f.line), "walk starts at the %s root with the caller's callback and data" % fam, key="C02.R5:%s" % fam)


def check(ctx):
    retsets = flow.return_sets(ctx.pdb)
    r1(ctx)
    r1_whole_prefix(ctx)
    r1_words(ctx)
    r2(ctx, retsets)
    r2_shift(ctx)
    r3(ctx, retsets)
    r4(ctx)
    r5(ctx)
    from specs import C01
    with ctx.shared({"C01.R3": ("C02.R6", "the level handed to trie_insert / trie_remove is the depth of the node found: all traversals agree on child "
                                "polarity, and the level follows the depth on every path of the lookups (a record inserted with a wrong level is "
                                "never found again)")}):
        C01.r3(ctx)
    from specs import C18
    with ctx.shared({"C18.R3": ("C02.R7", "element arrays under allocation failure: a failed append leaves length and array untouched, a failed shrink "
                                "puts the element back - an error return never changes the set")}):
        C18.r3(ctx, retsets)
    ctx.not_decided("that trie_insert / trie_remove preserve the path invariant (every node on the path spelled by its prefix bits, "
                    "parents never longer than children) for every insertion/removal history")
    ctx.not_decided("pfx_table_del_elem / pfx_table_append_elem array arithmetic beyond C18.R3's restore pair")


WITNESSES = [
    {"id": "C02.w1-find_elem-ignores-socket", "rule": "C02.R1", "file": TP,
     "old": "\t\tif (data->ary[i].asn == record->asn && data->ary[i].max_len == record->max_len &&\n\t\t    data->ary[i].socket == record->socket) {",
     "new": "\t\tif (data->ary[i].asn == record->asn && data->ary[i].max_len == record->max_len) {"},
    {"id": "C02.w2-lookup_exact-found-on-longer-node", "rule": "C02.R1", "file": TRIE,
     "old": "\t\tif (root_node->len == mask_len && lrtr_ip_addr_equal(root_node->prefix, *prefix)) {", "new": "\t\tif (root_node->len >= mask_len && lrtr_ip_addr_equal(root_node->prefix, *prefix)) {"},
    {"id": "C02.w3-add-appends-before-duplicate-test", "rule": "C02.R2", "file": TP,
     "old": "\t\t\tif (pfx_table_find_elem(node->data, record, NULL)) {\n\t\t\t\tpthread_rwlock_unlock(&pfx_table->lock);\n\t\t\t\treturn PFX_DUPLICATE_RECORD;\n\t\t\t}\n\t\t\t// append record to note_data array\n\t\t\tint rtval = pfx_table_append_elem(node->data, record);\n",
     "new": "\t\t\tint rtval = pfx_table_append_elem(node->data, record);\n\n\t\t\tif (pfx_table_find_elem(node->data, record, NULL) != &((struct node_data *)node->data)->ary[((struct node_data *)node->data)->len - 1]) {\n\t\t\t\tpthread_rwlock_unlock(&pfx_table->lock);\n\t\t\t\treturn PFX_DUPLICATE_RECORD;\n\t\t\t}\n"},
    {"id": "C02.w4-remove-forgets-root", "rule": "C02.R2", "file": TP,
     "old": "\t\tif (node == root) {\n\t\t\tif (record->prefix.ver == LRTR_IPV4)\n\t\t\t\tpfx_table->ipv4 = NULL;\n\t\t\telse\n\t\t\t\tpfx_table->ipv6 = NULL;\n\t\t}\n\t\tassert(((struct node_data *)node->data)->len == 0);",
     "new": "\t\tif (node == root && record->prefix.ver == LRTR_IPV4)\n\t\t\tpfx_table->ipv4 = NULL;\n\t\tassert(((struct node_data *)node->data)->len == 0);"},
    {"id": "C02.w5-remove_id-while-to-if", "rule": "C02.R3", "file": TP,
     "old": "\t\t\twhile (data->len > i && data->ary[i].socket == socket) {", "new": "\t\t\tif (data->ary[i].socket == socket) {"},
    {"id": "C02.w6-remove_id-no-recheck-after-pull-up", "rule": "C02.R3", "file": TP,
     "old": "\t\t\t} else if (rm_node == node) {\n\t\t\t\treturn PFX_SUCCESS;\n\t\t\t}\n\t\t} else {", "new": "\t\t\t} else if (rm_node == node) {\n\t\t\t\treturn PFX_SUCCESS;\n\t\t\t}\n\t\t\tcheck_node = false;\n\t\t} else {"},
    {"id": "C02.w7-swap_nodes-omits-len", "rule": "C02.R4", "file": TRIE,
     "old": "\ta->prefix = b->prefix;\n\ta->len = b->len;\n\ta->data = b->data;\n\n\tb->prefix = tmp.prefix;", "new": "\ta->prefix = b->prefix;\n\ta->data = b->data;\n\n\tb->prefix = tmp.prefix;"},
    {"id": "C02.w8-for_each-starts-at-one", "rule": "C02.R5", "file": TP,
     "old": "\tfor (unsigned int i = 0; i < nd->len; i++) {\n\t\tpfxr.asn = nd->ary[i].asn;", "new": "\tfor (unsigned int i = 1; i < nd->len; i++) {\n\t\tpfxr.asn = nd->ary[i].asn;"},
    {"id": "C02.w9-add-inserts-after-failed-create", "rule": "C02.R2", "file": TP,
     "old": "\t\tif (pfx_table_create_node(&new_node, record) == PFX_ERROR) {\n\t\t\tpthread_rwlock_unlock(&pfx_table->lock);\n\t\t\treturn PFX_ERROR;\n\t\t}\n\t\ttrie_insert(node, new_node, lvl);",
     "new": "\t\tint cr = pfx_table_create_node(&new_node, record);\n\n\t\tif (new_node)\n\t\t\ttrie_insert(node, new_node, lvl);\n\t\tif (cr == PFX_ERROR) {\n\t\t\tpthread_rwlock_unlock(&pfx_table->lock);\n\t\t\treturn PFX_ERROR;\n\t\t}\n\t\tif (0)\n\t\t\ttrie_insert(node, new_node, lvl);"},
    {"id": "C02.w10-remove_id-skips-right-child-on-left-success", "rule": "C02.R3", "file": TP,
     "old": "\tif (node->lchild) {\n\t\tif (pfx_table_remove_id(pfx_table, root, node->lchild, socket, level + 1) == PFX_ERROR)\n\t\t\treturn PFX_ERROR;\n\t}",
     "new": "\tif (node->lchild)\n\t\treturn pfx_table_remove_id(pfx_table, root, node->lchild, socket, level + 1);"},
    {"id": "C02.w11-for_each-max_len-from-first-element", "rule": "C02.R5", "file": TP,
     "old": "\t\tpfxr.max_len = nd->ary[i].max_len;\n\t\tpfxr.socket = nd->ary[i].socket;\n\t\tfp(&pfxr, data);", "new": "\t\tpfxr.max_len = nd->ary[0].max_len;\n\t\tpfxr.socket = nd->ary[i].socket;\n\t\tfp(&pfxr, data);"},
    {"id": "C02.w12-src_remove-ipv4-only", "rule": "C02.R3", "file": TP,
     "old": "\tfor (unsigned int i = 0; i < 2; i++) {\n\t\tstruct trie_node **root = (i == 0 ? &(pfx_table->ipv4) : &(pfx_table->ipv6));\n\n\t\tpthread_rwlock_wrlock",
     "new": "\tfor (unsigned int i = 0; i < 1; i++) {\n\t\tstruct trie_node **root = (i == 0 ? &(pfx_table->ipv4) : &(pfx_table->ipv6));\n\n\t\tpthread_rwlock_wrlock"},
    {"id": "C02.w13-remove-pulls-up-left-child-regardless-of-length", "rule": "C02.R4", "file": TRIE,
     "old": "\t\tif (root->lchild && (!root->rchild || root->lchild->len < root->rchild->len)) {", "new": "\t\tif (root->lchild) {"},
    {"id": "C02.w14-remove-pulls-up-longer-child", "rule": "C02.R4", "file": TRIE,
     "old": "\t\tif (root->lchild && (!root->rchild || root->lchild->len < root->rchild->len)) {", "new": "\t\tif (root->lchild && (!root->rchild || root->lchild->len > root->rchild->len)) {"},
    {"id": "C02.w15-src_remove-returns-at-first-empty-family", "rule": "C02.R3", "file": TP,
     "old": "\t\tpthread_rwlock_wrlock(&(pfx_table->lock));\n\t\tif (*root) {\n\t\t\tint rtval = pfx_table_remove_id(pfx_table, root, *root, socket, 0);",
     "new": "\t\tpthread_rwlock_wrlock(&(pfx_table->lock));\n\t\tif (!*root) {\n\t\t\tpthread_rwlock_unlock(&pfx_table->lock);\n\t\t\treturn PFX_SUCCESS;\n\t\t}\n\t\tif (*root) {\n\t\t\tint rtval = pfx_table_remove_id(pfx_table, root, *root, socket, 0);"},
    {"id": "C02.w16-del_elem-shifts-from-the-end", "rule": "C02.R2", "file": TP,
     "old": "\tif (index != data->len - 1) {\n\t\tfor (unsigned int i = index; i < data->len - 1; i++)\n\t\t\tdata->ary[i] = data->ary[i + 1];\n\t}",
     "new": "\tfor (unsigned int i = data->len - 1; i > index; i--)\n\t\tdata->ary[i - 1] = data->ary[i];"},
    {"id": "C02.w17-ipv6-equality-skips-the-third-word", "rule": "C02.R1", "file": "rtrlib/lib/ipv6.c",
     "old": "a->addr[1] == b->addr[1] && a->addr[2] == b->addr[2] &&", "new": "a->addr[1] == b->addr[1] && a->addr[1] == b->addr[1] &&"},
    {"id": "C02.w18-exact-match-on-masked-prefixes", "rule": "C02.R1", "file": TRIE,
     "old": "\treturn n->len == mask_len && lrtr_ip_addr_equal(n->prefix, *p);", "new": "\treturn n->len == mask_len &&\n\t       lrtr_ip_addr_equal(lrtr_ip_addr_get_bits(&n->prefix, 0, mask_len), lrtr_ip_addr_get_bits(p, 0, mask_len));"},
]
