"""C20 — state and status names are defined for every enumerator.

R1 [TB+DT]  for every enumerator of the enum, the conversion function evaluated
            with that value returns a pointer to the string that equals the
            enumerator's name (table slot or literal; any implementation shape).
R2 [DT]     for every other integer value (finite exact partition: the argument is
            only compared with constants and used as an index) the function returns
            NULL and performs no load from a name table outside its bounds.
"""
import re
from engine import dt, flow, vf
from engine.pdb import AnalysisBroken

TARGETS = [("rtr_state_to_str", "rtr_socket_state"), ("rtr_mgr_status_to_str", "rtr_mgr_status")]


def _events(pdb, fn):
    def ev(inst, E):
        """table loads are recorded when they execute, with the index value known at that point"""
        if inst.op != "load":
            return None
        g = fn.inst(inst["ptr"])
        if g is None or g.op != "getelementptr" or not g["base"].startswith("@"):
            return None
        tab = pdb.glob_in(fn.unit, g["base"][1:])
        if not tab or not isinstance(tab.get("init"), list) or len(g["path"]) != 2:
            return None
        idx = flow.av_single(E.val(g["path"][1][1:-1]))
        n = len(tab["init"])
        slot = None
        if idx is not None and 0 <= idx < n:
            slot = tab["init"][idx]
            slot = ("str", slot["str"]) if isinstance(slot, dict) and "str" in slot else (("null",) if slot in (None, 0) else ("unknown", "slot"))
        return ("tload", inst.ref, g["base"][1:], idx, n, slot, inst.line)
    return ev


def _resolve(fl, fn, pdb, ref, facts, events, depth=8):
    """what a returned pointer designates: ('str', s) | ('null',) | ('oob', table, idx, n) | ('unknown', why)"""
    if depth <= 0:
        return ("unknown", "too deep")
    if ref == "null":
        return ("null",)
    if ref.startswith("@"):
        g = pdb.glob_in(fn.unit, ref[1:])
        if g and isinstance(g.get("init"), dict) and "str" in g["init"]:
            return ("str", g["init"]["str"])
        return ("unknown", "global " + ref)
    i = fn.inst(ref)
    if i is None:
        return ("unknown", ref)
    av = facts.get(ref)
    if i.op in vf.CASTS:
        return _resolve(fl, fn, pdb, i["a"], facts, events, depth - 1)
    if i.op == "phi":
        al = facts.get(("A", ref))
        if al:
            return _resolve(fl, fn, pdb, al, facts, events, depth - 1)
        if av == flow.av_in(0):
            return ("null",)
        return ("unknown", "phi without a single reaching value")
    if i.op == "select":
        c = flow.av_single(flow.Eval(fl, facts).val(i["c"]))
        if c is None:
            return ("unknown", "select")
        return _resolve(fl, fn, pdb, i["a"] if c else i["b"], facts, events, depth - 1)
    if i.op == "getelementptr":
        # a row of a two-dimensional character table (const char names[N][M]): the returned pointer is the row itself, the string
        # it designates ends at the first NUL - which a name of M or more characters does not have inside its row
        path = list(i["path"])
        base = fn.inst(i["base"]) if not i["base"].startswith("@") else None
        if base is not None and base.op == "getelementptr" and all(x == "[#0]" for x in path):
            path = list(base["path"])
            i = base
        if i["base"].startswith("@") and len(path) >= 2 and path[0] == "[#0]" and all(x == "[#0]" for x in path[2:]):
            tab = pdb.glob_in(fn.unit, i["base"][1:])
            m = re.match(r"^\[(\d+) x \[(\d+) x i8\]\]$", (tab or {}).get("type", ""))
            if tab and tab.get("const") and m and isinstance(tab.get("init"), list):
                idx = flow.av_single(flow.Eval(fl, facts).val(path[1][1:-1]))
                n, width = int(m.group(1)), int(m.group(2))
                if idx is None or not 0 <= idx < n:
                    return ("oob", i["base"][1:], idx, n)
                row = tab["init"][idx] if idx < len(tab["init"]) else None
                text = row["str"] if isinstance(row, dict) and "str" in row else ("" if row in (None, 0) else None)
                if text is None:
                    return ("unknown", "row")
                return ("str", text if len(text) < width else text + "<no terminator inside the row>")
        return ("unknown", "getelementptr")
    if i.op == "load":
        for e in events:
            if e[0] == "tload" and e[1] == ref:
                if e[5] is None:
                    return ("oob", e[2], e[3], e[4])
                return e[5]
        return ("unknown", "load")
    return ("unknown", i.op)


def _table_loads(fn, pdb, out, fl):
    return [(e[6], e[2], e[3], e[4]) for e in out["events"] if e[0] == "tload"]


def check(ctx):
    pdb = ctx.pdb
    ctx.rule("C20.R1", "every enumerator value maps to a non-null string equal to the enumerator's name")
    ctx.rule("C20.R2", "every non-enumerator value yields NULL and no table access outside the table's bounds")
    for fname, ename in TARGETS:
        fn = pdb.fn(fname)
        en = pdb.enum(ename)
        ctx.touch(fn)
        if not en:
            raise AnalysisBroken("enum %s has no enumerators" % ename)
        deleg = [r for r in fn.rets() if "val" in r.d and vf.expr(fn, r["val"])[0] == "call" and pdb.has_fn(vf.expr(fn, r["val"])[1])]
        if deleg:
            raise AnalysisBroken("%s hands the conversion to %s: the table lookup is no longer in the function itself, and the evaluation of its "
                                 "cells does not follow pointers to tables through a call" % (fname, vf.expr(fn, deleg[0]["val"])[1]))
        okc, bad, consts = dt.arg_uses_compare_only(fn, 0)
        for name, v in sorted(en.items(), key=lambda kv: kv[1]):
            outs, fl = dt.eval_cell(fn, pdb, {0: v}, events=_events(pdb, fn))
            where = "%s:%d" % (fn.relfile, fn.line)
            if not outs:
                ctx.violation("C20.R1", "%s(%s)" % (fname, name), where, "no return reached", key="C20.R1:%s:%s" % (fname, name))
                continue
            for o in outs:
                if o["ret"] != "noreturn":
                    r0 = _resolve(fl, fn, pdb, o["inst"]["val"], o["facts"], o["events"])
                    if r0[0] == "unknown":
                        # the evaluation lost track of what is returned (a search through the table with a moving pointer, for
                        # instance): the other outcomes of this cell may then be paths that cannot happen - no verdict
                        raise AnalysisBroken("%s(%s): the evaluation cannot tell what the returned pointer designates (%s): the name table is no "
                                             "longer read by index in a way the cells can follow" % (fname, name, r0[1]))
            for o in outs:
                if o["ret"] == "noreturn":
                    ctx.violation("C20.R1", "%s(%s)" % (fname, name), where, "aborts instead of returning a name",
                                  key="C20.R1:%s:%s" % (fname, name))
                    continue
                r = _resolve(fl, fn, pdb, o["inst"]["val"], o["facts"], o["events"])
                if r[0] == "unknown":
                    # the evaluation lost track of what is returned (a search through the table with a moving pointer, for instance):
                    # the other outcomes of this cell may then be paths that cannot happen - no verdict
                    raise AnalysisBroken("%s(%s): the evaluation cannot tell what the returned pointer designates (%s): the name table is no longer "
                                         "read by index in a way the cells can follow" % (fname, name, r[1]))
                loads = _table_loads(fn, pdb, o, fl)
                oob = [l for l in loads if l[2] is None or l[2] < 0 or l[2] >= l[3]]
                good = (r == ("str", name)) and not oob
                det = "value %d -> %s" % (v, r if not oob else ("index %s outside %s[%d]" % (oob[0][2], oob[0][1], oob[0][3])))
                ctx.check(good, "C20.R1", "%s(%s)" % (fname, name), "%s:%d" % (fn.relfile, o["inst"].line), det,
                          key="C20.R1:%s:%s" % (fname, name), expected=name, found=str(r))
        # R2: representatives of every class of non-enumerator values
        vals = set(en.values())
        lo, hi = min(vals | consts), max(vals | consts)
        reps = set(range(lo - 2, hi + 4)) | {2**31 - 1, -2**31, -1, 255, 256, 65536}
        reps -= vals
        nrep = 0
        for v in sorted(reps):
            outs, fl = dt.eval_cell(fn, pdb, {0: v}, events=_events(pdb, fn))
            nrep += 1
            for o in outs:
                inst = o["inst"]
                if o["ret"] == "noreturn":
                    ctx.violation("C20.R2", "%s(%d)" % (fname, v), inst.loc(), "aborts on a non-enumerator value",
                                  key="C20.R2:%s:outside" % fname)
                    continue
                r = _resolve(fl, fn, pdb, inst["val"], o["facts"], o["events"])
                loads = _table_loads(fn, pdb, o, fl)
                oob = [l for l in loads if l[2] is None or l[2] < 0 or l[2] >= l[3]]
                if oob:
                    ctx.violation("C20.R2", "%s(%d)" % (fname, v), "%s:%d" % (fn.relfile, oob[0][0]),
                                  "reads %s[%s], table has %d slots" % (oob[0][1], oob[0][2], oob[0][3]),
                                  key="C20.R2:%s:outside" % fname)
                else:
                    ctx.check(r == ("null",), "C20.R2", "%s(%d)" % (fname, v), inst.loc(),
                              "value %d -> %s (documented: NULL)" % (v, r), key="C20.R2:%s:outside" % fname)
        if not okc:
            ctx.note("%s: argument also flows into %s; the representative partition is not proven exhaustive" % (fname, bad))
        else:
            ctx.note("%s: argument is only compared with constants %s and used as an index, so the %d representatives "
                     "cover every non-enumerator value" % (fname, sorted(consts), nrep))
    ctx.floor("C20.R1", sum(1 for o in ctx.obls if o["rule"] == "C20.R1"), 15)


RT = "rtrlib/rtr/rtr.c"
MG = "rtrlib/rtr_mgr.c"
WITNESSES = [
    {"id": "C20.w1-state-name-missing", "rule": "C20.R1", "file": RT,
     "old": "\t\t\t\t\t  [RTR_FAST_RECONNECT] = \"RTR_FAST_RECONNECT\",\n", "new": ""},
    {"id": "C20.w2-state-names-swapped", "rule": "C20.R1", "file": RT,
     "old": "[RTR_RESET] = \"RTR_RESET\",\n\t\t\t\t\t  [RTR_SYNC] = \"RTR_SYNC\",", "new": "[RTR_RESET] = \"RTR_SYNC\",\n\t\t\t\t\t  [RTR_SYNC] = \"RTR_RESET\","},
    {"id": "C20.w3-status-name-misspelt", "rule": "C20.R1", "file": MG,
     "old": "[RTR_MGR_ERROR] = \"RTR_MGR_ERROR\",", "new": "[RTR_MGR_ERROR] = \"RTR_MGR_ERR\","},
    {"id": "C20.w4-state-bound-off-by-one", "rule": "C20.R2", "file": RT,
     "old": "\tif (state >= sizeof(socket_str_states) / sizeof(socket_str_states[0]))", "new": "\tif (state > sizeof(socket_str_states) / sizeof(socket_str_states[0]))"},
    {"id": "C20.w5-status-bound-signed", "rule": "C20.R2", "file": MG,
     "old": "\tif (status >= sizeof(mgr_str_status) / sizeof(mgr_str_status[0]))", "new": "\tif ((int)status >= (int)(sizeof(mgr_str_status) / sizeof(mgr_str_status[0])))"},
    {"id": "C20.w6-status-no-bound", "rule": "C20.R2", "file": MG,
     "old": "\tif (status >= sizeof(mgr_str_status) / sizeof(mgr_str_status[0]))\n\t\treturn NULL;\n", "new": ""},
]
