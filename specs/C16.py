"""C16 — concurrent readers and writers of the tables are linearizable and race-free.

R1 lockset: every access to guarded table state reachable from an entry point happens with the table's lock
   held (write lock for stores)
R2 pairing: every acquire is released exactly once on every path to every return (both table files)
R3 one critical section per reader operation
R5 no pointer into guarded memory escapes a reader
(R4 lock order is decided under C06.R5)
"""
from engine import es, flow, ls, vf
from engine.pdb import AnalysisBroken

PFX_UNITS = ["rtrlib/pfx/trie/trie-pfx.c", "rtrlib/pfx/trie/trie.c"]
SPKI_UNITS = ["rtrlib/spki/hashtable/ht-spkitable.c"]

TOMMY_R = {"tommy_hashlin_search": "R", "tommy_hashlin_bucket": "R", "tommy_list_head": "R", "tommy_hashlin_count": "R",
           "tommy_list_empty": "R", "tommy_list_tail": "R"}
TOMMY_W = {k: "W" for k in ("tommy_hashlin_insert", "tommy_hashlin_remove", "tommy_hashlin_remove_existing",
                            "tommy_hashlin_done", "tommy_hashlin_init", "tommy_list_insert_tail", "tommy_list_insert_head",
                            "tommy_list_remove_existing", "tommy_list_foreach", "tommy_list_foreach_arg", "tommy_list_init",
                            "tommy_list_sort", "tommy_list_concat", "tommy_hashlin_foreach", "tommy_hashlin_foreach_arg")}

GUARDS = [
    ls.Guard("pfx", "pfx_table.lock",
             fields=["pfx_table.ipv4", "pfx_table.ipv6", "trie_node.*", "node_data.*", "data_elem.*"],
             ptr_types=["struct trie_node*", "struct node_data*", "struct data_elem*"]),
    ls.Guard("spki", "spki_table.lock",
             fields=["spki_table.hashtable", "spki_table.list", "key_entry.*", "tommy_node_struct.*", "tommy_hashlin_struct.*"],
             ptr_types=["struct key_entry*", "tommy_node*", "struct tommy_node_struct*"],
             call_needs=dict(TOMMY_R, **TOMMY_W), container_fields=["spki_table.hashtable", "spki_table.list"]),
]

# entry points: (function, class) -> expected residual need (None = fully self-locking)
ENTRY = ["pfx_table_add", "pfx_table_remove", "pfx_table_src_remove", "pfx_table_validate_r", "pfx_table_validate",
         "pfx_table_for_each_ipv4_record", "pfx_table_for_each_ipv6_record", "pfx_table_copy_except_socket",
         "pfx_table_swap", "pfx_table_notify_diff",
         "spki_table_add_entry", "spki_table_remove_entry", "spki_table_src_remove", "spki_table_get_all",
         "spki_table_search_by_ski", "spki_table_copy_except_socket", "spki_table_swap", "spki_table_notify_diff",
         "spki_table_free", "spki_table_free_without_notify"]
EXEMPT = {
    "pfx_table_init": "construction: the table is not yet shared",
    "pfx_table_free": "destruction is exclusive by contract (it also destroys the lock)",
    "pfx_table_free_without_notify": "destruction is exclusive by contract",
    "spki_table_init": "construction: the table is not yet shared",
    # spki_table_free / spki_table_free_without_notify are NOT exempt: they empty the table under its write lock, which is what makes
    # a free wait for a lookup that is still walking the table
    "spki_table_notify_diff": "unlocked read-only walk of the live list on the single writer thread of the property's "
                              "quantifier (readers only read); recorded as a hazard for multi-socket groups",
}
READERS = ["pfx_table_validate_r", "pfx_table_for_each_ipv4_record", "pfx_table_for_each_ipv6_record",
           "spki_table_get_all", "spki_table_search_by_ski",
           # the copy walks the source list with a cursor: giving the lock up in the middle would leave the cursor dangling
           "spki_table_copy_except_socket"]


def lockset(ctx, retsets):
    pdb = ctx.pdb
    L = ls.LockSet(pdb, GUARDS, PFX_UNITS + SPKI_UNITS, retsets=retsets).analyse()
    return L


def r1(ctx, L):
    pdb = ctx.pdb
    ctx.rule("C16.R1", "lockset: every load/store of guarded table state (trie roots, nodes, element arrays; hash table, "
             "list, entries) reachable from an entry point is inside a critical section of that table's lock, write "
             "lock for stores; needs of lock-free helpers propagate to their callers")
    n = 0
    reported = set()
    roots = set(ENTRY)
    # any other function of the table units that nobody calls is an entry point too
    for f in L.fns:
        if f.linkage != "internal" and not pdb.callers(f.name) and f.name not in EXEMPT:
            roots.add(f.name)
    for name in sorted(roots):
        if not pdb.has_fn(name):
            raise AnalysisBroken("entry point %s vanished" % name)
        f = pdb.fn(name)
        ctx.touch(f)
        un = L.unprotected(name)
        internal_helper = f.unit in ("rtrlib/pfx/trie/trie.c",) and name not in ENTRY
        if internal_helper:
            continue   # trie_* are internal helpers documented to run under the caller's lock
        if name in EXEMPT:
            n += 1
            ctx.ok("C16.R1", "%s:exempt" % name, "%s:%d" % (f.relfile, f.line), EXEMPT[name])
            continue
        if not un:
            n += 1
            ctx.ok("C16.R1", "%s:lockset" % name, "%s:%d" % (f.relfile, f.line),
                   "all guarded accesses reachable from here are covered by the lock")
            continue
        n += 1
        for cls, lst in un.items():
            for (need, origin, chain, prel) in lst:
                okey = (origin.fn.name, origin.id, need)
                if okey in reported:
                    continue
                reported.add(okey)
                via = " via " + " <- ".join(c.fn.name for c in chain) if chain else ""
                fld = vf.last_field(vf.expr(origin.fn, origin["ptr"])) if origin.op in ("load", "store") else (origin.callee or "")
                ctx.violation("C16.R1", "%s:%s %s" % (name, "write" if need == "W" else "read", fld), origin.loc(),
                              "%s of %s in %s without the %s table %s lock%s" % (
                                  "store" if need == "W" else "access", fld, origin.fn.name, cls,
                                  "write" if need == "W" else "read", via),
                              key="C16.R1:%s:%s:%s" % (name, fld, need))
    ctx.floor("C16.R1", n, len(ENTRY) - 1)
    ctx.note("guarded accesses evaluated: %d" % L.accesses)


def r2(ctx, retsets):
    pdb = ctx.pdb
    ctx.rule("C16.R2", "every rdlock/wrlock is released exactly once on every path to every return; no double acquire, "
             "no release of an unheld lock")
    nacq = 0
    for unit in PFX_UNITS + SPKI_UNITS:
        for f in [x for x in pdb.all_functions() if x.unit == unit]:
            probs, st = ls.lock_pairing(f, pdb, retsets)
            if not st["acquires"] and not st["releases"]:
                continue
            ctx.touch(f)
            nacq += st["acquires"]
            if probs:
                for inst, msg in probs:
                    ctx.violation("C16.R2", "%s:pairing" % f.name, inst.loc(), msg, key="C16.R2:%s" % f.name)
            else:
                ctx.ok("C16.R2", "%s:pairing" % f.name, "%s:%d" % (f.relfile, f.line),
                       "%d acquires, %d release sites, %d return states: all balanced" % (st["acquires"], st["releases"], st["rets"]))
    ctx.floor("C16.R2", nacq, 17)


def r3(ctx, retsets):
    pdb = ctx.pdb
    ctx.rule("C16.R3", "each reader operation has exactly one critical section on every path that touches the table "
             "(its linearization point lies inside it)")
    for name in READERS:
        f = pdb.fn(name)
        ctx.touch(f)

        def classify(inst, E, st):
            if inst.op == "call" and inst.callee in ("pthread_rwlock_rdlock", "pthread_rwlock_wrlock") and \
                    vf.root_of(vf.expr(f, inst.args[0])) == ("arg", 0):
                return ["acq"]      # the lock of the table that is read (a copy also locks its destination, entry by entry)
            return None
        outs, fl = es.count_effects(f, pdb, classify, retsets)
        worst = max((o["counts"].get("acq", 0) for o in outs), default=0)
        ctx.check(worst <= 1 and outs, "C16.R3", "%s:one-section" % name, "%s:%d" % (f.relfile, f.line),
                  "max lock acquisitions on a path: %d" % worst, key="C16.R3:%s" % name)


def r5(ctx):
    pdb = ctx.pdb
    ctx.rule("C16.R5", "readers hand out copies: no pointer into guarded memory is stored into caller-visible memory or returned")
    ptr_fields = set()
    for g in GUARDS:
        for sname, s in pdb.structs.items():
            for fl in s["fields"]:
                if any(fl["type"].replace("const ", "") == t for t in g.ptr_types):
                    ptr_fields.add("%s.%s" % (sname, fl["name"]))
    n = 0
    for name in READERS + ["pfx_table_node2pfx_record", "key_entry_to_spki_record", "pfx_table_for_each_rec"]:
        f = pdb.fn(name)
        ctx.touch(f)
        bad = []
        for i in f.all_insts():
            if i.op == "store" and i["vty"].endswith("*"):
                pe = vf.expr(f, i["ptr"])
                root = vf.root_of(pe)
                if isinstance(root, tuple) and root[0] == "alloca":
                    continue
                tgt_guarded = any(g.guards(vf.last_field(pe)) for g in GUARDS)
                if tgt_guarded:
                    continue
                ve = vf.expr(f, i["val"])
                if _points_into_guarded(ve, ptr_fields):
                    bad.append(i)
            elif i.op == "ret" and "val" in i.d and f.d["ret"].endswith("*"):
                if _points_into_guarded(vf.expr(f, i["val"]), ptr_fields):
                    bad.append(i)
        n += 1
        if bad:
            for b in bad:
                ctx.violation("C16.R5", "%s:escape" % name, b.loc(), "pointer into guarded table memory leaves the reader",
                              key="C16.R5:%s" % name)
        else:
            ctx.ok("C16.R5", "%s:copies" % name, "%s:%d" % (f.relfile, f.line), "no pointer into guarded memory escapes")
    ctx.floor("C16.R5", n, 6)


def _points_into_guarded(ve, ptr_fields):
    # an address inside a guarded object, or a loaded pointer-to-guarded
    if not isinstance(ve, tuple):
        return False
    if ve[0] in ("fld", "idx", "ptradd"):
        f = vf.last_field(ve)
        return any(g.guards(f) for g in GUARDS) or _points_into_guarded(ve[1], ptr_fields)
    if ve[0] == "load":
        f = vf.last_field(ve[1])
        return f in ptr_fields
    if ve[0] == "call" and ve[1] in ("trie_lookup", "trie_lookup_exact", "tommy_hashlin_bucket", "tommy_list_head"):
        return True
    return False


def check(ctx):
    retsets = flow.return_sets(ctx.pdb)
    L = lockset(ctx, retsets)
    r1(ctx, L)
    r2(ctx, retsets)
    r3(ctx, retsets)
    r5(ctx)
    ctx.assume("pthread rwlocks provide mutual exclusion and happens-before between critical sections")
    ctx.assume("construction/destruction of a table is exclusive by API contract")


TP = "rtrlib/pfx/trie/trie-pfx.c"
HT = "rtrlib/spki/hashtable/ht-spkitable.c"
WITNESSES = [
    {"id": "C16.w1-remove-without-wrlock", "rule": "C16.R1", "also": ("C16.R2",), "file": TP,
     "old": "\tpthread_rwlock_wrlock(&(pfx_table->lock));\n\tstruct trie_node *root = pfx_table_get_root(pfx_table, record->prefix.ver);\n\n\tunsigned int lvl = 0; // tree depth",
     "new": "\tstruct trie_node *root = pfx_table_get_root(pfx_table, record->prefix.ver);\n\n\tunsigned int lvl = 0; // tree depth"},
    {"id": "C16.w2-src_remove-rdlock", "rule": "C16.R1", "file": HT,
     "old": "\ttommy_node *current_node;\n\n\tpthread_rwlock_wrlock(&spki_table->lock);\n\n\tcurrent_node = tommy_list_head(&spki_table->list);\n\twhile (current_node) {\n\t\tentry = current_node->data;",
     "new": "\ttommy_node *current_node;\n\n\tpthread_rwlock_rdlock(&spki_table->lock);\n\n\tcurrent_node = tommy_list_head(&spki_table->list);\n\twhile (current_node) {\n\t\tentry = current_node->data;"},
    {"id": "C16.w3-get_all-early-return-locked", "rule": "C16.R2", "file": HT,
     "old": "\tif (!result_bucket) {\n\t\tpthread_rwlock_unlock(&spki_table->lock);\n\t\treturn SPKI_SUCCESS;",
     "new": "\tif (!result_bucket) {\n\t\treturn SPKI_SUCCESS;"},
    {"id": "C16.w4-validate-relocks-between-lookups", "rule": "C16.R3", "file": TP,
     "old": "\twhile (!pfx_table_elem_matches(node->data, asn, prefix_len)) {\n",
     "new": "\tpthread_rwlock_unlock(&pfx_table->lock);\n\tpthread_rwlock_rdlock(&(pfx_table->lock));\n\twhile (!pfx_table_elem_matches(node->data, asn, prefix_len)) {\n"},
    {"id": "C16.w5-validate-unlocks-before-descent", "rule": "C16.R1", "also": ("C16.R2",), "file": TP,
     "old": "\twhile (!pfx_table_elem_matches(node->data, asn, prefix_len)) {\n",
     "new": "\tpthread_rwlock_unlock(&pfx_table->lock);\n\twhile (!pfx_table_elem_matches(node->data, asn, prefix_len)) {\n"},
    {"id": "C16.w6-for-each-tests-root-before-lock", "rule": "C16.R1", "file": TP,
     "old": "\tpthread_rwlock_rdlock(&(pfx_table->lock));\n\tif (pfx_table->ipv6)\n",
     "new": "\tif (!pfx_table->ipv6)\n\t\treturn;\n\tpthread_rwlock_rdlock(&(pfx_table->lock));\n\tif (pfx_table->ipv6)\n"},
    {"id": "C16.w7-add-notifies-and-mutates-after-unlock", "rule": "C16.R1", "file": TP,
     "old": "\t\ttrie_insert(node, new_node, lvl);\n\t\tpthread_rwlock_unlock(&pfx_table->lock);\n",
     "new": "\t\tpthread_rwlock_unlock(&pfx_table->lock);\n\t\ttrie_insert(node, new_node, lvl);\n"},
    {"id": "C16.w8-search-by-ski-unlocked-walk", "rule": "C16.R1", "file": HT,
     "old": "\tpthread_rwlock_rdlock(&spki_table->lock);\n\n\tcurrent_node = tommy_list_head(&spki_table->list);\n\twhile (current_node) {\n\t\tstruct key_entry *current_entry;",
     "new": "\tcurrent_node = tommy_list_head(&spki_table->list);\n\tpthread_rwlock_rdlock(&spki_table->lock);\n\twhile (current_node) {\n\t\tstruct key_entry *current_entry;"},
    {"id": "C16.w9-validate-returns-node-array", "rule": "C16.R5", "file": TP,
     "old": "\tpthread_rwlock_unlock(&pfx_table->lock);\n\t*result = BGP_PFXV_STATE_VALID;\n",
     "new": "\tif (reason)\n\t\t*reason = (struct pfx_record *)((struct node_data *)node->data)->ary;\n\tpthread_rwlock_unlock(&pfx_table->lock);\n\t*result = BGP_PFXV_STATE_VALID;\n"},
    {"id": "C16.w10-remove_entry-double-unlock", "rule": "C16.R2", "file": HT,
     "old": "\t\trtval = SPKI_RECORD_NOT_FOUND;\n", "new": "\t\trtval = SPKI_RECORD_NOT_FOUND;\n\t\tpthread_rwlock_unlock(&spki_table->lock);\n"},
    {"id": "C16.w-copy-gives-up-the-source-lock-per-entry", "rule": "C16.R3", "file": "rtrlib/spki/hashtable/ht-spkitable.c",
     "old": "\t\t\tif (spki_table_add_entry(dst, &record) != SPKI_SUCCESS) {", "new": "\t\t\tpthread_rwlock_unlock(&src->lock);\n\t\t\tpthread_rwlock_rdlock(&src->lock);\n\t\t\tif (spki_table_add_entry(dst, &record) != SPKI_SUCCESS) {"},
    {"id": "C16.w-spki-free-under-the-read-lock", "rule": "C16.R1", "file": "rtrlib/spki/hashtable/ht-spkitable.c",
     "old": "void spki_table_free(struct spki_table *spki_table)\n{\n\tpthread_rwlock_wrlock(&spki_table->lock);", "new": "void spki_table_free(struct spki_table *spki_table)\n{\n\tpthread_rwlock_rdlock(&spki_table->lock);"},
]
