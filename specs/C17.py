"""C17 — timer values stay within protocol bounds whatever the cache sends.

R1 the range constants used by the code equal RFC 8210 section 6
R2 decision table of rtr_check_interval_option (callees evaluated in place): type x mode x interval class
R3 the End-of-Data arm applies intervals only for version 1 and mode != IGNORE_ANY, pairing each PDU field with its type;
   nobody else writes the three socket fields
R4 rtr_init rejects every out-of-range combination without touching the socket's intervals, accepts the rest verbatim
R5 polling: the wait is max(0, last_update + refresh_interval - now); Serial Notify and timeout both lead to a query
"""
from engine import dt, es, flow, fsm, vf
from engine.pdb import AnalysisBroken
from specs import rfc8210

SOCK = ("arg", 0)
RECV = "rtr_sync_receive_and_store_pdus"
FIELD = {"expire": "rtr_socket.expire_interval", "refresh": "rtr_socket.refresh_interval", "retry": "rtr_socket.retry_interval"}
TYPE = {"expire": "RTR_INTERVAL_TYPE_EXPIRATION", "refresh": "RTR_INTERVAL_TYPE_REFRESH", "retry": "RTR_INTERVAL_TYPE_RETRY"}
INLINE = {"rtr_check_interval_range", "apply_interval_value"}
U32 = 2 ** 32 - 1


def reps(lo, hi):
    vals = {0, lo - 1, lo, lo + 1, (lo + hi) // 2, hi - 1, hi, hi + 1, 2 ** 31 - 1, 2 ** 31, U32}
    return sorted(v for v in vals if 0 <= v <= U32)


def cls(v, lo, hi):
    return "below" if v < lo else ("above" if v > hi else "inside")


def r1_r2(ctx):
    pdb = ctx.pdb
    ctx.rule("C17.R1", "range constants: refresh 1..86400, retry 1..7200, expire 600..172800 (RFC 8210 section 6), as used by "
             "rtr_init and rtr_check_interval_option")
    ctx.rule("C17.R2", "rtr_check_interval_option: inside the range the value is stored as sent in every mode; outside: ACCEPT_ANY "
             "stores it, DEFAULT_MIN_MAX stores the nearer bound, IGNORE_ON_FAILURE stores nothing; only the field of the "
             "given type is written; unknown types are rejected")
    fn = pdb.fn("rtr_check_interval_option")
    ctx.touch(fn, "rtr_check_interval_range", "apply_interval_value")
    types = pdb.enum("rtr_interval_type")
    modes = pdb.enum("rtr_interval_mode")
    # R1: constants handed to the range check, per type (evaluate once per type and read the call arguments)
    for name, (lo, hi, _) in rfc8210.TIMERS.items():
        t = types[TYPE[name]]
        outs = dt.eval_inline(fn, pdb, {1: modes["RTR_INTERVAL_MODE_ACCEPT_ANY"], 2: lo, 3: t}, {"apply_interval_value"}, watch={"rtr_check_interval_range"})
        got = {e[2][1:] for o in outs for e in o["events"] if e[0] == "call"}
        if got and all(a is None and b is None for (a, b) in got):
            raise AnalysisBroken("rtr_check_interval_option: the bounds handed to rtr_check_interval_range are not constants the evaluation can follow "
                                 "(for instance copied out of a local table): the interval decision table cannot be evaluated")
        ctx.check(got == {(lo, hi)}, "C17.R1", "option:%s-range" % name, "%s:%d" % (fn.relfile, fn.line),
                  "range used for %s: %s (RFC: %d..%d)" % (name, sorted(got), lo, hi), key="C17.R1:option:%s" % name)
    ncell = 0
    for name, (lo, hi, _) in rfc8210.TIMERS.items():
        t = types[TYPE[name]]
        for mname, m in sorted(modes.items(), key=lambda kv: kv[1]):
            for v in reps(lo, hi):
                ncell += 1
                outs = dt.eval_inline(fn, pdb, {1: m, 2: v, 3: t}, INLINE)
                c = cls(v, lo, hi)
                if c == "inside" or mname == "RTR_INTERVAL_MODE_ACCEPT_ANY":
                    exp = v
                elif mname == "RTR_INTERVAL_MODE_DEFAULT_MIN_MAX":
                    exp = lo if c == "below" else hi
                else:
                    exp = None   # IGNORE_ON_FAILURE; IGNORE_ANY never reaches this function outside the range (R3)
                want = (("store", "arg0", FIELD[name], exp, None),) if exp is not None else ()
                found = [(o["events"], flow.av_single(o["ret"])) for o in outs]
                good = len(outs) >= 1 and all(ev == want and r == 0 for ev, r in found)
                if good:
                    ctx.ok("C17.R2", "%s/%s/%d(%s)" % (name, mname.replace("RTR_INTERVAL_MODE_", ""), v, c), "%s:%d" % (fn.relfile, fn.line),
                           "stores %s" % (exp if exp is not None else "nothing"))
                else:
                    ctx.violation("C17.R2", "%s/%s/%d(%s)" % (name, mname.replace("RTR_INTERVAL_MODE_", ""), v, c), "%s:%d" % (fn.relfile, fn.line),
                                  "interval %d (%s the range %d..%d), mode %s: effects %s, expected %s" % (v, c, lo, hi, mname, found, want or "no store"),
                                  key="C17.R2:%s:%s:%s" % (name, mname, c), expected=str(want), found=str(found))
    for bad_t in (max(types.values()) + 1, 255, -1):
        outs = dt.eval_inline(fn, pdb, {1: 1, 2: 1000, 3: bad_t}, INLINE)
        good = outs and all(o["events"] == () and flow.av_single(o["ret"]) == pdb.enum_value("RTR_ERROR") for o in outs)
        ctx.check(good, "C17.R2", "unknown-type:%d" % bad_t, "%s:%d" % (fn.relfile, fn.line), "rejected without a store", key="C17.R2:unknown-type")
    ctx.floor("C17.R2", ncell, 100)
    # the value is only compared and copied => the representatives cover all 2^32 values
    for f, k in (("rtr_check_interval_option", 2), ("rtr_check_interval_range", 0), ("apply_interval_value", 1)):
        okc, bad, consts = dt.arg_uses_compare_only(pdb.fn(f), k)
        ctx.check(okc, "C17.R2", "%s:arg%d-compared-and-copied-only" % (f, k), "%s:%d" % (pdb.fn(f).relfile, pdb.fn(f).line),
                  "no arithmetic on the interval value (%s)" % (bad or "none"), key="C17.R2:%s:arith" % f)


def r3(ctx):
    pdb = ctx.pdb
    ctx.rule("C17.R3", "End-of-Data arm: rtr_check_interval_option is called only under (PDU version == 1 and iv_mode != "
             "IGNORE_ANY), with (mode = socket.iv_mode, value = the PDU field at the RFC offset, matching type); the three "
             "socket fields are written nowhere else")
    fn = pdb.fn(RECV)
    ctx.touch(fn)
    types = pdb.enum("rtr_interval_type")
    off = {o: n for (n, o, s) in rfc8210.PDU[7][2]}
    calls = []
    for c in fn.calls("rtr_check_interval_option"):
        rows = es.table_rows(fn, c)     # one call per row of a local (value, type) table stands for that many calls
        calls += [(c, r) for r in rows] if rows else [(c, [vf.expr(fn, a) for a in c.args])]
    ctx.floor("C17.R3", len(calls), 3)
    seen_types = set()
    ign = pdb.enum_value("RTR_INTERVAL_MODE_IGNORE_ANY")
    for c, cargs in calls:
        G = es.Guards(fn, c)
        v1 = bool(G.find_eq(lambda x: x[0] == "load" and (vf.last_field(x[1]) or "").endswith(".ver"), lambda y: y == ("c", 1)))
        notign = G.ne(("load", ("fld", SOCK, "rtr_socket.iv_mode")), ("c", ign))
        mode_ok = cargs[1] == ("load", ("fld", SOCK, "rtr_socket.iv_mode")) and cargs[0] == SOCK
        ve = cargs[2]
        fld = vf.last_field(ve[1]) if ve[0] == "load" else None
        foff = None
        if fld:
            sname, fname = fld.split(".", 1)
            foff = pdb.field(sname, fname)["off"]
        te = cargs[3]
        tname = {v: k for k, v in types.items()}.get(te[1]) if te[0] == "c" else None
        rfcname = off.get(foff)
        pair_ok = rfcname in TYPE and tname == TYPE[rfcname]
        seen_types.add(tname)
        ctx.check(v1 and notign and mode_ok and pair_ok, "C17.R3", "eod-call:%s" % (tname or vf.show(te)), c.loc(),
                  "guarded by version==1: %s, by mode!=IGNORE_ANY: %s, mode argument is socket.iv_mode: %s, PDU bytes %s (RFC field %s) paired with %s: %s" % (
                      v1, notign, mode_ok, foff, rfcname, tname, pair_ok), key="C17.R3:eod-call:%s" % tname)
    ctx.check(seen_types == set(TYPE.values()), "C17.R3", "all-three-intervals-applied", "%s:%d" % (fn.relfile, fn.line),
              "types applied: %s" % sorted(t for t in seen_types if t), key="C17.R3:all-three")
    n = 0
    for name, fld in FIELD.items():
        for s in vf.stores_to_field(pdb, fld):
            n += 1
            ctx.check(s.fn.name in ("rtr_init", "apply_interval_value"), "C17.R3", "writer:%s in %s" % (fld.split(".")[1], s.fn.name), s.loc(),
                      "interval field written in %s" % s.fn.name, key="C17.R3:writer:%s:%s" % (fld, s.fn.name))
    ctx.floor("C17.R3", n, 6)
    others = [c for c in pdb.callers("rtr_check_interval_option") if c.fn.name != RECV] + \
             [c for c in pdb.callers("apply_interval_value") if c.fn.name != "rtr_check_interval_option"]
    ctx.check(not others, "C17.R3", "no-other-appliers", "rtrlib/rtr", "interval application is reached only from the End-of-Data arm", key="C17.R3:appliers")


def r4(ctx, retsets):
    pdb = ctx.pdb
    ctx.rule("C17.R4", "rtr_init: RTR_INVALID_PARAM and no interval field written whenever refresh, expire or retry is outside "
             "its RFC range; otherwise success and the three fields hold exactly the arguments; rtr_mgr_init propagates the failure")
    fn = pdb.fn("rtr_init")
    ctx.touch(fn)
    params = [p["name"] for p in fn.params]
    try:
        idx = {"refresh": params.index("refresh_interval"), "expire": params.index("expire_interval"), "retry": params.index("retry_interval")}
    except ValueError:
        raise AnalysisBroken("rtr_init parameters renamed")
    inval = pdb.enum_value("RTR_INVALID_PARAM")
    # R1 for rtr_init: constants handed to the range checks
    outs = dt.eval_inline(fn, pdb, {idx["refresh"]: 3600, idx["expire"]: 7200, idx["retry"]: 600}, set(), watch={"rtr_check_interval_range"})
    got = {}
    for o in outs:
        for e in o["events"]:
            if e[0] == "call":
                got[e[2][0]] = e[2][1:]
    if got and all(k is None for k in got):
        raise AnalysisBroken("rtr_init: the values handed to rtr_check_interval_range are not the arguments themselves in a form the evaluation can "
                             "follow (for instance copied into a local table that a loop walks): the range table of rtr_init cannot be evaluated")
    for name, probe in (("refresh", 3600), ("expire", 7200), ("retry", 600)):
        lo, hi, _ = rfc8210.TIMERS[name]
        ctx.check(got.get(probe) == (lo, hi), "C17.R1", "init:%s-range" % name, "%s:%d" % (fn.relfile, fn.line),
                  "range used for %s: %s (RFC: %d..%d)" % (name, got.get(probe), lo, hi), key="C17.R1:init:%s" % name)
    # classes per interval: both sides of each bound, the middle, and the two extremes of the argument type (0 and 2^32-1)
    small = {n: sorted({0, lo - 1, lo, (lo + hi) // 2, hi, hi + 1, 0xFFFFFFFF}) for n, (lo, hi, _) in rfc8210.TIMERS.items()}
    ncell = 0
    bad = []
    for rv in small["refresh"]:
        for ev in small["expire"]:
            for tv in small["retry"]:
                ncell += 1
                cell = {idx["refresh"]: rv, idx["expire"]: ev, idx["retry"]: tv}
                outs = dt.eval_inline(fn, pdb, cell, {"rtr_check_interval_range"})
                ok_all = all(rfc8210.TIMERS[n][0] <= v <= rfc8210.TIMERS[n][1] for n, v in (("refresh", rv), ("expire", ev), ("retry", tv)))
                for o in outs:
                    ivst = {e[2]: e[3] for e in o["events"] if e[0] == "store" and e[2] in FIELD.values()}
                    r = flow.av_single(o["ret"])
                    if ok_all:
                        good = r == 0 and ivst == {FIELD["refresh"]: rv, FIELD["expire"]: ev, FIELD["retry"]: tv}
                    else:
                        good = r == inval and not ivst
                    if not good:
                        bad.append((cell, r, ivst))
                if not outs:
                    bad.append((cell, "no return", {}))
    if bad:
        c, r, ivst = bad[0]
        ctx.violation("C17.R4", "rtr_init-table", "%s:%d" % (fn.relfile, fn.line),
                      "refresh/expire/retry = %s: returns %s, interval stores %s (%d of %d cells wrong)" % (
                          [c[idx[k]] for k in ("refresh", "expire", "retry")], r, ivst, len(bad), ncell), key="C17.R4:rtr_init")
    else:
        ctx.ok("C17.R4", "rtr_init-table", "%s:%d" % (fn.relfile, fn.line), "%d cells (6-7 classes per interval incl. 0 and 2^32-1) as expected" % ncell)
    ctx.floor("C17.R4", ncell, 125)
    # propagation
    for cname in ("rtr_mgr_init_sockets",):
        g = pdb.fn(cname)
        ctx.touch(g)
        cs = g.calls("rtr_init")
        ctx.floor("C17.R4", len(cs), 1)
        for c in cs:
            used = bool(g.uses(c.ref))
            rs = retsets.get((g.unit, g.name))
            ctx.check(used and rs != "TOP" and inval in rs, "C17.R4", "%s:propagates" % cname, c.loc(),
                      "result of rtr_init consulted and RTR_INVALID_PARAM can be returned (%s)" % (sorted(rs) if rs != "TOP" else rs),
                      key="C17.R4:%s" % cname)
    g = pdb.fn("rtr_mgr_init")
    rs = retsets.get((g.unit, g.name))
    ctx.check(rs != "TOP" and inval in rs, "C17.R4", "rtr_mgr_init:propagates", "%s:%d" % (g.relfile, g.line),
              "rtr_mgr_init can return RTR_INVALID_PARAM (%s)" % (sorted(rs) if rs != "TOP" else rs), key="C17.R4:rtr_mgr_init")


def r5(ctx, retsets):
    pdb = ctx.pdb
    ctx.rule("C17.R5", "rtr_wait_for_sync waits max(0, last_update + refresh_interval - now) for a PDU; a Serial Notify and an "
             "expired wait both return success, after which the ESTABLISHED arm sends a Serial Query")
    fn = pdb.fn("rtr_wait_for_sync")
    ctx.touch(fn)
    rc = fn.calls("rtr_receive_pdu")
    ctx.floor("C17.R5", len(rc), 1)
    c = rc[0]
    t = fn.inst(vf.strip_casts(fn, c.args[3]))
    lu = ("load", ("fld", SOCK, "rtr_socket.last_update"))
    ri = ("load", ("fld", SOCK, "rtr_socket.refresh_interval"))
    good = False
    detail = "timeout argument is %s" % vf.show(vf.expr(fn, c.args[3]))
    cands = []
    if t is not None and t.op == "phi":
        cands = [v for v, b in t["inc"]]
    elif t is not None and t.op == "select":
        cands = [t["a"], t["b"]]
    def lin(e, sign=1, acc=None):
        """the expression as a sum of terms with integer coefficients (however the additions and subtractions are grouped)"""
        acc = {} if acc is None else acc
        if e[0] == "cast":
            inner = e[2]
            while inner[0] == "cast":
                inner = inner[2]
            if e[1] in ("zext", "trunc") and inner[0] == "bin" and inner[1] in ("add", "sub"):
                # a sum or difference formed in a narrower unsigned type and widened afterwards wraps around instead of going negative
                narrow.append(e)
            return lin(e[2], sign, acc)
        if e[0] == "c":
            acc[("k",)] = acc.get(("k",), 0) + sign * e[1]
        elif e[0] == "bin" and e[1] in ("add", "sub"):
            lin(e[2], sign, acc)
            lin(e[3], sign if e[1] == "add" else -sign, acc)
        else:
            acc[e] = acc.get(e, 0) + sign
        return {k: v for k, v in acc.items() if v}
    exprs = []
    seenphi = set()
    narrow = []

    def leaves(v):
        e = vf.expr(fn, v, keep_casts=True)
        while e[0] == "cast" and e[2][0] == "phi":
            e = e[2]
        if e[0] == "phi" and e[1] not in seenphi:
            seenphi.add(e[1])
            for vv, bb in fn.insts[e[1]]["inc"]:
                leaves(vv)
        else:
            exprs.append(e)
    for v in cands:
        leaves(v)
    zero = [e for e in exprs if e == ("c", 0)]
    diff = [e for e in exprs if e != ("c", 0)]
    if zero and diff and len({str(lin(e)) for e in diff}) == 1:
        d = diff[0]
        L = lin(d)
        nows = [k for k, v in L.items() if v == -1]
        sum_ok = len(L) == 3 and L.get(lu) == 1 and L.get(ri) == 1 and len(nows) == 1
        now = nows[0] if nows else ("?",)
        now_ok = now[0] == "load" and now[1][0] == "alloca"
        clk = [k for k in fn.calls("lrtr_get_monotonic_time") if vf.expr(fn, k.args[0]) == (now[1] if now_ok else None) and fn.dom(k, c)]
        # clamp: zero is chosen exactly when the difference is negative
        clamp = False
        for g, tr, br in es.guards_of(fn, c) if False else []:
            pass
        for i in fn.all_insts():
            if i.op == "icmp" and i["pred"] in ("slt", "sgt", "sle", "sge"):
                # the sign of the difference is what is tested, whichever way the comparison is written
                cmpd = lin(("bin", "sub", vf.expr(fn, i["a"]), vf.expr(fn, i["b"])))
                if cmpd == L or cmpd == {k: -v for k, v in L.items()}:
                    clamp = True
        good = sum_ok and now_ok and bool(clk) and clamp and not narrow
        detail = "wait = %s, clamped at 0: %s, now read from the clock: %s%s" % (
            vf.show(d), clamp, bool(clk), "; part of it is computed in a narrower unsigned type and widened afterwards (wraps instead of going negative)" if narrow else "")
    ctx.check(good, "C17.R5", "wait-expression", c.loc(), detail, key="C17.R5:wait")
    # the wait is computed from a fresh clock reading for every receive (no retry loop that reuses a stale wait)
    inloop = [body for h, body in fn.loops().items() if c.block.id in body]
    fresh = True
    if inloop:
        body = min(inloop, key=len)
        fresh = any(k.block.id in body and fn.dom(k, c) for k in fn.calls("lrtr_get_monotonic_time"))
    ctx.check(len(rc) == 1 and fresh, "C17.R5", "wait-recomputed-per-receive", c.loc(),
              "one receive per call, or the clock is read again inside the loop that repeats it" if (len(rc) == 1 and fresh) else
              "the receive is repeated in a loop that does not recompute the remaining wait (%d receive calls)" % len(rc), key="C17.R5:wait-fresh")
    # the deadline covers the whole transfer: the _all loops hand each partial attempt the time that is left, not the full timeout
    for lname, fpf in (("tr_recv_all", "tr_socket.recv_fp"), ("tr_send_all", "tr_socket.send_fp")):
        lf = pdb.fn(lname)
        ctx.touch(lf)
        raw = lname[:-4]
        attempts = [i for i in lf.all_insts() if i.op == "call" and (i.callee == raw or (i.callee is None and i.d.get("fptr") and
                    vf.expr(lf, i["fptr"])[0] == "load" and vf.last_field(vf.expr(lf, i["fptr"])[1]) == fpf))]
        # an attempt made before the loop is entered has the whole timeout left: it may be handed the timeout itself
        first = [i for i in attempts if not any(i.block.id in body for body in lf.loops().values())]
        early_ok = all(vf.expr(lf, i.args[3]) == ("arg", 3) for i in first)
        attempts = [i for i in attempts if i not in first]
        if len(attempts) != 1:
            raise AnalysisBroken("%s: expected one transfer attempt in the loop, found %d" % (lname, len(attempts)))
        a = attempts[0]
        if not early_ok:
            ctx.violation("C17.R5", "%s:remaining-time-per-attempt" % lname, first[0].loc(),
                          "an attempt before the loop is given %s, not the timeout" % vf.show(vf.expr(lf, first[0].args[3])), key="C17.R5:%s:remaining" % lname)
            continue
        bodies = [body for h, body in lf.loops().items() if a.block.id in body]
        te = vf.expr(lf, a.args[3])
        clocks = lf.calls("lrtr_get_monotonic_time")
        inside = [k for k in clocks if bodies and k.block.id in min(bodies, key=len) and lf.dom(k, a)]
        # (the reading the deadline is formed from is taken before any attempt, the early one included)
        before = [k for k in clocks if not (bodies and k.block.id in min(bodies, key=len)) and lf.dom(k, a) and all(lf.dom(k, f) for f in first)]
        uses_now = any(vf.mentions(te, lambda x, k=k: x == ("load", vf.expr(lf, k.args[0]))) for k in inside)
        uses_end = any(vf.mentions(te, lambda x, k=k: x == ("load", vf.expr(lf, k.args[0]))) for k in before)
        end_has_timeout = any(i.op == "store" and any(vf.expr(lf, i["ptr"]) == vf.expr(lf, k.args[0]) for k in before) and
                              vf.mentions(vf.expr(lf, i["val"]), lambda x: x == ("arg", 3)) for i in lf.all_insts())
        # the deadline = a clock reading taken before the loop plus the timeout: kept in the variable (stored back) or formed in the expression
        end_has_timeout = end_has_timeout or vf.mentions(te, lambda x: x == ("arg", 3))
        good = bool(bodies) and uses_now and uses_end and end_has_timeout
        ctx.check(good, "C17.R5", "%s:remaining-time-per-attempt" % lname, a.loc(),
                  "timeout of each attempt = %s; derived from a clock reading inside the loop: %s; from the deadline (clock before the loop + timeout): %s" % (
                      vf.show(te), uses_now, uses_end and end_has_timeout), key="C17.R5:%s:remaining" % lname)
    # a wait of 0 (the refresh interval has run out) must not block: the TCP transport polls, and otherwise arms the socket timeout
    MSG_DONTWAIT, SO_RCVTIMEO = 0x40, 20
    tf = pdb.fn("tr_tcp_recv")
    ctx.touch(tf)
    for tv, name in ((0, "timeout 0"), (1, "timeout 1"), (3600, "timeout 3600")):
        def cl_t(inst, E, st):
            if inst.op == "call" and inst.callee == "recv":
                return ["recv:%s" % ("nonblocking" if (flow.av_single(E.val(inst.args[3])) or 0) & MSG_DONTWAIT else "blocking")]
            if inst.op == "call" and inst.callee == "setsockopt" and flow.av_single(E.val(inst.args[2])) == SO_RCVTIMEO:
                return [(["rcvtimeo"], {inst.ref: flow.av_in(0)})]
            return None
        outs_t, _f = es.count_effects(tf, pdb, cl_t, None, cell={3: tv})
        want = {"recv:nonblocking": 1} if tv == 0 else {"rcvtimeo": 1, "recv:blocking": 1}
        found = [o["counts"] for o in outs_t]
        ctx.check(bool(outs_t) and all(c == want for c in found), "C17.R5", "tr_tcp_recv[%s]" % name, "%s:%d" % (tf.relfile, tf.line),
                  "effects %s, expected %s (SO_RCVTIMEO 0 would mean: wait for ever)" % (sorted({tuple(sorted(c)) for c in found}), sorted(want)), key="C17.R5:tcp_recv:%d" % tv)
    # outcome table
    notify = pdb.enum_value("SERIAL_NOTIFY")
    wb = pdb.enum_value("TR_WOULDBLOCK")
    for name, rv, ty, exp in (("serial notify", 0, notify, 0), ("other pdu", 0, 3, -1), ("timeout", wb, None, 0), ("transport error", -1, None, -1)):
        again = []

        def classify(inst, E, st, rv=rv, ty=ty, again=again):
            if inst.op == "call" and inst.callee == "rtr_receive_pdu":
                if st.get("recv") == "1":
                    again.append(1)      # the wait is resumed inside the function instead of through the state machine's next round
                    return flow.KILL
                return [(["=recv:1"], {inst.ref: flow.av_in(rv)})]
            if inst.op == "call" and inst.callee == "rtr_get_pdu_type" and ty is not None:
                return [([], {inst.ref: flow.av_in(ty)})]
            return None
        outs, fl = es.count_effects(fn, pdb, classify, retsets)
        rets = {flow.av_single(o["ret"]) for o in outs}
        resumed = name == "other pdu" and not rets and bool(again)     # a stray PDU is dropped and the wait goes on (with the time left: see above)
        ctx.check(rets == {exp} or resumed, "C17.R5", "wait-outcome:%s" % name, "%s:%d" % (fn.relfile, fn.line), "returns %s (expected %d)" % (sorted(rets, key=str), exp),
                  key="C17.R5:outcome:%s" % name)
    st = pdb.enum("rtr_socket_state")
    outs = fsm.explore_arm(pdb, st["RTR_ESTABLISHED"], forks={"rtr_wait_for_sync": [-1, 0], "rtr_send_serial_query": [-1, 0]})
    good = bool(outs)
    for o in outs:
        ev = [e[:3] for e in o["events"]]
        if ("call", "rtr_wait_for_sync", 0) in ev:
            k = ev.index(("call", "rtr_wait_for_sync", 0))
            good = good and len(ev) > k + 1 and ev[k + 1][:2] == ("call", "rtr_send_serial_query")
        elif ("call", "rtr_wait_for_sync", -1) in ev:
            good = good and not any(e[:2] == ("call", "rtr_send_serial_query") for e in ev)
    ctx.check(good, "C17.R5", "established-arm-polls", "rtrlib/rtr/rtr.c", "a successful wait is followed at once by a Serial Query", key="C17.R5:poll")


def check(ctx):
    retsets = flow.return_sets(ctx.pdb)
    r1_r2(ctx)
    r3(ctx)
    r4(ctx, retsets)
    r5(ctx, retsets)
    ctx.note("interval values are only compared with constants and copied, so the representative classes (both boundaries "
             "+-1, 0, 2^31-1, 2^31, 2^32-1) are exhaustive for all 2^32 values")
    from specs import C13
    with ctx.shared({"C13.R3": ("C17.R6", "a PDU whose version differs from the negotiated one is refused at any point of the connection: the interval "
                                "fields of a version-1 End of Data never reach a version-0 session")}):
        C13.r3(ctx, retsets)
    from specs import C11
    ctx.rule("C17.R7", "the three intervals reach rtr_init in their own positions: no two same-named parameters are exchanged crosswise on the way "
             "down (library-wide check of every parameter handed on to a callee)")
    C11.no_swapped_arguments(ctx, "C17.R7")


PK = "rtrlib/rtr/packets.c"
RT = "rtrlib/rtr/rtr.c"
WITNESSES = [
    {"id": "C17.w1-clamp-swaps-min-max", "rule": "C17.R2", "file": PK,
     "old": "\t\tif (interv_retval == RTR_BELOW_INTERVAL_RANGE)\n\t\t\tapply_interval_value(rtr_socket, minimum, type);\n\t\telse\n\t\t\tapply_interval_value(rtr_socket, maximum, type);",
     "new": "\t\tif (interv_retval == RTR_BELOW_INTERVAL_RANGE)\n\t\t\tapply_interval_value(rtr_socket, maximum, type);\n\t\telse\n\t\t\tapply_interval_value(rtr_socket, minimum, type);"},
    {"id": "C17.w2-ignore-on-failure-applies", "rule": "C17.R2", "file": PK,
     "old": "\tif (interv_retval == RTR_INSIDE_INTERVAL_RANGE || interval_mode == RTR_INTERVAL_MODE_ACCEPT_ANY) {",
     "new": "\tif (interv_retval == RTR_INSIDE_INTERVAL_RANGE || interval_mode != RTR_INTERVAL_MODE_DEFAULT_MIN_MAX) {"},
    {"id": "C17.w3-range-check-off-by-one", "rule": "C17.R2", "also": ("C17.R4",), "file": PK,
     "old": "\telse if (interval > maximum)\n\t\treturn RTR_ABOVE_INTERVAL_RANGE;", "new": "\telse if (interval >= maximum)\n\t\treturn RTR_ABOVE_INTERVAL_RANGE;"},
    {"id": "C17.w4-apply-writes-wrong-field", "rule": "C17.R2", "file": PK,
     "old": "\telse if (type == RTR_INTERVAL_TYPE_REFRESH)\n\t\trtr_socket->refresh_interval = interval;", "new": "\telse if (type == RTR_INTERVAL_TYPE_REFRESH)\n\t\trtr_socket->retry_interval = interval;"},
    {"id": "C17.w5-eod-guard-drops-version", "rule": "C17.R3", "file": PK,
     "old": "\t\t\tif (eod_pdu->ver == RTR_PROTOCOL_VERSION_1 &&\n\t\t\t    rtr_socket->iv_mode != RTR_INTERVAL_MODE_IGNORE_ANY) {",
     "new": "\t\t\tif (rtr_socket->iv_mode != RTR_INTERVAL_MODE_IGNORE_ANY) {"},
    {"id": "C17.w6-retry-passed-as-refresh", "rule": "C17.R3", "file": PK,
     "old": "((struct pdu_end_of_data_v1 *)pdu)->retry_interval, RTR_INTERVAL_TYPE_RETRY);", "new": "((struct pdu_end_of_data_v1 *)pdu)->retry_interval, RTR_INTERVAL_TYPE_REFRESH);"},
    {"id": "C17.w7-init-checks-two-of-three", "rule": "C17.R4", "file": RT,
     "old": "\t    rtr_check_interval_range(retry_interval, RTR_RETRY_MIN, RTR_RETRY_MAX) != RTR_INSIDE_INTERVAL_RANGE) {",
     "new": "\t    rtr_check_interval_range(retry_interval, RTR_RETRY_MIN, RTR_RETRY_MAX) == RTR_BELOW_INTERVAL_RANGE) {"},
    {"id": "C17.w8-wait-from-expire-interval", "rule": "C17.R5", "file": PK,
     "old": "\ttime_t wait = (rtr_socket->last_update + rtr_socket->refresh_interval) - cur_time;", "new": "\ttime_t wait = (rtr_socket->last_update + rtr_socket->expire_interval) - cur_time;"},
    {"id": "C17.w9-timeout-is-an-error", "rule": "C17.R5", "file": PK,
     "old": "\t} else if (rtval == TR_WOULDBLOCK) {\n\t\tRTR_DBG1(\"Refresh interval expired\");\n\t\treturn RTR_SUCCESS;", "new": "\t} else if (rtval == TR_WOULDBLOCK) {\n\t\tRTR_DBG1(\"Refresh interval expired\");\n\t\treturn RTR_ERROR;"},
    {"id": "C17.w10-ignore-any-guard-dropped", "rule": "C17.R3", "file": PK,
     "old": "\t\t\tif (eod_pdu->ver == RTR_PROTOCOL_VERSION_1 &&\n\t\t\t    rtr_socket->iv_mode != RTR_INTERVAL_MODE_IGNORE_ANY) {",
     "new": "\t\t\tif (eod_pdu->ver == RTR_PROTOCOL_VERSION_1) {"},
    {"id": "C17.w-recv_all-full-timeout-per-attempt", "rule": "C17.R5", "file": "rtrlib/transport/transport.c",
     "old": "(len - total_recv), end_time - cur_time);", "new": "(len - total_recv), timeout);"},
    {"id": "C17.w-init-accepts-zero-expire", "rule": "C17.R4", "file": "rtrlib/rtr/rtr.c",
     "old": "\t    rtr_check_interval_range(expire_interval, RTR_EXPIRATION_MIN, RTR_EXPIRATION_MAX) !=\n\t\t    RTR_INSIDE_INTERVAL_RANGE ||",
     "new": "\t    (expire_interval != 0 &&\n\t     rtr_check_interval_range(expire_interval, RTR_EXPIRATION_MIN, RTR_EXPIRATION_MAX) !=\n\t\t     RTR_INSIDE_INTERVAL_RANGE) ||"},
    {"id": "C17.w-tcp-recv-always-blocking", "rule": "C17.R5", "file": "rtrlib/transport/tcp/tcp_transport.c",
     "old": "\tif (timeout == 0) {\n\t\trtval = recv(tcp_socket->socket, pdu, len, MSG_DONTWAIT);", "new": "\tif (timeout < 0) {\n\t\trtval = recv(tcp_socket->socket, pdu, len, MSG_DONTWAIT);"},
    {"id": "C17.w-manager-crosses-expire-and-retry", "rule": "C17.R7", "file": "rtrlib/rtr_mgr.c",
     "old": "refresh_interval, expire_interval, retry_interval,", "new": "refresh_interval, retry_interval, expire_interval,"},
]
