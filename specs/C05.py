"""C05 — queries carry the last completed session and serial; foreign sessions refused.

R1 query provenance (Serial Query / Reset Query fields and length, RFC 8210 5.3/5.4)
R2 the Cache Response handler's verdict is consumed by rtr_sync before any payload is received
R3 decision table of rtr_handle_cache_response_pdu
R4 End of Data session check dominates every table update
R5 reset-versus-serial decision of the state machine; states that force a Reset Query
R6 write discipline of session_id / serial_number / request_session_id
"""
from engine import dt, es, flow, fsm, vf
from engine.pdb import AnalysisBroken
from specs import rfc8210

SOCK = ("arg", 0)
F_VERSION = ("load", ("fld", SOCK, "rtr_socket.version"))
F_SESSION = ("load", ("fld", SOCK, "rtr_socket.session_id"))
F_SERIAL = ("load", ("fld", SOCK, "rtr_socket.serial_number"))
RS = ("fld", SOCK, "rtr_socket.request_session_id")
RECV = "rtr_sync_receive_and_store_pdus"
TABLE_MUTATORS = {"rtr_update_pfx_table", "rtr_update_spki_table", "rtr_undo_update_pfx_table", "rtr_undo_update_spki_table",
                  "pfx_table_add", "pfx_table_remove", "pfx_table_src_remove", "spki_table_add_entry",
                  "spki_table_remove_entry", "spki_table_src_remove", "pfx_table_swap", "spki_table_swap"}


def r1(ctx):
    pdb = ctx.pdb
    ctx.rule("C05.R1", "Serial Query = (version, type 1, session_id, length 12, serial_number) of the socket, 12 bytes sent; "
             "Reset Query = (version, type 2, zero, length 8), 8 bytes sent")
    want = {
        "rtr_send_serial_query": (1, {0: F_VERSION, 1: ("c", 1), 2: F_SESSION, 4: ("c", 12), 8: F_SERIAL}, 12),
        "rtr_send_reset_query": (2, {0: F_VERSION, 1: ("c", 2), 2: ("c", 0), 4: ("c", 8)}, 8),
    }
    for fname, (ptype, fields, total) in want.items():
        fn = pdb.fn(fname)
        ctx.touch(fn)
        sends = fn.calls("rtr_send_pdu")
        ctx.floor("C05.R1", len(sends), 1)
        for c in sends:
            al = vf.alloca_of(fn, c.args[1])
            if al is None:
                raise AnalysisBroken("%s: PDU is not a local struct any more" % fname)
            stores = vf.local_struct_stores(fn, pdb, al)
            byoff = {}
            for (f, off, size, ve, st) in stores:
                if fn.dom(st, c):
                    byoff[off] = (f, size, ve, st)
            layout = {o: s for (n, o, s) in rfc8210.PDU[ptype][2]}
            for off, exp in sorted(fields.items()):
                got = byoff.get(off)
                good = got is not None and got[2] == exp and got[1] == layout[off]
                ctx.check(good, "C05.R1", "%s:offset%d" % (fname, off), (got[3].loc() if got else c.loc()),
                          "bytes %d..%d <- %s (expected %s)" % (off, off + layout[off] - 1, vf.show(got[2]) if got else "nothing", vf.show(exp)),
                          key="C05.R1:%s:off%d" % (fname, off), expected=vf.show(exp), found=vf.show(got[2]) if got else None)
            extra = [o for o in byoff if o not in fields]
            ln = vf.expr(fn, c.args[2])
            ctx.check(ln == ("c", total) and not extra and al["elsize"] == total, "C05.R1", "%s:bytes-sent" % fname, c.loc(),
                      "sends %s bytes of a %d-byte struct (RFC: %d)" % (vf.show(ln), al["elsize"], total), key="C05.R1:%s:len" % fname)
        # the function sends its own kind of query on every path, whatever the socket holds (serial 0 is a serial like any other:
        # the choice between the two queries is made by the state machine, R5) - exactly one PDU, no other sender called
        other = "rtr_send_reset_query" if fname == "rtr_send_serial_query" else "rtr_send_serial_query"
        outs_q, _f = es.count_effects(fn, pdb, lambda i, E, st_, other=other: (["send"] if i.op == "call" and i.callee == "rtr_send_pdu" else
                                                                                (["other-query"] if i.op == "call" and i.callee == other else None)), None)
        badq = [o for o in outs_q if o["counts"].get("send", 0) != 1 or o["counts"].get("other-query")]
        ctx.check(bool(outs_q) and not badq, "C05.R1", "%s:one-pdu-of-its-own-kind-on-every-path" % fname, "%s:%d" % (fn.relfile, fn.line),
                  ("a path sends %d PDU(s) itself and calls %s %d time(s)" % (badq[0]["counts"].get("send", 0), other, badq[0]["counts"].get("other-query", 0))) if badq else
                  "every path sends exactly the PDU assembled here", key="C05.R1:%s:own-kind" % fname)


def r2(ctx, retsets):
    pdb = ctx.pdb
    ctx.rule("C05.R2", "rtr_sync consults the result of rtr_handle_cache_response_pdu: when the handler refuses the response "
             "rtr_sync returns RTR_ERROR without receiving or applying any payload")
    fn = pdb.fn("rtr_sync")
    ctx.touch(fn)
    sites = fn.calls("rtr_handle_cache_response_pdu")
    ctx.floor("C05.R2", len(sites), 1)
    err = pdb.enum_value("RTR_ERROR")

    def classify(inst, E, st):
        if inst.op == "call":
            if inst.callee == "rtr_handle_cache_response_pdu":
                return [(["=cr:refused"], {inst.ref: flow.av_in(err)}), (["=cr:accepted"], {inst.ref: flow.av_in(0)})]
            if inst.callee == RECV:
                return ["payload"]
            if inst.callee == "rtr_set_last_update":
                return ["stamp"]
        if inst.op == "store" and vf.store_field(inst) == "rtr_socket.request_session_id":
            return ["clear_request"]
        return None
    outs, fl = es.count_effects(fn, pdb, classify, retsets)
    refused = [o for o in outs if o["counts"].get("cr") == "refused"]
    accepted = [o for o in outs if o["counts"].get("cr") == "accepted"]
    if not refused or not accepted:
        raise AnalysisBroken("rtr_sync: handler outcomes not both reachable")
    for o in refused:
        cnt = {k: v for k, v in o["counts"].items() if k in ("payload", "stamp", "clear_request")}
        good = not cnt and o["ret"] == flow.av_in(err)
        ctx.check(good, "C05.R2", "rtr_sync:handler-refused", o["inst"].loc(),
                  "after a refused Cache Response: effects %s, returns %s" % (cnt or "none", o["ret"]),
                  key="C05.R2:rtr_sync:cache-response-result", path=flow.trace_lines(fn, o["trace"]))
    ok_payload = all(o["counts"].get("payload", 0) == 1 for o in accepted)
    ctx.check(ok_payload, "C05.R2", "rtr_sync:handler-accepted", "%s:%d" % (fn.relfile, fn.line),
              "after an accepted Cache Response the payload is received exactly once on every path", key="C05.R2:rtr_sync:accepted")


def r3(ctx, retsets):
    pdb = ctx.pdb
    ctx.rule("C05.R3", "rtr_handle_cache_response_pdu: session adopted only when a session was requested; otherwise a "
             "differing session id is refused with an error report, RTR_ERROR_FATAL and RTR_ERROR, an equal one changes nothing")
    fn = pdb.fn("rtr_handle_cache_response_pdu")
    ctx.touch(fn)
    fatal = pdb.enum_value("RTR_ERROR_FATAL")
    err = pdb.enum_value("RTR_ERROR")

    def is_pdu_session(e):
        # 16-bit load at offset 2 of the PDU buffer (arg1)
        return e[0] == "load" and vf.root_of(e[1]) == ("arg", 1) and (vf.last_field(e[1]) or "").endswith(".session_id")

    for req in (1, 0):
        for same in (True, False):
            def oracle(inst, pred, a, b, E, same=same):
                if pred in ("eq", "ne") and ((a == F_SESSION and is_pdu_session(b)) or (b == F_SESSION and is_pdu_session(a))):
                    return same if pred == "eq" else not same
                return None

            def classify(inst, E, st):
                if inst.op == "store":
                    f = vf.store_field(inst)
                    if f == "rtr_socket.session_id":
                        return ["adopt" if is_pdu_session(vf.expr(fn, inst["val"])) else "session_other"]
                    if f in ("rtr_socket.serial_number", "rtr_socket.request_session_id"):
                        return ["store_" + f.split(".")[1]]
                if inst.op == "call":
                    if inst.callee in ("rtr_send_error_pdu_from_host", "rtr_send_error_pdu_from_network", "rtr_send_error_pdu"):
                        return ["report"]
                    if inst.callee == fsm.CHANGE:
                        return ["state%s" % flow.av_single(E.val(inst.args[1]))]
                return None
            outs, fl = es.count_effects(fn, pdb, classify, retsets, cell={RS: req}, oracle=oracle)
            if req:
                exp, expret = {"adopt": 1}, 0
            elif same:
                exp, expret = {}, 0
            else:
                exp, expret = {"report": 1, "state%d" % fatal: 1}, err
            cell = "request=%d,session %s" % (req, "equal" if same else "differs")
            found = [(o["counts"], flow.av_single(o["ret"])) for o in outs]
            good = bool(outs) and all(c == exp and r == expret for c, r in found)
            ctx.check(good, "C05.R3", "cache_response[%s]" % cell, "%s:%d" % (fn.relfile, fn.line),
                      "outcomes %s, expected (%s, %d)" % (found, exp, expret), key="C05.R3:%s" % cell)


def r4(ctx, retsets):
    pdb = ctx.pdb
    ctx.rule("C05.R4", "End of Data with a session id different from the socket's: no table update is reachable, an error "
             "report is sent, the socket goes to RTR_ERROR_FATAL and the function fails")
    fn = pdb.fn(RECV)
    ctx.touch(fn)
    err = pdb.enum_value("RTR_ERROR")
    found_cmp = []

    def is_eod_session(e):
        return e[0] == "load" and (vf.last_field(e[1]) or "").startswith("pdu_end_of_data") and vf.last_field(e[1]).endswith(".session_id")
    for same in (False, True):
        def oracle(inst, pred, a, b, E, same=same):
            if pred in ("eq", "ne") and ((a == F_SESSION and is_eod_session(b)) or (b == F_SESSION and is_eod_session(a))):
                found_cmp.append(inst)
                return same if pred == "eq" else not same
            return None

        def classify(inst, E, st):
            if inst.op == "call" and inst.callee:
                if inst.callee in TABLE_MUTATORS:
                    return ["mutate"]
                if inst.callee.startswith("rtr_send_error_pdu"):
                    return ["report"]
            if inst.op == "store" and vf.store_field(inst) == "rtr_socket.serial_number":
                return ["commit"]
            return None
        eod = pdb.enum_value("EOD")

        h = es.CountHooks(fn, pdb, classify, retsets, None, None, None, oracle, None)
        fl = flow.Flow(fn, h)
        fl.run()
        outs = [{"inst": i, "counts": dict(p), "ret": av, "trace": tr} for (i, p, av, f, tr) in fl.ret_states]
        if not outs:
            raise AnalysisBroken("%s: no return reached in EOD cell" % RECV)
        if not same:
            # any number of payload PDUs may precede the End of Data; whatever path is taken, nothing may be applied
            bad = [o for o in outs if o["counts"].get("mutate") or o["counts"].get("commit") or o["ret"] != flow.av_in(err)]
            ctx.check(not bad, "C05.R4", "EOD[session differs]", (bad[0]["inst"].loc() if bad else "%s:%d" % (fn.relfile, fn.line)),
                      "%d return states; offending: %s" % (len(outs), [(b["counts"], b["ret"]) for b in bad][:3]),
                      key="C05.R4:eod-session-differs")
        else:
            okc = any(o["counts"].get("commit") for o in outs)
            ctx.check(okc, "C05.R4", "EOD[session equal]", "%s:%d" % (fn.relfile, fn.line),
                      "with an equal session id the commit (serial store) is reachable", key="C05.R4:eod-session-equal")
    if not found_cmp:
        raise AnalysisBroken("%s: End-of-Data session comparison not found" % RECV)


def r5(ctx, retsets):
    pdb = ctx.pdb
    ctx.rule("C05.R5", "state machine: after a successful open a socket without session goes to RTR_RESET (whose arm sends the "
             "Reset Query), otherwise it sends a Serial Query; NO_DATA_AVAIL, NO_INCR_UPDATE_AVAIL, expiry and stop all "
             "force request_session_id = true and serial 0")
    st = pdb.enum("rtr_socket_state")
    forks = {"tr_open": [-1, 0], "rtr_send_serial_query": [-1, 0], "rtr_send_reset_query": [-1, 0]}
    # the expiry check made while connecting may itself drop the session (it sets request_session_id when the data
    # was purged): the decision has to be taken on the flag as it is after that call, not on a value read before it
    purge = pdb.fn("rtr_purge_outdated_records")
    sets_flag = any(i.op == "store" and vf.store_field(i) == "rtr_socket.request_session_id" and vf.expr(purge, i["val"]) == ("c", 1)
                    for i in purge.all_insts())
    effects = {"rtr_purge_outdated_records": [("kept", {})] + ([("expired", {RS: 1})] if sets_flag else [])}
    for req0 in (1, 0):
        outs = fsm.explore_arm(pdb, st["RTR_CONNECTING"], forks=forks, cell={RS: req0}, effects=effects)
        opened = [o for o in outs if ("call", "tr_open", 0) in [e[:3] for e in o["events"]]]
        if not opened:
            raise AnalysisBroken("CONNECTING arm: successful tr_open not found")
        for o in opened:
            ev = [e[:3] for e in o["events"]]
            expired = ("call", "rtr_purge_outdated_records", "expired") in ev
            req = 1 if expired else req0
            after = [e for e in ev[ev.index(("call", "tr_open", 0)) + 1:] if e[:2] != ("call", "rtr_purge_outdated_records")]
            if req:
                good = after == [("state", st["RTR_RESET"], after[0][2] if after else None)] or \
                    [e[:2] for e in after] == [("state", st["RTR_RESET"])]
                want = "-> RTR_RESET, no query yet"
            else:
                good = len(after) >= 1 and after[0][:2] == ("call", "rtr_send_serial_query") and \
                    not any(e[:2] == ("call", "rtr_send_reset_query") or e[:2] == ("state", st["RTR_RESET"]) for e in after)
                want = "Serial Query"
            ctx.check(good, "C05.R5", "CONNECTING[request_session_id=%d%s]" % (req0, ",data expired while connecting" if expired else ""),
                      "rtrlib/rtr/rtr.c", "after open: %s (expected %s)" % ([e[:3] for e in after], want),
                      key="C05.R5:connecting:request=%d%s" % (req0, ":expired" if expired else ""))
    outs = fsm.explore_arm(pdb, st["RTR_RESET"], forks=forks)
    good = all(any(e[:2] == ("call", "rtr_send_reset_query") for e in o["events"]) and
               not any(e[:2] == ("call", "rtr_send_serial_query") for e in o["events"]) for o in outs) and outs
    ctx.check(good, "C05.R5", "RESET-arm-sends-reset-query", "rtrlib/rtr/rtr.c", "events: %s" % [[e[:3] for e in o["events"][1:]] for o in outs],
              key="C05.R5:reset-arm")
    for K in ("RTR_ERROR_NO_DATA_AVAIL", "RTR_ERROR_NO_INCR_UPDATE_AVAIL"):
        outs = fsm.explore_arm(pdb, st[K], forks=forks)
        good = bool(outs)
        for o in outs:
            ev = [e[:3] for e in o["events"]]
            good = good and ("store", "request_session_id", 1) in ev and ("store", "serial_number", 0) in ev and \
                ("state", st["RTR_RESET"]) in [e[:2] for e in ev]
        ctx.check(good, "C05.R5", "%s-forces-reset" % K, "rtrlib/rtr/rtr.c", "events: %s" % [[e[:3] for e in o["events"][1:]] for o in outs],
                  key="C05.R5:%s" % K)
    # purge (expiry) and stop
    for fname in ("rtr_purge_outdated_records", "rtr_stop"):
        fn = pdb.fn(fname)
        ctx.touch(fn)
        removes = fn.calls("pfx_table_src_remove")
        ctx.floor("C05.R5", len(removes), 1)
        for rm in removes:
            stores = {vf.store_field(i): vf.expr(fn, i["val"]) for i in fn.all_insts() if i.op == "store" and
                      (fn.dom(rm, i) or fn.dom(i, rm)) and i.block.id in (fn.reachable_blocks(rm.block.id) | {rm.block.id} | {b.id for b in fn.blocks if fn.bdom(b.id, rm.block.id)})
                      and _same_region(fn, rm, i)}
            good = stores.get("rtr_socket.request_session_id") == ("c", 1) and stores.get("rtr_socket.serial_number") == ("c", 0)
            ctx.check(good, "C05.R5", "%s-forces-reset" % fname, rm.loc(),
                      "purge is accompanied by request_session_id = true and serial_number = 0: %s" % {k: vf.show(v) for k, v in stores.items() if k},
                      key="C05.R5:%s" % fname)


def r5_purge_asks_for_reset(ctx, retsets):
    """wherever the protocol code throws the socket's records away (expiry, stop, a roll-back that could not be completed), the socket
    no longer holds what its session and serial stand for: on every path through such a purge the function leaves with
    request_session_id set, so that the next query is a Reset Query"""
    pdb = ctx.pdb
    n = 0
    for fn in pdb.all_functions():
        if not fn.unit.startswith("rtrlib/rtr/"):
            continue
        purges = [c for c in fn.calls("pfx_table_src_remove")
                  if vf.expr(fn, c.args[0])[0] == "load" and vf.last_field(vf.expr(fn, c.args[0])[1]) == "rtr_socket.pfx_table"]
        if not purges:
            continue
        ctx.touch(fn)
        ids = {id(c) for c in purges}

        def cl(inst, E, st, ids=ids):
            if id(inst) in ids:
                return ["=purged:%d" % inst.line]
            if inst.op == "store" and vf.store_field(inst) == "rtr_socket.request_session_id":
                return ["=rs:%s" % flow.av_single(E.val(inst["val"]))]
            return None
        outs, fl = es.count_effects(fn, pdb, cl, retsets, cap=64)
        sel = [o for o in outs if o["counts"].get("purged")]
        bad = [o for o in sel if o["counts"].get("rs") != "1"]
        n += 1
        ctx.check(bool(sel) and not bad, "C05.R5", "%s:purge-asks-for-reset" % fn.name, purges[0].loc(),
                  "%d paths through a purge of the socket's records, all leave with request_session_id = true" % len(sel) if not bad else
                  "a path through the purge at line %s returns with request_session_id %s: the next query would be a Serial Query for data the socket no longer holds" % (
                      bad[0]["counts"].get("purged"), {"0": "cleared", None: "untouched"}.get(bad[0]["counts"].get("rs"), bad[0]["counts"].get("rs"))),
                  key="C05.R5:purge-reset:%s" % fn.name)
    ctx.floor("C05.R5", n, 3)


def _same_region(fn, a, b):
    """b executes on every path that executes a (same control region): mutual dominance / post-dominance"""
    if a.block.id == b.block.id:
        return True
    return (fn.bdom(a.block.id, b.block.id) and fn.bpdom(b.block.id, a.block.id)) or \
           (fn.bdom(b.block.id, a.block.id) and fn.bpdom(a.block.id, b.block.id))


def r5_error_codes(ctx, retsets):
    """what an Error Report from the cache leads to depends on its code alone: 'No Data Available' always ends in the state whose arm forces
    a Reset Query (whether or not a session existed), 'Unsupported Protocol Version' in a downgrade or FATAL, everything else in FATAL"""
    pdb = ctx.pdb
    fn = pdb.fn("rtr_handle_error_pdu")
    ctx.touch(fn)
    st = pdb.enum("rtr_socket_state")
    inv = {v: k for k, v in st.items()}
    for code in range(0, 10):
        states = set()

        def values(pe, code=code):
            return code if vf.last_field(pe) == "pdu_error.error_code" else None

        def classify(inst, E, st_):
            if inst.op == "call" and inst.callee == fsm.CHANGE:
                v = flow.av_single(E.val(inst.args[1]))
                states.add(v)
                return ["state"]
            return None
        outs, _f = es.count_effects(fn, pdb, classify, retsets, values=values)
        if code == rfc8210.ERROR_CODES["no data available"]:
            want = {st["RTR_ERROR_NO_DATA_AVAIL"]}
            good = states == want
        elif code == rfc8210.ERROR_CODES["unsupported protocol version"]:
            want = {st["RTR_FAST_RECONNECT"], st["RTR_ERROR_FATAL"]}
            good = bool(states) and states <= want
        else:
            want = {st["RTR_ERROR_FATAL"]}
            good = states == want
        good = good and bool(outs) and all(o["counts"].get("state") == 1 for o in outs)
        ctx.check(good, "C05.R5", "error-report[code %d]" % code, "%s:%d" % (fn.relfile, fn.line),
                  "socket state after the report: %s (expected %s, exactly one state change on every path)" % (
                      sorted(inv.get(x, str(x)) for x in states), sorted(inv[x] for x in want)), key="C05.R5:error-code:%d" % code)


def r6(ctx, retsets):
    pdb = ctx.pdb
    ctx.rule("C05.R6", "write discipline: request_session_id = false only after the payload was received successfully; "
             "session_id written only when adopting a requested session; serial_number only from End of Data at the commit "
             "point or as 0 together with request_session_id = true")
    n = 0
    for s in vf.stores_to_field(pdb, "rtr_socket.request_session_id"):
        n += 1
        fn = s.fn
        v = vf.expr(fn, s["val"])
        if v == ("c", 0):
            rec = fn.calls(RECV)
            good = fn.name == "rtr_sync" and bool(rec)
            if good:
                g = es.guards_of(fn, s)
                # dominated by the edge "receive function did not return RTR_ERROR"
                good = any(_is_call_cmp(fn, cond, RECV) for cond, truth, br in g)
            ctx.check(good, "C05.R6", "request_session_id=false in %s" % fn.name, s.loc(),
                      "cleared only after %s succeeded" % RECV, key="C05.R6:clear:%s" % fn.name)
        else:
            allowed = {"rtr_init", "rtr_stop", "rtr_purge_outdated_records", "rtr_fsm_start", RECV}
            ctx.check(v == ("c", 1) and fn.name in allowed, "C05.R6", "request_session_id=true in %s" % fn.name, s.loc(),
                      "value %s" % vf.show(v), key="C05.R6:set:%s" % fn.name)
    for s in vf.stores_to_field(pdb, "rtr_socket.session_id"):
        n += 1
        ctx.check(s.fn.name == "rtr_handle_cache_response_pdu", "C05.R6", "session_id written in %s" % s.fn.name, s.loc(),
                  "session id is written only by the Cache Response handler", key="C05.R6:session:%s" % s.fn.name)
    for s in vf.stores_to_field(pdb, "rtr_socket.serial_number"):
        n += 1
        fn = s.fn
        v = vf.expr(fn, s["val"])
        if v == ("c", 0):
            good = fn.name in {"rtr_init", "rtr_stop", "rtr_purge_outdated_records", "rtr_fsm_start"}
            ctx.check(good, "C05.R6", "serial_number=0 in %s" % fn.name, s.loc(), "reset of the serial number", key="C05.R6:serial0:%s" % fn.name)
        else:
            good = fn.name == RECV and v[0] == "load" and (vf.last_field(v[1]) or "").startswith("pdu_end_of_data") and \
                (vf.last_field(v[1]) or "").endswith(".sn")
            ctx.check(good, "C05.R6", "serial_number<-%s in %s" % (vf.show(v), fn.name), s.loc(),
                      "serial number taken from the End of Data PDU", key="C05.R6:serial:%s" % fn.name)
    ctx.floor("C05.R6", n, 12)


def _is_call_cmp(fn, cond, callee):
    e = vf.expr(fn, cond)
    return vf.mentions(e, lambda x: isinstance(x, tuple) and x[0] == "call" and x[1] == callee)


def check(ctx):
    retsets = flow.return_sets(ctx.pdb)
    r1(ctx)
    r2(ctx, retsets)
    r3(ctx, retsets)
    r4(ctx, retsets)
    r5(ctx, retsets)
    r5_purge_asks_for_reset(ctx, retsets)
    r5_error_codes(ctx, retsets)
    r6(ctx, retsets)
    from specs import C03
    with ctx.shared({"C03.R2": ("C05.R7", "the serial number of End of Data is stored on every path that completes the response (unconditionally, "
                                "whatever its value) and on no other path")}):
        C03.r2_r3_r4(ctx, retsets)
    from specs import C07
    with ctx.shared({"C07.R1": ("C05.R8", "the expiry check runs before every connection attempt, so a connection opened after the data expired starts "
                                "with a Reset Query whether or not the attempt succeeds")}):
        C07.r1(ctx)
    from specs import C04
    with ctx.shared({"C04.R5": ("C05.R9", "the query bytes reach the transport in order and completely: the write-until-complete loop continues behind the "
                                "bytes already written (a 12-byte Serial Query split by the transport still carries its serial number)"),
                     "C04.R3": ("C05.R10", "Error Reports of every legal size are accepted (16 bytes without encapsulated PDU and text included), so that "
                                "'No Data Available' reaches its handler and a Reset Query follows")}):
        C04.r5(ctx, retsets)
        C04.r2_r3(ctx)
    ctx.not_decided("serial-number arithmetic (none exists in the code: values are copied and compared for equality only)")
    ctx.not_decided("that the bytes reach the peer unchanged through a user transport")


PK = "rtrlib/rtr/packets.c"
RT = "rtrlib/rtr/rtr.c"
WITNESSES = [
    {"id": "C05.w1-serial-query-sn-zero", "rule": "C05.R1", "file": PK,
     "old": "\tpdu.sn = rtr_socket->serial_number;", "new": "\tpdu.sn = 0;"},
    {"id": "C05.w2-serial-query-wrong-session", "rule": "C05.R1", "file": PK,
     "old": "\tpdu.session_id = rtr_socket->session_id;\n\tpdu.len = sizeof(pdu);", "new": "\tpdu.session_id = rtr_socket->serial_number;\n\tpdu.len = sizeof(pdu);"},
    {"id": "C05.w3-undo-F1-result-dropped", "rule": "C05.R2", "file": PK,
     "old": "\t\tif (rtr_handle_cache_response_pdu(rtr_socket, pdu) == RTR_ERROR)\n\t\t\treturn RTR_ERROR;\n\t\tbreak;",
     "new": "\t\trtr_handle_cache_response_pdu(rtr_socket, pdu);\n\t\tbreak;"},
    {"id": "C05.w4-handler-adopts-unrequested", "rule": "C05.R3", "file": PK,
     "old": "\t\tif (rtr_socket->session_id != cr_pdu->session_id) {\n\t\t\tconst char txt[] =\n",
     "new": "\t\tif (rtr_socket->session_id != cr_pdu->session_id && rtr_socket->serial_number != 0) {\n\t\t\tconst char txt[] =\n"},
    {"id": "C05.w5-handler-no-error-return", "rule": "C05.R3", "file": PK,
     "old": "\t\t\trtr_change_socket_state(rtr_socket, RTR_ERROR_FATAL);\n\t\t\treturn RTR_ERROR;\n\t\t}\n\t}\n\treturn RTR_SUCCESS;\n}\n\nstatic void rtr_key_pdu_2_spki_record",
     "new": "\t\t\trtr_change_socket_state(rtr_socket, RTR_ERROR_FATAL);\n\t\t}\n\t}\n\treturn RTR_SUCCESS;\n}\n\nstatic void rtr_key_pdu_2_spki_record"},
    {"id": "C05.w6-eod-session-check-after-apply", "rule": "C05.R4", "file": PK,
     "old": "\t\t\tif (eod_pdu->session_id != rtr_socket->session_id) {\n\t\t\t\tchar txt[67];",
     "new": "\t\t\tif (eod_pdu->session_id != rtr_socket->session_id && ipv4_pdus_nindex == 0) {\n\t\t\t\tchar txt[67];"},
    {"id": "C05.w7-no-data-keeps-session", "rule": "C05.R5", "file": RT,
     "old": "\t\t\tRTR_DBG1(\"State: RTR_ERROR_NO_DATA_AVAIL\");\n\t\t\trtr_socket->request_session_id = true;\n",
     "new": "\t\t\tRTR_DBG1(\"State: RTR_ERROR_NO_DATA_AVAIL\");\n"},
    {"id": "C05.w8-connecting-serial-without-session", "rule": "C05.R5", "file": RT,
     "old": "\t\t\t} else if (rtr_socket->request_session_id) {", "new": "\t\t\t} else if (rtr_socket->request_session_id && rtr_socket->last_update == 0) {"},
    {"id": "C05.w9-clear-request-before-receive", "rule": "C05.R6", "also": ("C05.R2",), "file": PK,
     "old": "\tif (rtr_sync_receive_and_store_pdus(rtr_socket) == RTR_ERROR)\n\t\treturn RTR_ERROR;\n\n\trtr_socket->request_session_id = false;",
     "new": "\trtr_socket->request_session_id = false;\n\tif (rtr_sync_receive_and_store_pdus(rtr_socket) == RTR_ERROR)\n\t\treturn RTR_ERROR;\n"},
    {"id": "C05.w10-serial-stored-from-notify", "rule": "C05.R6", "file": PK,
     "old": "\t\t\tRTR_DBG(\"Serial Notify received (%u)\", ((struct pdu_serial_notify *)pdu)->sn);\n",
     "new": "\t\t\trtr_socket->serial_number = ((struct pdu_serial_notify *)pdu)->sn;\n"},
    {"id": "C05.w11-reset-query-len", "rule": "C05.R1", "file": PK,
     "old": "\tpdu.flags = 0;\n\tpdu.len = 8;", "new": "\tpdu.flags = 0;\n\tpdu.len = 12;"},
    {"id": "C05.w12-stop-keeps-serial", "rule": "C05.R5", "file": RT,
     "old": "\t\ttr_close(rtr_socket->tr_socket);\n\t\trtr_socket->request_session_id = true;\n\t\trtr_socket->serial_number = 0;",
     "new": "\t\ttr_close(rtr_socket->tr_socket);\n\t\trtr_socket->serial_number = 0;"},
    {"id": "C05.w-serial-zero-treated-as-no-serial", "rule": "C05.R1", "file": PK,
     "old": "\tRTR_DBG(\"sending serial query, SN: %u\", rtr_socket->serial_number);", "new": "\tif (rtr_socket->serial_number == 0)\n\t\treturn rtr_send_reset_query(rtr_socket);\n\tRTR_DBG(\"sending serial query, SN: %u\", rtr_socket->serial_number);"},
    {"id": "C05.w-no-data-is-fatal-within-a-session", "rule": "C05.R5", "file": PK,
     "old": "\t\tRTR_DBG1(\"No data available\");\n\t\trtr_change_socket_state(rtr_socket, RTR_ERROR_NO_DATA_AVAIL);",
     "new": "\t\tRTR_DBG1(\"No data available\");\n\t\tif (rtr_socket->request_session_id)\n\t\t\trtr_change_socket_state(rtr_socket, RTR_ERROR_NO_DATA_AVAIL);\n\t\telse\n\t\t\trtr_change_socket_state(rtr_socket, RTR_ERROR_FATAL);"},
    {"id": "C05.w-purge-after-failed-undo-keeps-the-session", "rule": "C05.R5", "file": "rtrlib/rtr/packets.c",
     "old": "\t\t\t\t\t\tspki_table_src_remove(rtr_socket->spki_table, rtr_socket);\n\t\t\t\t\t\trtr_socket->request_session_id = true;",
     "new": "\t\t\t\t\t\tspki_table_src_remove(rtr_socket->spki_table, rtr_socket);"},
]
