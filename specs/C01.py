"""C01 — route-origin validation agrees with RFC 6811 for every table and every query (partial).

Decided (each a necessary condition of the statement):
R1 record match table: matched <=> AS != 0, AS equal, route length <= max-length (RFC 6811 / AS0 of RFC 6483)
R2 covering test of trie_lookup: node returned <=> node length <= route length and the first <node length> bits agree;
   otherwise descend by the query bit at the current level and raise the level by one
R3 the five traversals (insert, lookup, exact lookup, remove, validation descent) agree: left child <=> query bit is
   zero, level + 1 handed down
R4 result discipline of pfx_table_validate_r: VALID only after a match, NOT FOUND only when no covering node was
   found, INVALID only after a covering node and a failed continuation; reason bookkeeping per covering node
R7 bit extraction on the two argument patterns the library uses (first bit 0 / count 1): word table of the IPv6 variant, mask table of
   the 32-bit primitive, pass-through of the IPv4 variant and the family dispatch
Not decided: that the trie has the right shape after arbitrary insert/remove histories; bit extraction for other argument patterns
(a range that starts inside one word and ends in another is wrong today, but no caller asks for one).
"""
from engine import es, flow, vf
from engine.pdb import AnalysisBroken

TP = "rtrlib/pfx/trie/trie-pfx.c"


def _pred_under(pred, rel, swapped=False):
    """truth of (a pred b) when a rel b, rel in lt/eq/gt"""
    if swapped:
        rel = {"lt": "gt", "gt": "lt", "eq": "eq"}[rel]
    return {"eq": rel == "eq", "ne": rel != "eq", "ult": rel == "lt", "slt": rel == "lt", "ule": rel != "gt", "sle": rel != "gt",
            "ugt": rel == "gt", "sgt": rel == "gt", "uge": rel != "lt", "sge": rel != "lt"}[pred]


def r1(ctx):
    pdb = ctx.pdb
    ctx.rule("C01.R1", "pfx_table_elem_matches: an element matches exactly when its AS is non-zero, equals the route's AS and the "
             "route length is <= its max-length; the function answers true on the first match and false after the last element")
    fn = pdb.fn("pfx_table_elem_matches")
    ctx.touch(fn)
    latch = {t for (t, h) in fn.back_edges()}
    if not latch:
        raise AnalysisBroken("pfx_table_elem_matches has no loop")

    def from_arg0(r, depth=0):
        """the node data handed in, or a cursor that was started from it and is moved along its element array"""
        if r == ("arg", 0):
            return True
        if isinstance(r, tuple) and r[0] == "phi" and depth < 3:
            return any(from_arg0(vf.root_of(vf.expr(fn, v)), depth + 1) for v, b in fn.insts[r[1]]["inc"] if vf.expr(fn, v) != r)
        return False

    def is_el(e, f):
        return e[0] == "load" and vf.last_field(e[1]) == "data_elem." + f and from_arg0(vf.root_of(e[1]))
    ncell = 0
    for asn_zero in (True, False):
        for asn_eq in (True, False):
            for rel in ("lt", "eq", "gt"):      # route length vs element max-length
                if asn_zero and asn_eq:
                    pass   # query AS 0 against an AS-0 record: still no match
                ncell += 1
                seen = set()

                def oracle(inst, pred, a, b, E):
                    for x, y, sw in ((a, b, False), (b, a, True)):
                        if is_el(x, "asn") and y == ("c", 0):
                            seen.add("asn0")
                            return _pred_under(pred, "eq" if asn_zero else "gt", sw)
                        if is_el(x, "asn") and y == ("arg", 1):
                            seen.add("asneq")
                            return _pred_under(pred, "eq" if asn_eq else "lt", sw)
                        if x == ("arg", 2) and is_el(y, "max_len"):
                            seen.add("len")
                            return _pred_under(pred, rel, sw)
                    return None
                continued = []

                def classify(inst, E, st):
                    if inst.op == "br" and inst.block.id in latch:
                        continued.append(1)
                        return flow.KILL
                    return None
                outs, fl = es.count_effects(fn, pdb, classify, None, oracle=oracle)
                match = (not asn_zero) and asn_eq and rel in ("lt", "eq")
                rets = {flow.av_single(o["ret"]) for o in outs}
                # the path that leaves the loop at once (no element) returns false; inside the loop: true iff match
                inloop_true = 1 in rets
                good = (inloop_true == match) and (bool(continued) == (not match)) and (0 in rets)
                cell = "AS%s0,AS%squery,len%smax" % ("=" if asn_zero else "!=", "=" if asn_eq else "!=", {"lt": "<", "eq": "=", "gt": ">"}[rel])
                ctx.check(good, "C01.R1", "match[%s]" % cell, "%s:%d" % (fn.relfile, fn.line),
                          "returns true inside the loop: %s, goes on to the next element: %s (expected match=%s); comparisons seen %s" % (inloop_true, bool(continued), match, sorted(seen)),
                          key="C01.R1:%s" % cell)
    ctx.floor("C01.R1", ncell, 12)
    # every element is examined: evaluated with three elements of 16 bytes at address 1000, none of which matches - the AS numbers
    # read must be those of the elements at 1000, 1016 and 1032 (by index or by a cursor that is moved along), then false
    esz = pdb.struct("data_elem")["size"]
    examined = []

    def classify_e(inst, E, st):
        if inst.op == "load" and vf.last_field(vf.expr(fn, inst["ptr"])) == "data_elem.asn":
            g = fn.inst(inst["ptr"])
            if g is not None and g.op == "getelementptr" and g["path"][0].startswith("["):
                b_, ix_ = flow.av_single(E.val(g["base"])), flow.av_single(E.val(g["path"][0][1:-1]))
                examined.append(b_ + ix_ * (g.d.get("elsize") or esz) if b_ is not None and ix_ is not None else None)
            else:
                examined.append(None)
        return None

    def values_e(pe):
        return {"node_data.ary": 1000, "node_data.len": 3, "data_elem.asn": 7}.get(vf.last_field(pe))
    outs_e, _f = es.count_effects(fn, pdb, classify_e, None, values=values_e, cell={1: 9}, cap=64)
    want_e = [1000 + k * esz for k in range(3)]
    good = sorted(set(examined), key=str) == want_e and {flow.av_single(o["ret"]) for o in outs_e} == {0}
    ctx.check(good, "C01.R1", "all-elements-examined", "%s:%d" % (fn.relfile, fn.line),
              "three elements at 1000, none matching: AS numbers read at %s (expected %s), then false" % (sorted(set(examined), key=str), want_e), key="C01.R1:loop")


def r2(ctx):
    pdb = ctx.pdb
    ctx.rule("C01.R2", "trie_lookup returns a node exactly when node.len <= mask_len and the first node.len bits of node prefix and "
             "query agree (both extracted from bit 0 with the same count); otherwise it descends by is_left_child(query, level) and "
             "increments the level")
    fn = pdb.fn("trie_lookup")
    ctx.touch(fn)
    gb = fn.calls("lrtr_ip_addr_get_bits")
    eq = fn.calls("lrtr_ip_addr_equal")
    ctx.floor("C01.R2", len(gb), 2)
    node = None
    shapes = []
    for c in gb:
        val, frm, num = (vf.expr(fn, a) for a in c.args[-3:])
        shapes.append((val, frm, num))
    nums = {s[2] for s in shapes}
    froms = {s[1] for s in shapes}
    vals = [s[0] for s in shapes]
    numok = len(nums) == 1 and next(iter(nums))[0] == "load" and vf.last_field(next(iter(nums))[1]) == "trie_node.len"
    valok = any(v == ("arg", 1) for v in vals) and any(v[0] == "fld" and v[2] == "trie_node.prefix" for v in vals)
    eqok = len(eq) == 1 and {vf.root_of(vf.expr(fn, a)) for a in eq[0].args} == {vf.root_of(vf.expr(fn, c.args[0])) for c in gb}
    ctx.check(numok and froms == {("c", 0)} and valok and eqok, "C01.R2", "covering-atom-shape", gb[0].loc(),
              "equal(get_bits(node.prefix, %s, %s), get_bits(query, ..)) — same count on both sides: %s, count is node.len: %s" % (
                  sorted(vf.show(f) for f in froms), sorted(vf.show(n) for n in nums), len(nums) == 1, numok), key="C01.R2:atom")
    latch = {t for (t, h) in fn.back_edges()}
    for lrel in ("lt", "eq", "gt"):
        len_le = lrel != "gt"
        for bits_eq in (True, False):
            for left in (True, False):
                descended = []

                def oracle(inst, pred, a, b, E):
                    for x, y, sw in ((a, b, False), (b, a, True)):
                        if x[0] == "load" and vf.last_field(x[1]) == "trie_node.len" and y == ("arg", 2):
                            return _pred_under(pred, lrel, sw)
                    return None

                def classify(inst, E, st):
                    if inst.op == "call" and inst.callee == "lrtr_ip_addr_equal":
                        return [([], {inst.ref: flow.av_in(1 if bits_eq else 0)})]
                    if inst.op == "call" and inst.callee == "is_left_child":
                        ok = vf.expr(fn, inst.args[0]) == ("arg", 1) and vf.expr(fn, inst.args[1]) == ("load", ("arg", 3))
                        return [(["bit" if ok else "bit_wrongargs"], {inst.ref: flow.av_in(1 if left else 0)})]
                    if inst.op == "load" and vf.last_field(vf.expr(fn, inst["ptr"])) in ("trie_node.lchild", "trie_node.rchild"):
                        return ["go_" + vf.last_field(vf.expr(fn, inst["ptr"])).split(".")[1]]
                    if inst.op == "store" and vf.expr(fn, inst["ptr"]) == ("arg", 3):
                        v = vf.expr(fn, inst["val"])
                        return ["lvl+1" if v == ("bin", "add", ("load", ("arg", 3)), ("c", 1)) else "lvl?"]
                    if inst.op == "br" and inst.block.id in latch:
                        descended.append(dict(st))
                        return flow.KILL
                    return None
                # evaluated for an existing node (arg0 != NULL): the walk ends only by returning a covering node or by running out of nodes
                outs, fl = es.count_effects(fn, pdb, classify, None, oracle=oracle, cell={0: ("nin", frozenset([0]))})
                cover = len_le and bits_eq
                rets_nonnull = [o for o in outs if o["ret"] != flow.av_in(0) and not o["counts"]]
                gave_up = [o for o in outs if o["ret"] == flow.av_in(0)]
                if gave_up:
                    ctx.violation("C01.R2", "lookup[len%smask,bits%s,%s]:gives-up" % ({"lt": "<", "eq": "=", "gt": ">"}[lrel], "=" if bits_eq else "!=", "left" if left else "right"),
                                  gave_up[0]["inst"].loc(), "returns NULL while standing on an existing node (nodes below it are never looked at)",
                                  key="C01.R2:lookup:gives-up", path=flow.trace_lines(fn, gave_up[0]["trace"]))
                exp = {"bit": 1, "go_lchild" if left else "go_rchild": 1, "lvl+1": 1}
                if cover:
                    good = bool(rets_nonnull) and not descended
                else:
                    good = bool(descended) and all({k: v for k, v in d.items()} == exp for d in descended) and not rets_nonnull
                ctx.check(good, "C01.R2", "lookup[len%smask,bits%s,%s]" % ({"lt": "<", "eq": "=", "gt": ">"}[lrel], "=" if bits_eq else "!=", "left" if left else "right"),
                          "%s:%d" % (fn.relfile, fn.line), "returns the node: %s; descends with %s" % (bool(rets_nonnull), descended[:1]),
                          key="C01.R2:lookup:%s:%s" % (lrel, bits_eq))


def r3(ctx):
    pdb = ctx.pdb
    ctx.rule("C01.R3", "all traversals choose the left child exactly when bit <level> of the key is zero and hand level+1 down: "
             "trie_insert, trie_lookup, trie_lookup_exact, trie_remove and the descent of pfx_table_validate_r; is_left_child "
             "tests one bit at position <level>")
    il = pdb.fn("is_left_child")
    ctx.touch(il)
    gb = il.calls("lrtr_ip_addr_get_bits")
    z = il.calls("lrtr_ip_addr_is_zero")
    good = len(gb) == 1 and len(z) == 1 and [vf.expr(il, a) for a in gb[0].args[-3:]] == [("arg", 0), ("arg", 1), ("c", 1)] and \
        vf.root_of(vf.expr(il, z[0].args[0])) == vf.root_of(vf.expr(il, gb[0].args[0]))
    rv = il.rets()[0]
    good = good and vf.expr(il, rv["val"])[0] == "call" and vf.expr(il, rv["val"])[1] == "lrtr_ip_addr_is_zero"
    ctx.check(good, "C01.R3", "is_left_child:shape", "%s:%d" % (il.relfile, il.line), "returns is_zero(get_bits(addr, level, 1))", key="C01.R3:is_left_child")
    n = 0
    for fname in ("trie_insert", "trie_lookup", "trie_lookup_exact", "trie_remove", "pfx_table_validate_r"):
        fn = pdb.fn(fname)
        ctx.touch(fn)
        tests = fn.calls("is_left_child") if fname != "pfx_table_validate_r" else fn.calls("lrtr_ip_addr_is_zero")
        if not tests:
            raise AnalysisBroken("%s: child selection test not found" % fname)
        for t in tests:
            n += 1
            br = None
            for u in fn.uses(t.ref):
                if u.op == "br":
                    br = u
                elif u.op in ("zext", "trunc", "icmp", "xor"):
                    for u2 in fn.uses(u.ref):
                        if u2.op == "br":
                            br = u2
                        for u3 in fn.uses(u2.ref):
                            if u3.op == "br":
                                br = u3
            if br is None:
                raise AnalysisBroken("%s: selection test does not feed a branch" % fname)
            # which edge means 'left' (test true)?
            polarity = None
            ft = flow.Flow(fn, flow.Hooks())
            ft._prep()
            f1 = ft.assume({t.ref: flow.av_in(1)}, br["cond"], True)
            polarity = True if f1 is not False else False
            wrong = []
            for i in fn.all_insts():
                if i.op != "load":
                    continue
                f = vf.last_field(vf.expr(fn, i["ptr"]))
                if f not in ("trie_node.lchild", "trie_node.rchild"):
                    continue
                on_left = es.edge_dominates(fn, br, polarity, i)
                on_right = es.edge_dominates(fn, br, not polarity, i)
                if (f.endswith("lchild") and on_right) or (f.endswith("rchild") and on_left):
                    wrong.append(i)
            some = any(es.edge_dominates(fn, br, polarity, i) and vf.last_field(vf.expr(fn, i["ptr"])) == "trie_node.lchild" for i in fn.all_insts() if i.op == "load")
            ctx.check(not wrong and some, "C01.R3", "%s:polarity@%d" % (fname, tests.index(t) + 1), (wrong[0].loc() if wrong else t.loc()),
                      "left child on the zero-bit edge, right child on the other", key="C01.R3:%s:polarity" % fname)
            # level: argument of the test and what is handed down
            if fname == "pfx_table_validate_r":
                g = fn.calls("lrtr_ip_addr_get_bits")[0]
                key_ok = vf.expr(fn, g.args[-3]) == ("arg", 4) and vf.expr(fn, g.args[-1]) == ("c", 1)
                lks = fn.calls("trie_lookup")
                al = vf.expr(fn, lks[0].args[3]) if lks else None
                pass_ok = bool(lks) and all(vf.expr(fn, c.args[3]) == al and vf.expr(fn, c.args[1]) == ("arg", 4) and vf.expr(fn, c.args[2]) == ("arg", 5) for c in lks)
                # evaluated, not matched: every lookup leaves the depth of the node it returned in the level variable (here: 7);
                # the bit tested to choose the child is then bit 7, and the lookup below that child starts at depth 8
                seen = {"bits": [], "next": []}

                def cl(inst, E, st, al=al, seen=seen):
                    if inst.op == "call" and inst.callee == "lrtr_ip_addr_get_bits":
                        seen["bits"].append(flow.av_single(E.val(inst.args[-2])))
                        return ["=tested:1"]
                    if inst.op == "call" and inst.callee == "trie_lookup":
                        if st.get("tested") == "1":
                            seen["next"].append(flow.av_single(E.facts.get(("M", al))))
                        return [(["=tested:0"], {("M", al): flow.av_in(7)})]
                    return None
                es.count_effects(fn, pdb, cl, None, cap=64)
                lvl_ok = al is not None and bool(seen["bits"]) and bool(seen["next"]) and set(seen["bits"]) == {7} and set(seen["next"]) == {8}
                ctx.check(key_ok and lvl_ok and pass_ok, "C01.R3", "%s:level" % fname, g.loc(),
                          "bit <lvl> of the queried prefix, lvl incremented once per descent, child lookups continue with that lvl and the same query", key="C01.R3:%s:level" % fname)
            else:
                larg = vf.expr(fn, t.args[1])
                rec = [c for c in fn.calls(fname) if fn.dom(t, c)]
                if rec:
                    lvl_ok = all(vf.expr(fn, c.args[-1]) == ("bin", "add", larg, ("c", 1)) for c in rec)
                elif larg[0] == "phi":
                    # an iterative descent with the level in a local: every value that reaches the loop variable from inside the
                    # loop is level + 1 (the others are its initial value)
                    ph = fn.inst("%%%d" % larg[1])
                    incs = [vf.expr(fn, v) for v, b in ph["inc"]]
                    inner = [e for e in incs if vf.mentions(e, lambda x: x == larg)]
                    lvl_ok = bool(inner) and all(e == ("bin", "add", larg, ("c", 1)) for e in inner)
                else:
                    st = [i for i in fn.all_insts() if i.op == "store" and ("load", vf.expr(fn, i["ptr"])) == larg]
                    lvl_ok = any(vf.expr(fn, i["val"]) == ("bin", "add", larg, ("c", 1)) for i in st)
                ctx.check(lvl_ok, "C01.R3", "%s:level@%d" % (fname, tests.index(t) + 1), t.loc(), "level %s tested, level+1 handed down" % vf.show(larg),
                          key="C01.R3:%s:level" % fname)
    ctx.floor("C01.R3", n, 5)
    # the level stays the depth of the node the walk is at: one step to a child = level + 1, the step back to the parent = level - 1
    for fname in ("trie_lookup", "trie_lookup_exact"):
        fn = pdb.fn(fname)
        bad, npaths = _level_follows_depth(fn)
        ctx.check(not bad and npaths >= 2, "C01.R3", "%s:level-follows-depth" % fname, bad[0][0] if bad else "%s:%d" % (fn.relfile, fn.line),
                  bad[0][1] if bad else "%d paths through one loop iteration: *lvl changes by exactly the depth difference between the node at the "
                  "start of the iteration and the node continued with / returned" % npaths, key="C01.R3:%s:level-depth" % fname)


def _level_follows_depth(fn):
    LV = ("arg", 3)
    loops = fn.loops()
    if len(loops) != 1:
        raise AnalysisBroken("%s: expected one walk loop" % fn.name)
    h, body = next(iter(loops.items()))
    latch = {t for (t, hh) in fn.back_edges()}
    node_phi = None
    for phi in fn.blocks[h].insts:
        if phi.op != "phi":
            break
        if any(vf.expr(fn, v) == ("arg", 0) for v, b in phi["inc"]):
            node_phi = phi
    if node_phi is None:
        raise AnalysisBroken("%s: the node variable of the walk loop was not found" % fn.name)
    NODE = vf.expr(fn, node_phi.ref)

    def depth_of(e):
        if e == ("arg", 0):
            e = NODE      # before the loop the node passed in is the current node
        elif e[0] == "load" and e[1][0] == "fld" and e[1][1] == ("arg", 0):
            e = ("load", ("fld", NODE) + tuple(e[1][2:]))
        if e == NODE:
            return 0
        if e[0] == "load" and e[1][0] == "fld" and e[1][1] == NODE:
            f = vf.last_field(e[1])
            if f in ("trie_node.lchild", "trie_node.rchild"):
                return 1
            if f == "trie_node.parent":
                return -1
        if e == ("c", 0) or e == ("null",):
            return None
        return "?"
    at_latch = []

    def classify(inst, E, st):
        if inst.op == "store" and vf.expr(fn, inst["ptr"]) == LV:
            v = vf.expr(fn, inst["val"])
            if v in (("bin", "add", ("load", LV), ("c", 1)),):
                return ["up"]
            if v in (("bin", "add", ("load", LV), ("c", -1)), ("bin", "sub", ("load", LV), ("c", 1)), ("bin", "add", ("load", LV), ("c", 4294967295))):
                return ["down"]
            return ["other"]
        if inst.op == "br" and inst.block.id in latch:
            at_latch.append((inst, dict(st)))
            return flow.KILL
        return None
    outs, fl = es.count_effects(fn, None, classify, None, cap=96)
    bad = []
    n = 0
    # continuing: the node phi's value from the latch is a child, the level went up once
    def leaves(v, seen=()):
        e = vf.expr(fn, v)
        if e[0] == "phi" and e != NODE and e[1] not in seen:
            return [x for vv, bb in fn.insts[e[1]]["inc"] for x in leaves(vv, seen + (e[1],))]
        return [e]
    for v0, b in node_phi["inc"]:
        for ev in (leaves(v0) if b in body else []):
            if depth_of(ev) == 1:
                continue
            v = v0
            bad.append(("%s:%d" % (fn.relfile, fn.line), "the walk continues with %s, which is not a child of the current node" % vf.show(ev)))
    for inst, c in at_latch:
        n += 1
        if (c.get("up", 0), c.get("down", 0), c.get("other", 0)) != (1, 0, 0):
            bad.append((inst.loc(), "an iteration that descends to a child changes *lvl by +%d/-%d (other writes: %d), expected +1" % (c.get("up", 0), c.get("down", 0), c.get("other", 0))))
    for o in outs:
        ret = o["inst"]
        e = vf.expr(fn, ret["val"])
        if e[0] == "phi":
            tb = flow.trace_blocks(o["trace"])
            phi = fn.insts[e[1]]
            pred = None
            if phi.block.id in tb:
                k = len(tb) - 1 - tb[::-1].index(phi.block.id)
                pred = tb[k - 1] if k > 0 else None
            inc = [v for v, b in phi["inc"] if b == pred]
            if len(inc) != 1:
                raise AnalysisBroken("%s: returned value cannot be attributed to a path" % fn.name)
            e = vf.expr(fn, inc[0])
        d = depth_of(e)
        if d is None:
            continue
        n += 1
        c = o["counts"]
        delta = c.get("up", 0) - c.get("down", 0)
        if d == "?" or c.get("other", 0) or delta != d:
            bad.append((ret.loc(), "returns %s (depth %s relative to the current node) with *lvl changed by %+d" % (vf.show(e), d, delta)))
    return bad, n


def r4(ctx, retsets):
    pdb = ctx.pdb
    ctx.rule("C01.R4", "pfx_table_validate_r: *result = VALID only after pfx_table_elem_matches(node.data, asn, prefix_len) said true "
             "for a covering node; NOT_FOUND only when no covering node was found (and the reasons are cleared); INVALID only when "
             "covering nodes were found, none matched and no further one exists; with reasons requested every covering node's "
             "records are appended before the next node is examined")
    fn = pdb.fn("pfx_table_validate_r")
    ctx.touch(fn)
    pv = pdb.enum("pfxv_state")
    inv = {v: k.replace("BGP_PFXV_STATE_", "") for k, v in pv.items()}
    RESULT = ("arg", 6)
    for want_reason in (True, False):
        problems = []
        stores = []

        def classify(inst, E, st):
            if inst.op == "call" and inst.callee:
                cal = inst.callee
                if cal == "pfx_table_get_root":
                    return [(["=root:0"], {inst.ref: flow.av_in(0)}), (["=root:1"], {inst.ref: ("nin", frozenset([0]))})]
                if cal == "trie_lookup":
                    q = [vf.expr(fn, a) for a in inst.args[1:3]]
                    if q != [("arg", 4), ("arg", 5)]:
                        problems.append((inst, "lookup with %s instead of the queried prefix and length" % [vf.show(x) for x in q]))
                    if st.get("pend") == "1":
                        problems.append((inst, "next covering node searched before the previous one's records were appended to the reasons"))
                    return [(["=last:null"], {inst.ref: flow.av_in(0)}),
                            (["found", "=last:node", "=pend:%s" % ("1" if want_reason else "0")], {inst.ref: ("nin", frozenset([0]))})]
                if cal == "pfx_table_elem_matches":
                    a = [vf.expr(fn, x) for x in inst.args]
                    okargs = a[1] == ("arg", 3) and a[2] == ("arg", 5) and a[0][0] == "load" and vf.last_field(a[0][1]) == "trie_node.data"
                    if not okargs:
                        problems.append((inst, "match test on (%s) instead of (node.data, asn, prefix_len)" % ", ".join(vf.show(x) for x in a)))
                    if st.get("pend") == "1":
                        problems.append((inst, "node examined before its records were appended to the reasons"))
                    if st.get("iter", 0) >= 2:
                        return flow.KILL
                    return [(["=m:1", "iter"], {inst.ref: flow.av_in(1)}), (["=m:0", "iter"], {inst.ref: flow.av_in(0)})]
                if cal == "pfx_table_node2pfx_record":
                    return [(["=pend:0", "rec"], {inst.ref: flow.av_in(1)}), (["=pend:0", "rec_err"], {inst.ref: flow.av_in(-1)})]
                if cal == "lrtr_realloc":
                    return [([], {inst.ref: ("nin", frozenset([0]))}), (["=alloc:fail"], {inst.ref: flow.av_in(0)})]
                if cal == "pfx_table_free_reason":
                    return ["freereason"]
            if inst.op == "store" and vf.expr(fn, inst["ptr"]) == RESULT:
                v = flow.av_single(E.val(inst["val"]))
                stores.append((inst, v, dict(st)))
                return ["=res:%s" % inv.get(v, v)]
            if inst.op == "store" and vf.expr(fn, inst["ptr"]) == ("arg", 2):
                # the reason count is an output: the first value written to it must not be built from what the caller passed in
                # (the reasons of an earlier answer would stay in front of this answer's covering records)
                if st.get("rlw") != "1" and vf.mentions(vf.expr(fn, inst["val"]), lambda x: x == ("load", ("arg", 2))):
                    problems.append((inst, "the number of reasons is extended from the value the caller passed in (*reason_len is read before it "
                                           "was written): records of an earlier answer are reported in front of the covering records"))
                return ["=rlw:1"]
            return None
        cell = {("arg", 1): (("nin", frozenset([0])) if want_reason else 0), ("arg", 2): (("nin", frozenset([0])) if want_reason else 0)}
        cell = {1: cell[("arg", 1)], 2: cell[("arg", 2)]}
        outs, fl = es.count_effects(fn, pdb, classify, retsets, init=[("m", "-"), ("pend", "0"), ("last", "-"), ("root", "-")], cell=cell, cap=128)
        bad = []
        for (inst, v, st) in stores:
            name = inv.get(v, str(v))
            if name == "VALID":
                ok = st.get("m") == "1" and st.get("last") == "node"
            elif name == "NOT_FOUND":
                ok = st.get("found", 0) == 0 and (st.get("root") == "0" or st.get("last") == "null")
            elif name == "INVALID":
                ok = st.get("found", 0) >= 1 and st.get("m") == "0" and st.get("last") == "null"
            else:
                ok = False
            if not ok:
                bad.append((inst, name, st))
        tag = "reasons" if want_reason else "no-reasons"
        seen = set()
        for inst, msg in problems:
            if (inst.id, msg) not in seen:
                seen.add((inst.id, msg))
                ctx.violation("C01.R4", "validate_r[%s]:%s" % (tag, msg.split()[0]), inst.loc(), msg, key="C01.R4:bookkeeping:%s" % msg.split()[0])
        if bad:
            inst, name, st = bad[0]
            ctx.violation("C01.R4", "validate_r[%s]:result=%s" % (tag, name), inst.loc(),
                          "%s stored with: covering nodes found %s, last match %s, last lookup %s" % (name, st.get("found", 0), st.get("m"), st.get("last")),
                          key="C01.R4:result:%s" % name)
        else:
            kinds = sorted({inv.get(v, str(v)) for (_, v, _) in stores})
            ctx.check(set(kinds) == {"VALID", "NOT_FOUND", "INVALID"}, "C01.R4", "validate_r[%s]:result-discipline" % tag, "%s:%d" % (fn.relfile, fn.line),
                      "%d stores to *result, kinds %s, each under its RFC 6811 condition" % (len(stores), kinds), key="C01.R4:result-kinds")
        # per return state: success returns carry exactly one result; NOT_FOUND clears the reasons
        for o in outs:
            c = o["counts"]
            r = flow.av_single(o["ret"])
            if r == 0:
                good = c.get("res") in ("VALID", "NOT_FOUND", "INVALID") and (c.get("res") != "NOT_FOUND" or c.get("freereason", 0) >= 1)
                if c.get("res") in ("VALID", "INVALID") and want_reason:
                    good = good and c.get("rec", 0) == c.get("found", 0) and not c.get("freereason")
                if not good:
                    ctx.violation("C01.R4", "validate_r[%s]:return-state" % tag, o["inst"].loc(),
                                  "returns success with result %s, covering nodes %s, record batches %s, reasons cleared %s" % (c.get("res"), c.get("found", 0), c.get("rec", 0), c.get("freereason", 0)),
                                  key="C01.R4:return-state", path=flow.trace_lines(fn, o["trace"]))
                    break
        else:
            ctx.ok("C01.R4", "validate_r[%s]:return-states" % tag, "%s:%d" % (fn.relfile, fn.line),
                   "%d return states: one verdict per success; NOT_FOUND clears reasons; VALID/INVALID carry one record batch per covering node" % len(outs))
    # node2pfx_record copies every element of the node
    nr = pdb.fn("pfx_table_node2pfx_record")
    ctx.touch(nr)
    loops = es.index_loops(nr)
    okl = any(L["init"] == "#0" and L["bound"][0] == "load" and vf.last_field(L["bound"][1]) == "node_data.len" for L in loops)
    fields = {vf.store_field(i) for i in nr.all_insts() if i.op == "store" and vf.root_of(vf.expr(nr, i["ptr"])) == ("arg", 1)}
    cp = [c for c in nr.calls() if (c.callee or "").startswith("llvm.memcpy") and vf.root_of(vf.expr(nr, c.args[0])) == ("arg", 1)]
    fields |= {vf.last_field(vf.expr(nr, c.args[0])) for c in cp}
    want = {"pfx_record.asn", "pfx_record.prefix", "pfx_record.min_len", "pfx_record.max_len", "pfx_record.socket"}
    ctx.check(okl and want <= fields, "C01.R4", "node2pfx_record:all-elements-all-fields", "%s:%d" % (nr.relfile, nr.line),
              "loop over all elements: %s, fields written: %s" % (okl, sorted(f.split(".")[1] for f in fields if f)), key="C01.R4:node2pfx_record")
    # record i is made from element i: the per-element fields are read through the same loop index that selects the record written
    ix = [L for L in loops if L["init"] == "#0"]
    mism = []
    npairs = 0
    if ix:
        # the loop's advancing variables: its index, or a pointer that moves on by one element per iteration
        adv = set()
        for ph in nr.blocks[ix[0]["header"]].insts:
            if ph.op != "phi":
                break
            me = ("phi", ph.id)
            for v, b in ph["inc"]:
                if b in ix[0]["body"]:
                    e = vf.expr(nr, v)
                    if e in (("bin", "add", me, ("c", 1)),) or (e[0] in ("ptradd", "idx") and e[1] == me and e[2] == ("c", 1)):
                        adv.add(me)
        is_adv = lambda x: x in adv
        for st in nr.all_insts():
            if st.op != "store" or vf.root_of(vf.expr(nr, st["ptr"])) != ("arg", 1):
                continue
            f = vf.store_field(st)
            if f not in ("pfx_record.asn", "pfx_record.max_len", "pfx_record.socket"):
                continue
            npairs += 1
            dst, src = vf.expr(nr, st["ptr"]), vf.expr(nr, st["val"])
            dst_by_i = vf.mentions(dst, is_adv)
            src_by_i = src[0] == "load" and vf.mentions(src[1], is_adv) and vf.last_field(src[1]) == "data_elem." + f.split(".")[1]
            if not (dst_by_i and src_by_i):
                mism.append((st, f))
    ctx.check(bool(ix) and npairs >= 3 and not mism, "C01.R4", "node2pfx_record:record-i-from-element-i", (mism[0][0].loc() if mism else "%s:%d" % (nr.relfile, nr.line)),
              ("records[i].%s is not taken from element i of the node" % mism[0][1].split(".")[1]) if mism else
              "asn, max_len and socket of records[i] are loaded from ary[i] with the loop's own index", key="C01.R4:node2pfx_record:index")


def r7(ctx):
    """bit extraction, on the argument patterns the library uses (R2/R3 fix them: (x, 0, len) for the covering test and (x, level, 1)
    for the child choice).  The specification is the definition: bits [from, from + n) of the address, counted from the most
    significant bit, everything else zero."""
    pdb = ctx.pdb
    ctx.rule("C01.R7", "bit extraction on the library's two argument patterns (first bit 0 with any count; any first bit with count 1): "
             "lrtr_ipv6_get_bits takes from each 32-bit word exactly the overlap of [from, from+n) with that word, lrtr_get_bits's mask is "
             "exactly bits [from, from+n) of the word, the IPv4 variant and the family dispatch pass the arguments through")
    # all call sites use one of the two patterns
    pats = []
    for c in pdb.callers("lrtr_ip_addr_get_bits"):
        a = [vf.expr(c.fn, x) for x in c.args[-2:]]
        pats.append((c, a[0] == ("c", 0) or a[1] == ("c", 1)))
    ctx.check(bool(pats) and all(ok for c, ok in pats), "C01.R7", "call-patterns", ([c for c, ok in pats if not ok] or [pats[0][0]])[0].loc(),
              "%d call sites of lrtr_ip_addr_get_bits, each with first bit 0 or count 1" % len(pats), key="C01.R7:patterns")
    cells6 = [(0, q) for q in range(0, 129)] + [(f, 1) for f in range(1, 128)]
    f6 = pdb.fn("lrtr_ipv6_get_bits")
    ctx.touch(f6)
    bad = []
    for fb, q in cells6:
        calls = []

        def cl(inst, E, st):
            if inst.op == "call" and inst.callee == "lrtr_get_bits":
                e = E._concretise(vf.expr(f6, inst.args[0]))   # addr[i] inside a loop over the words: i as it is on this path
                w = e[1][2][1] if e[0] == "load" and e[1][0] == "idx" and e[1][1] == ("fld", ("arg", 0), "lrtr_ipv6_addr.addr") and e[1][2][0] == "c" else None
                dst = None
                for u in f6.uses(inst.ref):
                    if u.op == "store":
                        de = E._concretise(vf.expr(f6, u["ptr"]))
                        if de[0] == "idx" and de[2][0] == "c":
                            dst = de[2][1]
                calls.append((w, dst, flow.av_single(E.val(inst.args[1])), flow.av_single(E.val(inst.args[2]))))
            return None
        outs, _f = es.count_effects(f6, pdb, cl, None, cell={1: fb, 2: q})
        got = sorted((w, fr, n) for (w, dst, fr, n) in calls if n != 0)
        want = []
        for i in range(4):
            lo, hi = max(fb, 32 * i), min(fb + q, 32 * i + 32)
            if hi > lo:
                want.append((i, lo - 32 * i, hi - lo))
        misplaced = [c for c in calls if c[3] != 0 and c[0] != c[1]]
        if got != want or misplaced or len(outs) != 1:
            bad.append((fb, q, got, want))
    ctx.check(not bad, "C01.R7", "ipv6_get_bits:word-table", "%s:%d" % (f6.relfile, f6.line),
              ("first bit %d, count %d: words taken %s, definition %s (%d of %d cells wrong)" % (bad[0] + (len(bad), len(cells6)))) if bad else
              "%d cells: (word, first bit in the word, count) handed to lrtr_get_bits equals the overlap of the range with each word; result word i from source word i" % len(cells6),
              key="C01.R7:ipv6:words")
    # the zeroed rest: the result object is cleared before the words are filled in
    ms = [c for c in f6.calls() if (c.callee or "").startswith("llvm.memset") and vf.expr(f6, c.args[1]) == ("c", 0) and vf.expr(f6, c.args[2]) == ("c", 16)]
    ctx.check(bool(ms) and all(f6.dom(ms[0], c) for c in f6.calls("lrtr_get_bits")), "C01.R7", "ipv6_get_bits:rest-is-zero", "%s:%d" % (f6.relfile, f6.line),
              "the 16-byte result is zeroed before any word is extracted", key="C01.R7:ipv6:zero")
    # the 32-bit primitive
    g = pdb.fn("lrtr_get_bits")
    ctx.touch(g)
    cells = [(0, n) for n in range(0, 33)] + [(f, 1) for f in range(1, 32)]
    badm = []
    for fr, n in cells:
        masks = []

        def clm(inst, E, st):
            if inst.op == "and":
                for x, y in ((inst["a"], inst["b"]), (inst["b"], inst["a"])):
                    if vf.expr(g, y) == ("arg", 0):
                        masks.append(flow.av_single(E.val(x)))
            return None
        outs, _f = es.count_effects(g, pdb, clm, None, cell={1: fr, 2: n})
        want = ((0xFFFFFFFF << (32 - n)) & 0xFFFFFFFF) >> fr if n else 0
        if n == 0:
            ok = len(outs) == 1 and flow.av_single(outs[0]["ret"]) == 0 and not masks
        else:
            ok = len(outs) == 1 and len(masks) == 1 and masks[0] is not None and (masks[0] & 0xFFFFFFFF) == want
        if not ok:
            badm.append((fr, n, [hex(m & 0xFFFFFFFF) if m is not None else None for m in masks], hex(want)))
    ctx.check(not badm, "C01.R7", "get_bits:mask-table", "%s:%d" % (g.relfile, g.line),
              ("from %d, count %d: mask %s, definition %s (%d of %d cells wrong)" % (badm[0] + (len(badm), len(cells)))) if badm else
              "%d cells: result = word & mask with mask = bits [from, from+count) counted from the top; count 0 gives 0" % len(cells), key="C01.R7:get_bits:mask")
    # IPv4 variant and family dispatch
    f4 = pdb.fn("lrtr_ipv4_get_bits")
    c4 = f4.calls("lrtr_get_bits")
    ctx.check(len(c4) == 1 and [vf.expr(f4, a) for a in c4[0].args] == [("load", ("fld", ("arg", 0), "lrtr_ipv4_addr.addr")), ("arg", 1), ("arg", 2)],
              "C01.R7", "ipv4_get_bits:pass-through", "%s:%d" % (f4.relfile, f4.line), "lrtr_get_bits(val->addr, from, count)", key="C01.R7:ipv4")
    fd = pdb.fn("lrtr_ip_addr_get_bits")
    ctx.touch(fd)
    v6 = pdb.enum_value("LRTR_IPV6")
    for ver in (pdb.enum_value("LRTR_IPV4"), v6):
        def values(pe, ver=ver):
            return ver if vf.last_field(pe) == "lrtr_ip_addr.ver" and vf.root_of(pe) != ("arg", 0) else None

        def cld(inst, E, st):
            if inst.op == "call" and inst.callee in ("lrtr_ipv6_get_bits", "lrtr_ipv4_get_bits"):
                ok = [vf.expr(fd, a) for a in inst.args[-2:]] == [("arg", 2), ("arg", 3)] and vf.root_of(vf.expr(fd, inst.args[-3])) == ("arg", 1)
                return ["ask:" + ("v6" if "ipv6" in inst.callee else "v4") + ("" if ok else "?")]
            if inst.op == "store" and vf.store_field(inst) == "lrtr_ip_addr.ver":
                return ["=ver:%s" % flow.av_single(E.val(inst["val"]))]
            return None
        outs, _f = es.count_effects(fd, pdb, cld, None, values=values)
        want = {"ask:v6" if ver == v6 else "ask:v4": 1, "ver": str(ver)}
        ctx.check(bool(outs) and all(o["counts"] == want for o in outs), "C01.R7", "ip_addr_get_bits[family %d]" % ver, "%s:%d" % (fd.relfile, fd.line),
                  "effects %s (expected %s)" % ([o["counts"] for o in outs][:2], want), key="C01.R7:dispatch:%d" % ver)


def check(ctx):
    retsets = flow.return_sets(ctx.pdb)
    r1(ctx)
    r2(ctx)
    r3(ctx)
    r4(ctx, retsets)
    r7(ctx)
    from specs import C02
    with ctx.shared({"C02.R1": ("C01.R5", "the records validation reads are the records that were added: two records that differ in AS, max-length or "
                                "source are different records to add and remove (otherwise a removal deletes a sibling and answers change)")}):
        C02.r1(ctx)
    with ctx.shared({"C02.R4": ("C01.R6", "the shape the lookups rely on: node payloads move as (prefix, length, data) triples, and a removal pulls up "
                                "the child with the shorter prefix, so that a node is never longer than the nodes below it")}):
        C02.r4(ctx)
    ctx.not_decided("that the trie reaches a correct shape after arbitrary insert/remove orders (parents never longer than children, "
                    "every node on the path spelled by its prefix bits)")
    ctx.not_decided("bit extraction outside the two argument patterns of R7 (lrtr_ipv6_get_bits loses bits for a range that starts inside one "
                    "word and ends in a later one; no caller passes such a range); lrtr_ip_addr_is_zero")


TRIE = "rtrlib/pfx/trie/trie.c"
WITNESSES = [
    {"id": "C01.w1-drop-as0-test", "rule": "C01.R1", "file": TP,
     "old": "\t\tif (data->ary[i].asn != 0 && data->ary[i].asn == asn && prefix_len <= data->ary[i].max_len)", "new": "\t\tif (data->ary[i].asn == asn && prefix_len <= data->ary[i].max_len)"},
    {"id": "C01.w2-maxlen-strict", "rule": "C01.R1", "file": TP,
     "old": "data->ary[i].asn == asn && prefix_len <= data->ary[i].max_len)", "new": "data->ary[i].asn == asn && prefix_len < data->ary[i].max_len)"},
    {"id": "C01.w3-covering-strict", "rule": "C01.R2", "file": TRIE,
     "old": "\t\tif (root->len <= mask_len && lrtr_ip_addr_equal(", "new": "\t\tif (root->len < mask_len && lrtr_ip_addr_equal("},
    {"id": "C01.w4-covering-compares-mask_len-bits", "rule": "C01.R2", "file": TRIE,
     "old": "\t\t\t\t\t\t\t\tlrtr_ip_addr_get_bits(prefix, 0, root->len)))", "new": "\t\t\t\t\t\t\t\tlrtr_ip_addr_get_bits(prefix, 0, mask_len)))"},
    {"id": "C01.w5-validate-descent-children-swapped", "rule": "C01.R3", "file": TP,
     "old": "\t\t\tnode = trie_lookup(node->lchild, prefix, prefix_len, &lvl);\n\t\telse\n\t\t\tnode = trie_lookup(node->rchild, prefix, prefix_len, &lvl);",
     "new": "\t\t\tnode = trie_lookup(node->rchild, prefix, prefix_len, &lvl);\n\t\telse\n\t\t\tnode = trie_lookup(node->lchild, prefix, prefix_len, &lvl);"},
    {"id": "C01.w6-valid-on-lookup-null", "rule": "C01.R4", "file": TP,
     "old": "\t\tif (!node) {\n\t\t\tpthread_rwlock_unlock(&pfx_table->lock);\n\t\t\t*result = BGP_PFXV_STATE_INVALID;", "new": "\t\tif (!node) {\n\t\t\tpthread_rwlock_unlock(&pfx_table->lock);\n\t\t\t*result = BGP_PFXV_STATE_VALID;"},
    {"id": "C01.w7-not-found-keeps-reasons", "rule": "C01.R4", "file": TP,
     "old": "\tif (!node) {\n\t\tpthread_rwlock_unlock(&pfx_table->lock);\n\t\t*result = BGP_PFXV_STATE_NOT_FOUND;\n\t\tpfx_table_free_reason(reason, reason_len);",
     "new": "\tif (!node) {\n\t\tpthread_rwlock_unlock(&pfx_table->lock);\n\t\t*result = BGP_PFXV_STATE_NOT_FOUND;"},
    {"id": "C01.w8-insert-level-not-incremented", "rule": "C01.R3", "file": TRIE,
     "old": "\t\treturn trie_insert(root->lchild, new, lvl + 1);", "new": "\t\treturn trie_insert(root->lchild, new, lvl);"},
    {"id": "C01.w9-match-uses-min-len", "rule": "C01.R4", "file": TP,
     "old": "\twhile (!pfx_table_elem_matches(node->data, asn, prefix_len)) {", "new": "\twhile (!pfx_table_elem_matches(node->data, asn, node->len)) {"},
    {"id": "C01.w10-remove-polarity-flipped", "rule": "C01.R3", "file": TRIE,
     "old": "\tif (is_left_child(prefix, lvl)) {\n\t\tif (!root->lchild)\n\t\t\treturn NULL;\n\t\treturn trie_remove(root->lchild, prefix, mask_len, lvl + 1);\n\t}\n\n\tif (!root->rchild)\n\t\treturn NULL;\n\treturn trie_remove(root->rchild, prefix, mask_len, lvl + 1);",
     "new": "\tif (!is_left_child(prefix, lvl)) {\n\t\tif (!root->lchild)\n\t\t\treturn NULL;\n\t\treturn trie_remove(root->lchild, prefix, mask_len, lvl + 1);\n\t}\n\n\tif (!root->rchild)\n\t\treturn NULL;\n\treturn trie_remove(root->rchild, prefix, mask_len, lvl + 1);"},
    {"id": "C01.w11-reasons-skip-later-nodes", "rule": "C01.R4", "file": TP,
     "old": "\t\tif (reason_len && reason) {\n\t\t\tunsigned int r_len_old = *reason_len;", "new": "\t\tif (reason_len && reason && !*reason) {\n\t\t\tunsigned int r_len_old = *reason_len;"},
    {"id": "C01.w12-is_left_child-two-bits", "rule": "C01.R3", "file": TRIE,
     "old": "\treturn lrtr_ip_addr_is_zero(lrtr_ip_addr_get_bits(addr, lvl, 1));", "new": "\treturn lrtr_ip_addr_is_zero(lrtr_ip_addr_get_bits(addr, lvl, 2));"},
    {"id": "C01.w13-lookup_exact-parent-without-level-decrement", "rule": "C01.R3", "file": TRIE,
     "old": "\t\t\t(*lvl)--;\n\t\t\treturn root_node->parent;", "new": "\t\t\treturn root_node->parent;"},
    {"id": "C01.w14-lookup-descends-without-level-increment", "rule": "C01.R3", "file": TRIE,
     "old": "\t\t\troot = root->rchild;\n\n\t\t(*lvl)++;", "new": "\t\t\troot = root->rchild;\n\t\tif (root && root->len > mask_len)\n\t\t\tcontinue;\n\t\t(*lvl)++;"},
    {"id": "C01.w15-lookup-stops-at-depth-mask_len", "rule": "C01.R2", "file": TRIE,
     "old": "\twhile (root) {\n\t\tif (root->len <= mask_len && lrtr_ip_addr_equal(", "new": "\twhile (root && *lvl < mask_len) {\n\t\tif (root->len <= mask_len && lrtr_ip_addr_equal("},
    {"id": "C01.w16-ipv6-get-bits-forgets-the-third-word", "rule": "C01.R7", "file": "rtrlib/lib/ipv6.c",
     "old": "\t\tassert(bits_left >= q);\n\t\tbits_left -= q;\n\t\tresult.addr[2] = lrtr_get_bits(val->addr[2], fr, q);", "new": "\t\tassert(bits_left >= q);\n\t\tresult.addr[2] = lrtr_get_bits(val->addr[2], fr, q);"},
    {"id": "C01.w17-mask-one-bit-short", "rule": "C01.R7", "file": "rtrlib/lib/utils.c",
     "old": "\t\tmask = ~(mask >> number);", "new": "\t\tmask = ~(mask >> (number - 1));"},
    {"id": "C01.w18-second-word-from-the-first", "rule": "C01.R7", "file": "rtrlib/lib/ipv6.c",
     "old": "\t\tresult.addr[1] = lrtr_get_bits(val->addr[1], fr, q);", "new": "\t\tresult.addr[1] = lrtr_get_bits(val->addr[0], fr, q);"},
    {"id": "C01.w19-every-reason-from-the-first-element", "rule": "C01.R4", "file": TP,
     "old": "\t\trecords[i].asn = data->ary[i].asn;", "new": "\t\trecords[i].asn = data->ary[0].asn;"},
    {"id": "C01.w-reason-count-extended-from-input", "rule": "C01.R4", "file": TP,
     "old": "\t\t*reason_len = ((struct node_data *)node->data)->len;\n\t\t*reason = lrtr_realloc(*reason, *reason_len * sizeof(struct pfx_record));",
     "new": "\t\t*reason_len += ((struct node_data *)node->data)->len;\n\t\t*reason = lrtr_realloc(*reason, *reason_len * sizeof(struct pfx_record));"},
    {"id": "C01.w-validate-descends-without-level-step", "rule": "C01.R3", "file": TP,
     "old": "\t\t\t    prefix, lvl++,\n", "new": "\t\t\t    prefix, lvl,\n"},
]
