"""C11 — a BGPsec path is VALID only if every hop's signature verifies under its AS's key (partial).

R1 key <-> AS: the key handed to the signature check depends on the AS of the Secure_Path segment the signature
   belongs to (lookup keyed by that AS, or a comparison of the key's AS with the segment's AS guards the check)
R2 VALID only from verification: the value returned as VALID comes from validate_signature of the same hop
R3 digest layout: order, widths and byte order of everything written to the hashed stream (RFC 8205 section 4.2)
R4 size formula, per-hop offset and writer agree (9 + NLRI bytes + 6 per path segment + 22 + length per signature)
R5 precondition table: each refusal code, before any hashing, never VALID
R6 verdict mapping of validate_signature and of the hop loop
Not decided: ECDSA, SHA-256, DER parsing.
"""
from engine import es, flow, vf
from engine.pdb import AnalysisBroken

VP = "rtr_bgpsec_validate_as_path"
SKI, PATHSEG = 20, 6


def bswap_of(e):
    """('htonl'|'htons', inner expr) if e is a byte-order conversion"""
    if e[0] == "call" and e[1] in ("htonl", "htons", "llvm.bswap.i32", "llvm.bswap.i16", "__bswap_32", "__bswap_16"):
        return ("l" if ("32" in e[1] or e[1] == "htonl") else "s", e[3][0])
    return None


def cfg_order(fn):
    """position of every block in an order that follows control flow: a loop's body before what follows the loop (reverse postorder
    of a walk that takes the edges leaving a loop first); source lines do not do once helpers are inlined"""
    loops = fn.loops()

    def inner(b):
        c = [body for body in loops.values() if b in body]
        return min(c, key=len) if c else None
    seen, post = set(), []

    def succs(b):
        L = inner(b)
        ss = list(fn.blocks[b].succs)
        return sorted(ss, key=lambda x: (L is not None and x in L))
    st = [(0, iter(succs(0)))]
    seen.add(0)
    while st:
        b, it = st[-1]
        nx = next((x for x in it if x not in seen), None)
        if nx is None:
            post.append(b)
            st.pop()
        else:
            seen.add(nx)
            st.append((nx, iter(succs(nx))))
    return {b: k for k, b in enumerate(reversed(post))}


def stream_writes(pdb, fn, align_type):
    """ordered list of writes of align_byte_sequence: (region, what, length, conversion) for the given align type"""
    out = []
    pos = cfg_order(fn)
    for c in sorted(fn.calls("write_stream"), key=lambda c: (pos.get(c.block.id, 1 << 30), c.block.insts.index(c))):
        src = vf.expr(fn, c.args[1])
        ln = vf.expr(fn, c.args[2])
        conv = None
        what = src
        if src[0] == "alloca":
            st = vf.reaching_store(fn, src, c)
            if st is None:
                what = ("?",)
            else:
                v = vf.expr(fn, st["val"])
                b = bswap_of(v)
                if b:
                    conv, what = b
                else:
                    what = v
        guards = [(vf.expr(fn, g), t) for g, t, br in es.guards_of(fn, c)]
        # region: before the path loop / inside (signature part or path part) / after
        loops = fn.loops()
        inloop = any(c.block.id in body for body in loops.values())
        sigpart = any(g[0] == "icmp" and g[1] == "ne" and t and g[2][0] == "phi" and len([x for x in guards if x[1]]) >= 2 for g, t in guards) and inloop and \
            len([1 for g, t in guards if t and g[0] == "icmp" and g[1] == "ne"]) >= 2
        region = "loop-sig" if (inloop and sigpart) else ("loop-path" if inloop else ("head" if not out else "tail"))
        out.append((region, what, ln, conv, c))
    return out


def field_of(e):
    if e[0] == "load":
        e = e[1]
    f = vf.last_field(e)
    return f


def r3(ctx, rule, align_name):
    pdb = ctx.pdb
    ctx.rule(rule, "align_byte_sequence (%s): target AS (4, network order); per Secure_Path segment: [SKI 20, signature length 2 "
             "(network order), signature bytes] of the accompanying signature segment, then pCount 1, flags 1, AS 4 (network "
             "order); then algorithm 1, AFI 2 (network order), SAFI 1, NLRI length 1, NLRI ceil(bits/8) bytes; %s" % (
                 align_name, "signature segments start at the second one" if align_name == "VALIDATION" else "all existing signature segments are included"))
    fn = pdb.fn("align_byte_sequence")
    ctx.touch(fn)
    ws = stream_writes(pdb, fn, align_name)
    ctx.floor(rule, len(ws), 12)
    heads = {h for h, body in fn.loops().items() for w in ws if w[4].block.id in body}
    if len(heads) != 1:
        raise AnalysisBroken("align_byte_sequence: the segments are no longer written by one loop over both lists (%d loops write to the stream): "
                             "the order rule (signature segment, then its path segment, per round) is written for that loop" % len(heads))

    def desc(w):
        region, what, ln, conv, c = w
        return (region, field_of(what) or vf.show(what), vf.show(ln) if ln[0] != "c" else ln[1], conv)
    got = [desc(w) for w in ws]
    want = [("head", "rtr_bgpsec.target_as", 4, "l"),
            ("loop-sig", "rtr_signature_seg.ski", SKI, None), ("loop-sig", "rtr_signature_seg.sig_len", 2, "s"),
            ("loop-sig", "rtr_signature_seg.signature", None, None),
            ("loop-path", "rtr_secure_path_seg.pcount", 1, None), ("loop-path", "rtr_secure_path_seg.flags", 1, None),
            ("loop-path", "rtr_secure_path_seg.asn", 4, "l"),
            ("tail", "rtr_bgpsec.alg", 1, None), ("tail", "rtr_bgpsec.afi", 2, "s"), ("tail", "rtr_bgpsec.safi", 1, None),
            ("tail", "rtr_bgpsec_nlri.nlri_len", 1, None), ("tail", "rtr_bgpsec_nlri.nlri", None, None)]
    ok_seq = len(got) == len(want)
    mism = []
    if ok_seq:
        for g, w in zip(got, want):
            if g[0] != w[0] or g[1] != w[1] or (w[2] is not None and g[2] != w[2]) or g[3] != w[3]:
                mism.append((g, w))
    ctx.check(ok_seq and not mism, rule, "write-sequence", "%s:%d" % (fn.relfile, fn.line),
              "writes: %s" % ("as RFC 8205 4.2" if ok_seq and not mism else (mism[:2] if ok_seq else got)), key="%s:sequence" % rule,
              expected=str(want), found=str(got))
    if not ok_seq:
        return
    # variable lengths: signature bytes = its own sig_len; NLRI bytes = ceil(nlri_len / 8)
    sig_w = ws[3]
    sl = sig_w[2]
    sig_ok = sl[0] == "load" and vf.last_field(sl[1]) == "rtr_signature_seg.sig_len" and vf.root_of(sl[1]) == vf.root_of(sig_w[1][1] if sig_w[1][0] == "load" else sig_w[1])
    nl = ws[-1][2]
    nl_ok = nl[0] == "bin" and nl[1] in ("sdiv", "udiv", "lshr", "ashr") and ((nl[1].endswith("div") and nl[3] == ("c", 8)) or nl[3] == ("c", 3)) and \
        nl[2][0] == "bin" and nl[2][1] == "add" and ("c", 7) in (nl[2][2], nl[2][3]) and \
        any(x[0] == "load" and vf.last_field(x[1]) == "rtr_bgpsec_nlri.nlri_len" for x in (nl[2][2], nl[2][3]))
    ctx.check(sig_ok and nl_ok, rule, "variable-lengths", ws[3][4].loc(), "signature bytes = that segment's sig_len: %s; NLRI bytes = (nlri_len + 7) / 8: %s" % (sig_ok, nl_ok),
              key="%s:lengths" % rule)
    # the same segment supplies SKI, length and signature; path/sig pointers advance by ->next once per round
    roots = {vf.root_of(w[1][1] if w[1][0] == "load" else w[1]) for w in ws[1:4]}
    proots = {vf.root_of(w[1][1] if w[1][0] == "load" else w[1]) for w in ws[4:7]}
    ctx.check(len(roots) == 1 and len(proots) == 1 and roots != proots, rule, "one-segment-per-round", ws[1][4].loc(),
              "SKI/length/signature come from one signature segment, pCount/flags/AS from one path segment", key="%s:segments" % rule)
    adv = {}
    for ph_e, nextf in ((next(iter(roots)), "rtr_signature_seg.next"), (next(iter(proots)), "rtr_secure_path_seg.next")):
        good = False
        if ph_e[0] == "phi":
            ph = fn.insts[ph_e[1]]
            loops = fn.loops()
            for v, b in ph["inc"]:
                e = vf.expr(fn, v)
                # value on the back edge: load(next of the phi) possibly through another phi (signature may be absent)
                def is_next(e, depth=0):
                    if e == ("load", ("fld", ph_e, nextf)):
                        return True
                    if e[0] == "phi" and depth < 2:
                        p2 = fn.insts[e[1]]
                        vals = [vf.expr(fn, v2) for v2, b2 in p2["inc"]]
                        return any(is_next(x, depth + 1) for x in vals) and all(is_next(x, depth + 1) or x == ph_e for x in vals)
                    return False
                if is_next(e):
                    good = True
        adv[nextf] = good
    ctx.check(all(adv.values()), rule, "advance-by-next", "%s:%d" % (fn.relfile, fn.line), "segment pointers advance through ->next: %s" % adv, key="%s:advance" % rule)
    # start of the signature walk per alignment type
    sig_phi = next(iter(roots))
    start = None
    if sig_phi[0] == "phi":
        ph = fn.insts[sig_phi[1]]
        loops = fn.loops()
        body = next((b for h, b in loops.items() if ph.block.id == h), set())
        for v, b in ph["inc"]:
            if b not in body:
                start = vf.expr(fn, v)
    VAL = pdb.enum_value("VALIDATION")
    first = ("load", ("fld", ("arg", 0), "rtr_bgpsec.sigs"))
    second = ("load", ("fld", first, "rtr_signature_seg.next"))
    good = False
    det = vf.show(start) if start else "?"
    if start is not None and start[0] == "phi":
        p2 = fn.insts[start[1]]
        vals = {}
        for v, b in p2["inc"]:
            # which edge: guard of block b on (type == VALIDATION)
            blk = fn.blocks[b]
            g = [(vf.expr(fn, x), t) for x, t, br in es.guards_of(fn, blk.insts[-1])]
            isval = None
            for e, t in g:
                if e[0] == "icmp" and e[1] in ("eq", "ne") and ("arg", 2) in (e[2], e[3]) and ("c", VAL) in (e[2], e[3]):
                    isval = t if e[1] == "eq" else not t
            vals[isval] = vf.expr(fn, v)
        good = vals.get(True) == second and vals.get(False) == first
        det = "VALIDATION starts at %s, SIGNING at %s" % (vf.show(vals.get(True)) if vals.get(True) else "?", vf.show(vals.get(False)) if vals.get(False) else "?")
    ctx.check(good, rule, "first-signature-segment", "%s:%d" % (fn.relfile, fn.line), det, key="%s:start" % rule)
    path_phi = next(iter(proots))
    pstart = None
    if path_phi[0] == "phi":
        ph = fn.insts[path_phi[1]]
        body = next((b for h, b in fn.loops().items() if ph.block.id == h), set())
        for v, b in ph["inc"]:
            if b not in body:
                pstart = vf.expr(fn, v)
    ctx.check(pstart == ("load", ("fld", ("arg", 0), "rtr_bgpsec.path")), rule, "first-path-segment", "%s:%d" % (fn.relfile, fn.line),
              "path walk starts at %s" % (vf.show(pstart) if pstart else "?"), key="%s:path-start" % rule)


def validation_shape(pdb):
    """the rules on the validation loop (what is hashed per hop, which key, when VALID may be returned) are written for the loop that
    advances a byte offset by 'next signature's length + 28' per hop; another way of walking the stream is not recognised by matching"""
    f = pdb.fn(VP)

    def flat(e):
        if e[0] == "c":
            return e[1], []
        if e[0] == "bin" and e[1] == "add":
            a, x = flat(e[2])
            b, y = flat(e[3])
            return a + b, x + y
        return 0, [e]
    for i in f.all_insts():
        if i.op == "add":
            kk, tt = flat(vf.expr(f, i.ref))
            if SKI <= kk <= SKI + 2 + PATHSEG + 8 and len(tt) == 1 and tt[0][0] == "phi" and \
                    any(v[0] == "load" and vf.last_field(v[1]) == "rtr_signature_seg.sig_len"
                        for v in (vf.expr(f, x) for x, b in f.insts[tt[0][1]]["inc"])):
                return      # the advance (a chosen signature length + constant) is there; whether constant and choice are right is C11.R4's question
            if kk == SKI + 2 + PATHSEG and len(tt) == 1 and tt[0][0] == "load" and vf.last_field(tt[0][1]) == "rtr_signature_seg.sig_len" and \
                    vf.root_of(tt[0][1])[0] == "phi" and not f.calls("sig_seg_size"):
                return      # same loop, the length read from a segment directly
    raise AnalysisBroken("%s: the per-hop advance 'offset += <signature length> + 28' was not found - the validation loop was rewritten; "
                         "the rules on it cannot be carried over by matching" % VP)


def r4(ctx, rule):
    pdb = ctx.pdb
    ctx.rule(rule, "size formula = 9 + ceil(nlri bits / 8) + 6 per Secure_Path segment + (22 + length) per hashed signature segment, the "
             "same constants as the writer uses; validation skips the first signature segment in the size too; per-hop offset = "
             "next signature's length + 20 + 2 + 6")
    fn = pdb.fn("req_stream_size")
    ctx.touch(fn)
    e = vf.expr(fn, fn.rets()[0]["val"])

    def flat(e):
        if e[0] == "c":
            return e[1], []
        if e[0] == "bin" and e[1] == "add":
            a, x = flat(e[2])
            b, y = flat(e[3])
            return a + b, x + y
        return 0, [e]
    k, terms = flat(e)
    has_nlri = any(t[0] == "bin" and t[1] in ("sdiv", "udiv") and t[3] == ("c", 8) and t[2][0] == "bin" and t[2][1] == "add" and ("c", 7) in (t[2][2], t[2][3]) and
                   any(x[0] == "load" and vf.last_field(x[1]) == "rtr_bgpsec_nlri.nlri_len" for x in (t[2][2], t[2][3])) for t in terms)
    has_sig = any(t[0] == "call" and t[1] == "get_sig_seg_size" and t[3][0] == ("load", ("fld", ("arg", 0), "rtr_bgpsec.sigs")) and t[3][1] == ("arg", 1) for t in terms)
    has_path = any(t[0] == "bin" and t[1] == "mul" and ("c", PATHSEG) in (t[2], t[3]) and
                   any(x[0] == "load" and vf.last_field(x[1]) == "rtr_bgpsec.path_len" for x in (t[2], t[3])) for t in terms)
    ctx.check(k == 9 and has_nlri and has_sig and has_path and len(terms) == 3, rule, "req_stream_size", "%s:%d" % (fn.relfile, fn.line),
              "size = %s" % vf.show(e), key="%s:req_stream_size" % rule)
    g = pdb.fn("get_sig_seg_size")
    ctx.touch(g)
    adds = [i for i in g.all_insts() if i.op == "add"]
    per = None
    for i in adds:
        kk, tt = flat(vf.expr(g, i.ref))
        if any(t[0] == "load" and vf.last_field(t[1]) == "rtr_signature_seg.sig_len" for t in tt):
            per = (kk, tt)
    # ... and the length added in each step is the one of the segment the walk stands on (DER signatures differ in length)
    curs = {L["cur"] for L in es.walk_loops(g, "rtr_signature_seg.next")}
    own = per is not None and any(t[0] == "load" and vf.last_field(t[1]) == "rtr_signature_seg.sig_len" and vf.root_of(t[1]) in curs for t in per[1])
    ctx.check(per is not None and per[0] == SKI + 2 and own, rule, "get_sig_seg_size:per-segment", "%s:%d" % (g.relfile, g.line),
              "adds sig_len + %s per segment (expected 22); the sig_len of the segment the walk stands on: %s" % (per[0] if per else "?", own), key="%s:per-segment" % rule)
    VAL = pdb.enum_value("VALIDATION")
    skip = False
    for i in g.all_insts():
        if i.op == "icmp" and ("arg", 1) in (vf.expr(g, i["a"]), vf.expr(g, i["b"])) and ("c", VAL) in (vf.expr(g, i["a"]), vf.expr(g, i["b"])):
            skip = True
    ld = [i for i in g.all_insts() if i.op == "load" and vf.last_field(vf.expr(g, i["ptr"])) == "rtr_signature_seg.next"]
    ctx.check(skip and len(ld) >= 2, rule, "get_sig_seg_size:skips-first-for-validation", "%s:%d" % (g.relfile, g.line),
              "tests the alignment type and steps over the first segment", key="%s:skip-first" % rule)
    f = pdb.fn(VP)
    ctx.touch(f)
    offs = []
    for i in f.all_insts():
        if i.op == "add":
            kk, tt = flat(vf.expr(f, i.ref))
            if kk == SKI + 2 + PATHSEG and len(tt) == 1 and tt[0][0] == "phi":
                offs.append((i, tt[0]))
    good = False
    det = "per-hop offset expression not found"

    def is_next_len(v):
        return v[0] == "load" and vf.last_field(v[1]) == "rtr_signature_seg.sig_len" and v[1][1][0] == "load" and vf.last_field(v[1][1][1]) == "rtr_signature_seg.next"
    direct = []
    for i in f.all_insts():
        if i.op == "add":
            kk, tt = flat(vf.expr(f, i.ref))
            if kk == SKI + 2 + PATHSEG and len(tt) == 1 and tt[0][0] == "load" and vf.last_field(tt[0][1]) == "rtr_signature_seg.sig_len":
                direct.append((i, tt[0]))
    if direct and not offs:
        # the length is read from a segment where it is added, not chosen beforehand
        def last_only(i, t):      # the segment's own length only where there is no next segment (the step after the last signature)
            nx = ("load", ("fld", t[1][1], "rtr_signature_seg.next")) if t[1][0] == "fld" else None
            return nx is not None and es.Guards(f, i).zero(nx)
        good = any(is_next_len(t) for i, t in direct) and all(is_next_len(t) or last_only(i, t) for i, t in direct)
        det = "offset advances by %s + 28" % [vf.show(t) for i, t in direct]
        ctx.check(good, rule, "per-hop-offset", direct[0][0].loc(), det, key="%s:next-offset" % rule)
        return
    if offs:
        i, ph_e = offs[0]
        ph = f.insts[ph_e[1]]
        vals = [vf.expr(f, v) for v, b in ph["inc"]]
        nxt = any(v[0] == "load" and vf.last_field(v[1]) == "rtr_signature_seg.sig_len" and v[1][1][0] == "load" and vf.last_field(v[1][1][1]) == "rtr_signature_seg.next" for v in vals)
        good = nxt
        det = "next_offset = %s + 28" % [vf.show(v) for v in vals]
    ctx.check(good, rule, "per-hop-offset", offs[0][0].loc() if offs else "%s:%d" % (f.relfile, f.line), det, key="%s:next-offset" % rule)


def r1(ctx):
    pdb = ctx.pdb
    ctx.rule("C11.R1", "the router key handed to validate_signature is selected for the AS number of the Secure_Path segment that "
             "belongs to the signature segment being checked (lookup by that AS, or key.asn == segment.asn guards the call)")
    fn = pdb.fn(VP)
    ctx.touch(fn)
    calls = fn.calls("validate_signature")
    ctx.floor("C11.R1", len(calls), 1)
    for c in calls:
        rec = vf.expr(fn, c.args[2])
        root = vf.root_of(rec)
        by_lookup = False
        # which lookup filled the key array?
        for lk in fn.calls(("spki_table_get_all", "spki_table_search_by_ski")):
            outp = vf.expr(fn, lk.args[-2])
            if isinstance(root, tuple) and root == vf.root_of(outp) and lk.callee == "spki_table_get_all":
                asn = vf.expr(fn, lk.args[1])
                if vf.mentions(asn, lambda x: isinstance(x, tuple) and x[0] == "load" and vf.last_field(x[1]) == "rtr_secure_path_seg.asn"):
                    by_lookup = True
        by_guard = bool(es.Guards(fn, c).find_eq(lambda x: x[0] == "load" and vf.last_field(x[1]) == "spki_record.asn",
                                                   lambda y: y[0] == "load" and vf.last_field(y[1]) == "rtr_secure_path_seg.asn"))
        ctx.check(by_lookup or by_guard, "C11.R1", "key-selected-by-segment-AS", c.loc(),
                  "key %s: looked up by the segment's AS: %s, guarded by key.asn == segment.asn: %s" % (vf.show(rec), by_lookup, by_guard),
                  key="C11.R1:rtr_bgpsec_validate_as_path:key-as")
    # the SKI used for the lookup is the SKI of the signature segment being checked
    for lk in fn.calls(("spki_table_get_all", "spki_table_search_by_ski")):
        ski = vf.expr(fn, lk.args[-3])
        sig = [vf.expr(fn, c.args[1]) for c in calls]
        good = vf.last_field(ski) == "rtr_signature_seg.ski" and any(vf.root_of(ski) == s for s in sig)
        ctx.check(good, "C11.R1", "lookup-by-the-segment's-SKI", lk.loc(), "lookup key %s" % vf.show(ski), key="C11.R1:ski")


def r2_r6(ctx, retsets):
    pdb = ctx.pdb
    ctx.rule("C11.R2", "RTR_BGPSEC_VALID is returned only when the last thing that happened is validate_signature() == VALID for the "
             "current signature segment; a hop for which no key was tried does not inherit VALID")
    ctx.rule("C11.R6", "validate_signature: unloadable key -> ERROR; ECDSA_verify -1/0/1 -> ERROR/NOT_VALID/VALID, called on the 32-byte "
             "digest, the segment's signature bytes and length and the key loaded from the candidate record; hop loop: the "
             "first VALID key ends the key loop, any other hop verdict ends validation and is returned")
    E_ = pdb.enum("rtr_bgpsec_rtvals")
    VALID, NOTV, ERR, OK = E_["RTR_BGPSEC_VALID"], E_["RTR_BGPSEC_NOT_VALID"], E_["RTR_BGPSEC_ERROR"], E_["RTR_BGPSEC_SUCCESS"]
    fn = pdb.fn(VP)
    cont_after_fail = []

    def classify(inst, E, st):
        if inst.op == "call" and inst.callee:
            c = inst.callee
            if c == "check_router_keys":
                return [([], {inst.ref: flow.av_in(OK)})]
            if c == "align_byte_sequence":
                return [([], {inst.ref: flow.av_in(OK)})]
            if c == "rtr_bgpsec_has_algorithm_suite":
                return [([], {inst.ref: flow.av_in(OK)})]
            if c == "hash_byte_sequence":
                if st.get("hv") not in ("-", "valid"):
                    cont_after_fail.append((inst, st.get("hv")))
                if st.get("hops", 0) >= 2:
                    return flow.KILL
                return [(["hops", "=hv:none"], {inst.ref: flow.av_in(OK)}), (["=hv:hashfail"], {inst.ref: flow.av_in(ERR)})]
            if c == "spki_table_search_by_ski" or c == "spki_table_get_all":
                return [([], {inst.ref: flow.av_in(0)}), (["=hv:lookupfail"], {inst.ref: flow.av_in(-1)})]
            if c == "validate_signature":
                if st.get("tries", 0) >= 2:
                    return flow.KILL
                return [(["tries", "=hv:valid"], {inst.ref: flow.av_in(VALID)}), (["tries", "=hv:notvalid"], {inst.ref: flow.av_in(NOTV)}),
                        (["tries", "=hv:error"], {inst.ref: flow.av_in(ERR)})]
            if c in ("lrtr_malloc",):
                return [([], {inst.ref: ("nin", frozenset([0]))})]
        return None
    ALG = ("fld", ("arg", 0), "rtr_bgpsec.alg")
    # the argument checks at the top (decided by C11.R5) have passed: there is at least one signature segment
    SIGS = ("fld", ("arg", 0), "rtr_bgpsec.sigs")
    outs, fl = es.count_effects(fn, pdb, classify, retsets, init=[("hv", "-")], cell={ALG: 1, SIGS: ("nin", frozenset([0]))}, cap=160)
    if not outs:
        raise AnalysisBroken("no return state of %s" % VP)
    bad = [o for o in outs if flow.av_single(o["ret"]) == VALID and o["counts"].get("hv") != "valid"]
    anyvalid = any(flow.av_single(o["ret"]) == VALID for o in outs)
    unk = [o for o in outs if o["ret"] is None or o["ret"][0] != "in"]
    ctx.check(not bad and anyvalid and not unk, "C11.R2", "valid-only-after-verification", (bad[0]["inst"].loc() if bad else "%s:%d" % (fn.relfile, fn.line)),
              "%d return states; VALID returned with last hop event %s" % (len(outs), sorted({o["counts"].get("hv") for o in outs if flow.av_single(o["ret"]) == VALID})),
              key="C11.R2:valid-provenance", path=(flow.trace_lines(fn, bad[0]["trace"]) if bad else None))
    ctx.check(not cont_after_fail, "C11.R6", "next-hop-only-after-valid-hop", (cont_after_fail[0][0].loc() if cont_after_fail else "%s:%d" % (fn.relfile, fn.line)),
              "the next signature segment is examined only after the previous one verified" if not cont_after_fail else
              "validation goes on to the next hop although the previous hop's verdict was '%s'" % cont_after_fail[0][1], key="C11.R6:continue-after-fail")
    # hop verdict propagation
    for hv, want in (("notvalid", NOTV), ("error", ERR)):
        sel = [o for o in outs if o["counts"].get("hv") == hv]
        good = bool(sel) and all(flow.av_single(o["ret"]) == want for o in sel)
        ctx.check(good, "C11.R6", "hop-verdict-returned:%s" % hv, "%s:%d" % (fn.relfile, fn.line),
                  "a hop whose last key said %s ends validation with %s (got %s)" % (hv, want, sorted({str(flow.av_single(o["ret"])) for o in sel})), key="C11.R6:hop:%s" % hv)
    # first VALID key ends the key loop: no second try after a valid one within the same hop

    def classify2(inst, E, st):
        r = classify(inst, E, st)
        if inst.op == "call" and inst.callee == "validate_signature" and st.get("hv") == "valid":
            return ["retry_after_valid"] + (r[0][0] if isinstance(r, list) and r and isinstance(r[0], tuple) else [])
        return r
    outs2, fl2 = es.count_effects(fn, pdb, classify2, retsets, init=[("hv", "-")], cell={ALG: 1}, cap=160)
    ctx.check(not any(o["counts"].get("retry_after_valid") for o in outs2), "C11.R6", "first-valid-key-ends-key-loop", "%s:%d" % (fn.relfile, fn.line),
              "no further key is tried for a hop once one verified", key="C11.R6:break")
    # validate_signature
    vs = pdb.fn("validate_signature")
    ctx.touch(vs)
    ver = vs.calls("ECDSA_verify")
    ctx.floor("C11.R6", len(ver), 1)
    v = ver[0]
    a = [vf.expr(vs, x) for x in v.args]
    lk = vs.calls("load_public_key")
    ke = vf.expr(vs, lk[0].args[1]) if lk else ("?",)
    key_ok = len(lk) == 1 and vf.last_field(ke) == "spki_record.spki" and vf.root_of(ke) == ("arg", 2) and a[5][0] == "load" and a[5][1] == vf.expr(vs, lk[0].args[0])
    args_ok = a[1] == ("arg", 0) and a[2] == ("c", 32) and a[3] == ("load", ("fld", ("arg", 1), "rtr_signature_seg.signature")) and \
        a[4][0] == "load" and vf.last_field(a[4][1]) == "rtr_signature_seg.sig_len" and vf.root_of(a[4][1]) == ("arg", 1)
    ctx.check(key_ok and args_ok, "C11.R6", "ECDSA_verify:arguments", v.loc(), "digest (32 bytes), the segment's signature and length, key loaded from record->spki: args %s key %s" % (args_ok, key_ok),
              key="C11.R6:verify-args")
    for status, want in ((-1, ERR), (0, NOTV), (1, VALID)):
        def cl(inst, E, st, status=status):
            if inst.op == "call" and inst.callee == "load_public_key":
                return [([], {inst.ref: flow.av_in(OK)})]
            if inst.op == "call" and inst.callee == "ECDSA_verify":
                return [(["=verified:1"], {inst.ref: flow.av_in(status)})]
            return None
        o3, f3 = es.count_effects(vs, pdb, cl, retsets)
        rets = {flow.av_single(o["ret"]) for o in o3 if o["counts"].get("verified") == "1"}    # what the verification's outcome is turned into
        ctx.check(rets == {want}, "C11.R6", "verdict[ECDSA_verify=%d]" % status, "%s:%d" % (vs.relfile, vs.line), "returns %s (expected %d)" % (sorted(rets, key=str), want),
                  key="C11.R6:verdict:%d" % status)

    def cl2(inst, E, st):
        if inst.op == "call" and inst.callee == "load_public_key":
            return [([], {inst.ref: flow.av_in(E_["RTR_BGPSEC_LOAD_PUB_KEY_ERROR"])})]
        if inst.op == "call" and inst.callee == "ECDSA_verify":
            return ["verified"]
        return None
    o4, f4 = es.count_effects(vs, pdb, cl2, retsets)
    ctx.check(bool(o4) and all(flow.av_single(o["ret"]) == ERR and not o["counts"].get("verified") for o in o4), "C11.R6", "verdict[key not loadable]", "%s:%d" % (vs.relfile, vs.line),
              "returns %s without calling ECDSA_verify" % sorted({str(flow.av_single(o["ret"])) for o in o4}), key="C11.R6:verdict:nokey")


def r5(ctx, retsets, fname, rule, cells):
    pdb = ctx.pdb
    fn = pdb.fn(fname)
    ctx.touch(fn)
    E_ = pdb.enum("rtr_bgpsec_rtvals")
    HASHERS = {"hash_byte_sequence", "align_byte_sequence", "init_stream", "sign_byte_sequence", "validate_signature", "ECDSA_sign"}
    for name, cell, forks, want in cells:
        def classify(inst, E, st, forks=forks):
            if inst.op == "call" and inst.callee in forks:
                return [([], {inst.ref: flow.av_in(forks[inst.callee])})]
            if inst.op == "call" and inst.callee in HASHERS:
                return ["hashing"]
            return None
        outs, fl = es.count_effects(fn, pdb, classify, retsets, cell=cell)
        rets = {flow.av_single(o["ret"]) for o in outs}
        good = rets == {E_[want]} and not any(o["counts"].get("hashing") for o in outs)
        ctx.check(good, rule, "%s[%s]" % (fname.replace("rtr_bgpsec_", ""), name), "%s:%d" % (fn.relfile, fn.line),
                  "returns %s (expected %s=%d), hashing reached: %s" % (sorted(rets, key=str), want, E_[want], any(o["counts"].get("hashing") for o in outs)),
                  key="%s:%s:%s" % (rule, fname, name))


def validate_cells(pdb):
    D = ("arg", 0)
    NN = ("nin", frozenset([0]))
    PATH, SIGS, NLRI = ("fld", D, "rtr_bgpsec.path"), ("fld", D, "rtr_bgpsec.sigs"), ("fld", D, "rtr_bgpsec.nlri")
    PL, SL = ("fld", D, "rtr_bgpsec.path_len"), ("fld", D, "rtr_bgpsec.sigs_len")
    AFI = ("fld", ("load", NLRI), "rtr_bgpsec_nlri.afi")
    base = {0: NN, 1: NN, PATH: NN, SIGS: NN, PL: 2, SL: 2, AFI: 1}

    def dict(b, **kw):   # cells are keyed by argument numbers / address expressions, not by strings
        d = {}
        d.update(b)
        d.update(kw.pop("_", {}))
        d.update(kw)
        return d
    OKALG = {"rtr_bgpsec_has_algorithm_suite": 0}
    cells = [("data NULL", dict(base, _={0: 0}), OKALG, "RTR_BGPSEC_INVALID_ARGUMENTS"),
             ("table NULL", dict(base, _={1: 0}), OKALG, "RTR_BGPSEC_INVALID_ARGUMENTS"),
             ("path NULL", dict(base, _={PATH: 0}), OKALG, "RTR_BGPSEC_INVALID_ARGUMENTS"),
             ("sigs NULL", dict(base, _={SIGS: 0}), OKALG, "RTR_BGPSEC_INVALID_ARGUMENTS"),
             ("more path than signature segments", dict(base, _={PL: 3}), OKALG, "RTR_BGPSEC_WRONG_SEGMENT_COUNT"),
             ("fewer path than signature segments", dict(base, _={PL: 1}), OKALG, "RTR_BGPSEC_WRONG_SEGMENT_COUNT"),
             ("unsupported suite", dict(base), {"rtr_bgpsec_has_algorithm_suite": -1}, "RTR_BGPSEC_UNSUPPORTED_ALGORITHM_SUITE"),
             ("AFI 0", dict(base, _={AFI: 0}), OKALG, "RTR_BGPSEC_UNSUPPORTED_AFI"),
             ("AFI 3", dict(base, _={AFI: 3}), OKALG, "RTR_BGPSEC_UNSUPPORTED_AFI"),
             ("router key missing", dict(base), {"rtr_bgpsec_has_algorithm_suite": 0, "check_router_keys": -4}, "RTR_BGPSEC_ROUTER_KEY_NOT_FOUND")]
    return cells


def no_static_state(ctx, rule):
    """verdicts depend on the arguments only: the BGPsec units keep no mutable file-scope or function-static state"""
    pdb = ctx.pdb
    bad = []
    n = 0
    for f in pdb.all_functions():
        if not f.unit.startswith("rtrlib/bgpsec/"):
            continue
        n += 1
        for i in f.all_insts():
            refs = []
            if i.op in ("load", "store"):
                refs.append(i["ptr"])
            elif i.op == "call":
                refs += [a for a in i.args if isinstance(a, str)]
            for r_ in refs:
                r = vf.root_of(vf.expr(f, r_))
                if isinstance(r, tuple) and r[0] == "g":
                    g = pdb.glob_in(f.unit, r[1])
                    if g is not None and not g.get("const") and not pdb.has_fn(r[1]):
                        bad.append((i, r[1]))
    if bad:
        # a static object that is only touched while a mutex is held is a deliberate shared structure (a cache, a memo): whether it is
        # transparent - same verdicts as without it - is a question about its contents over the history of calls, which these rules do
        # not decide.  Unprotected static state is the hazard the rule is about and stays a violation.
        def guarded(i):
            f = i.fn
            if i.op == "call" and (i.callee or "").startswith("pthread_mutex_"):
                return True
            return any(c.callee == "pthread_mutex_lock" and f.dom(c, i) for c in f.calls("pthread_mutex_lock"))
        if all(guarded(i) for i, name in bad):
            raise AnalysisBroken("the BGPsec code now keeps a mutex-protected static object (%s, used in %s): whether such a cache leaves every "
                                 "verdict as it was is not decided by these rules" % (bad[0][1], bad[0][0].fn.name))
    ctx.check(not bad, rule, "bgpsec:no-mutable-static-state", (bad[0][0].loc() if bad else "rtrlib/bgpsec"),
              ("mutable global/static %s is used in %s: the outcome of a call depends on earlier calls" % (bad[0][1], bad[0][0].fn.name)) if bad else
              "%d functions of the BGPsec units touch no mutable global or static object" % n, key="%s:static-state" % rule)
    ctx.floor(rule, n, 10)


def no_swapped_arguments(ctx, rule):
    """parameters handed on to a callee go to the callee's parameter of the same name when it has one: a crosswise exchange of two
    same-typed arguments (target AS / own AS in the public wrappers) compiles, and no test notices while both values are equal"""
    pdb = ctx.pdb
    n = 0
    bad = []
    for f in pdb.all_functions():
        if not f.unit.startswith("rtrlib/"):
            continue
        pn = [p["name"] for p in f.params]
        for c in f.calls():
            if not c.callee:
                continue
            g = pdb.resolve(f, c.callee)
            if g is None:
                continue
            gn = [p["name"] for p in g.params]
            args = c.args[-len(gn):] if gn and len(c.args) >= len(gn) else []
            got = {}
            for k, a in enumerate(args):
                e = vf.expr(f, a)
                if e[0] == "arg" and e[1] < len(pn):
                    got[gn[k]] = pn[e[1]]
                    n += 1
            for theirs, mine in got.items():
                if theirs != mine and got.get(mine) == theirs:
                    bad.append((c, "%s(...): parameter %s receives %s and parameter %s receives %s" % (c.callee, theirs, mine, mine, theirs)))
    seen = set()
    for c, msg in bad:
        if c.id in seen:
            continue
        seen.add(c.id)
        ctx.violation(rule, "%s->%s:arguments-crossed" % (c.fn.name, c.callee), c.loc(), msg, key="%s:crossed:%s:%s" % (rule, c.fn.name, c.callee))
    if not bad:
        ctx.ok(rule, "no-crossed-arguments", "rtrlib", "%d parameters handed on to callees; none of them crosswise to a same-named parameter" % n)
    ctx.floor(rule, n, 300)


def counts_follow_lists(ctx, rule):
    """the segment counters that the precondition check compares are kept with the lists: linking a segment in raises its counter by
    one on that very path, and nothing else does"""
    pdb = ctx.pdb
    n = 0
    for fname, cnt in (("rtr_bgpsec_append_sec_path_seg", "rtr_bgpsec.path_len"), ("rtr_bgpsec_prepend_sec_path_seg", "rtr_bgpsec.path_len"),
                       ("rtr_bgpsec_append_sig_seg", "rtr_bgpsec.sigs_len"), ("rtr_bgpsec_prepend_sig_seg", "rtr_bgpsec.sigs_len")):
        if not pdb.has_fn(fname):
            continue
        fn = pdb.fn(fname)
        ctx.touch(fn)
        n += 1

        def classify(inst, E, st, fn=fn, cnt=cnt):
            if inst.op == "store":
                if vf.store_field(inst) == cnt:
                    v = vf.expr(fn, inst["val"])
                    return ["count+1" if v == ("bin", "add", ("load", vf.expr(fn, inst["ptr"])), ("c", 1)) else "count?"]
                if vf.expr(fn, inst["val"]) == ("arg", 1) and vf.root_of(vf.expr(fn, inst["ptr"])) != ("alloca",):
                    r = vf.root_of(vf.expr(fn, inst["ptr"]))
                    if not (isinstance(r, tuple) and r[0] == "alloca"):
                        return ["linked"]
                # the helper links the segment, it does not edit it: every octet of a segment is signed (RFC 8205 4.2)
                if vf.root_of(vf.expr(fn, inst["ptr"])) == ("arg", 1) and not (vf.store_field(inst) or "").endswith(".next"):
                    return ["edited:" + (vf.store_field(inst) or "?")]
            return None
        outs, _f = es.count_effects(fn, pdb, classify, None, cap=96)
        edits = sorted({k for o in outs for k in o["counts"] if k.startswith("edited:")})
        ctx.check(not edits, rule, "%s:segment-linked-unchanged" % fname, "%s:%d" % (fn.relfile, fn.line),
                  ("the new segment is modified while being linked in: %s" % edits) if edits else "only the link field of the new segment is written", key="%s:%s:edit" % (rule, fname))
        bad = [o for o in outs if o["counts"].get("count?") or o["counts"].get("count+1", 0) != o["counts"].get("linked", 0) or
               (flow.av_single(o["ret"]) in (0, None) and o["counts"].get("linked", 0) != 1 and fn.d["ret"] == "void")]
        ctx.check(bool(outs) and not bad, rule, "%s:count-follows-list" % fname, (bad[0]["inst"].loc() if bad else "%s:%d" % (fn.relfile, fn.line)),
                  ("a path links the segment %d time(s) and raises the counter %d time(s)" % (bad[0]["counts"].get("linked", 0), bad[0]["counts"].get("count+1", 0))) if bad else
                  "every path links the new segment once and raises %s once" % cnt.split(".")[1], key="%s:%s:count" % (rule, fname))
    ctx.floor(rule, n, 2)


def check(ctx):
    pdb = ctx.pdb
    retsets = flow.return_sets(pdb)
    validation_shape(pdb)
    r1(ctx)
    r2_r6(ctx, retsets)
    r3(ctx, "C11.R3", "VALIDATION")
    r4(ctx, "C11.R4")
    ctx.rule("C11.R5", "rtr_bgpsec_validate_as_path refuses NULL arguments, unequal segment counts, unsupported suite, AFI outside {1,2} "
             "and a missing router key with their specific codes, before anything is hashed")
    r5(ctx, retsets, VP, "C11.R5", validate_cells(pdb))
    no_static_state(ctx, "C11.R5")
    no_swapped_arguments(ctx, "C11.R5")
    counts_follow_lists(ctx, "C11.R5")
    # check_router_keys: every signature segment's SKI must have at least one key
    ck = pdb.fn("check_router_keys")
    ctx.touch(ck)
    E_ = pdb.enum("rtr_bgpsec_rtvals")

    def cl(inst, E, st):
        if inst.op == "call" and inst.callee in ("spki_table_search_by_ski", "spki_table_get_all"):
            return [(["lookups"], {inst.ref: flow.av_in(0)})]
        return None
    lens = [i for i in ck.all_insts() if i.op == "icmp" and i["pred"] == "eq" and ("c", 0) in (vf.expr(ck, i["a"]), vf.expr(ck, i["b"])) and
            any(x[0] == "load" and x[1][0] == "alloca" for x in (vf.expr(ck, i["a"]), vf.expr(ck, i["b"])))]
    ctx.check(len(lens) == 1 and E_["RTR_BGPSEC_ROUTER_KEY_NOT_FOUND"] in (retsets.get((ck.unit, ck.name)) or ()), "C11.R5", "check_router_keys:zero-results=>not-found",
              "%s:%d" % (ck.relfile, ck.line), "a signature segment without any key for its SKI yields ROUTER_KEY_NOT_FOUND", key="C11.R5:check_router_keys")
    # ... and the SKI looked up is the one of the segment the walk stands on: the walk variable starts at the list head and moves by .next
    for c in ck.calls("spki_table_search_by_ski"):
        e = vf.expr(ck, c.args[1])
        r = vf.root_of(e)
        walk = False
        if isinstance(r, tuple) and r[0] == "phi":
            ph = ck.insts[r[1]]
            inc = [vf.expr(ck, v) for v, b in ph["inc"]]
            walk = ("arg", 0) in inc and any(x[0] == "load" and x[1] == ("fld", r, "rtr_signature_seg.next") for x in inc)
        ctx.check(walk and vf.mentions(e, lambda x: isinstance(x, tuple) and x[0] == "fld" and x[2] == "rtr_signature_seg.ski") and vf.expr(ck, c.args[0]) == ("arg", 1),
                  "C11.R5", "check_router_keys:ski-of-the-current-segment", c.loc(),
                  "looked up: %s (the walk variable runs from the first signature segment along .next: %s)" % (vf.show(e), walk), key="C11.R5:check_router_keys:ski")
    from specs import C10
    with ctx.shared({"C10.R2": ("C11.R7", "the candidate keys of a hop are exactly the stored keys whose 20-byte SKI equals the segment's SKI (all 20 bytes "
                                "compared, every entry of the bucket / list looked at)")}):
        C10.r2(ctx, retsets)
        C10.r_walks(ctx, only=["spki_table_search_by_ski", "spki_table_get_all"])
    ctx.not_decided("ECDSA verification, SHA-256 and DER parsing (OpenSSL)")
    ctx.not_decided("that a changed signed bit changes the digest (follows from R3 + SHA-256, not checked)")


BG = "rtrlib/bgpsec/bgpsec.c"
BU = "rtrlib/bgpsec/bgpsec_utils.c"
WITNESSES = [
    {"id": "C11.w1-hop-verdict-inherited", "rule": "C11.R2", "file": BG,
     "old": "\t\tretval = hash_byte_sequence(curr, len, data->alg, &hash_result);\n\n\t\tlrtr_free(curr);\n\n\t\tif (retval != RTR_BGPSEC_SUCCESS)\n\t\t\tgoto err;\n",
     "new": "\t\tif (hash_byte_sequence(curr, len, data->alg, &hash_result) != RTR_BGPSEC_SUCCESS) {\n\t\t\tlrtr_free(curr);\n\t\t\tretval = RTR_BGPSEC_ERROR;\n\t\t\tgoto err;\n\t\t}\n\n\t\tlrtr_free(curr);\n"},
    {"id": "C11.w2-flags-before-pcount", "rule": "C11.R3", "file": BU,
     "old": "\t\twrite_stream(s, (uint8_t *)&tmp_sec->pcount, 1);\n\t\twrite_stream(s, (uint8_t *)&tmp_sec->flags, 1);", "new": "\t\twrite_stream(s, (uint8_t *)&tmp_sec->flags, 1);\n\t\twrite_stream(s, (uint8_t *)&tmp_sec->pcount, 1);"},
    {"id": "C11.w3-path-as-host-order", "rule": "C11.R3", "file": BU,
     "old": "\t\tasn = htonl(tmp_sec->asn);\n\t\twrite_stream(s, &asn, sizeof(asn));\n\t\ttmp_sec = tmp_sec->next;", "new": "\t\tasn = tmp_sec->asn;\n\t\twrite_stream(s, &asn, sizeof(asn));\n\t\ttmp_sec = tmp_sec->next;"},
    {"id": "C11.w4-validation-starts-at-first-signature", "rule": "C11.R3", "file": BU,
     "old": "\tif (type == VALIDATION)\n\t\ttmp_sig = data->sigs->next;\n\telse\n\t\ttmp_sig = data->sigs;", "new": "\ttmp_sig = data->sigs;"},
    {"id": "C11.w5-offset-without-path-segment", "rule": "C11.R4", "file": BG,
     "old": "\t\tnext_offset = tmp_sig_len + SKI_SIZE + sizeof(tmp_sig->sig_len) + SECURE_PATH_SEG_SIZE;", "new": "\t\tnext_offset = tmp_sig_len + SKI_SIZE + sizeof(tmp_sig->sig_len);"},
    {"id": "C11.w6-afi-test-or", "rule": "C11.R5", "file": BG,
     "old": "\tif ((data->nlri->afi != BGPSEC_IPV4) && (data->nlri->afi != BGPSEC_IPV6))\n\t\treturn RTR_BGPSEC_UNSUPPORTED_AFI;\n\n\t/* Make sure that all router keys are available. */",
     "new": "\tif ((data->nlri->afi < BGPSEC_IPV4))\n\t\treturn RTR_BGPSEC_UNSUPPORTED_AFI;\n\n\t/* Make sure that all router keys are available. */"},
    {"id": "C11.w7-verify-zero-is-valid", "rule": "C11.R6", "file": BU,
     "old": "\tcase 0:\n\t\tBGPSEC_DBG1(\"Validation result of signature: invalid\");\n\t\tretval = RTR_BGPSEC_NOT_VALID;\n\t\tbreak;", "new": "\tcase 0:"},
    {"id": "C11.w8-size-forgets-signature-length-field", "rule": "C11.R4", "file": BU,
     "old": "\t\tsig_segs_size += curr->sig_len + sizeof(curr->sig_len) + SKI_SIZE;", "new": "\t\tsig_segs_size += curr->sig_len + SKI_SIZE;"},
    {"id": "C11.w9-segment-count-check-dropped", "rule": "C11.R5", "file": BG,
     "old": "\tif (data->path_len != data->sigs_len)\n\t\treturn RTR_BGPSEC_WRONG_SEGMENT_COUNT;", "new": "\tif (data->path_len < data->sigs_len)\n\t\treturn RTR_BGPSEC_WRONG_SEGMENT_COUNT;"},
    {"id": "C11.w10-not-valid-hop-continues", "rule": "C11.R6", "also": ("C11.R2",), "file": BG,
     "old": "\tfor (unsigned int offset = 0, next_offset = 0; offset <= get_stream_size(s) && retval == RTR_BGPSEC_VALID;", "new": "\tfor (unsigned int offset = 0, next_offset = 0; offset <= get_stream_size(s) && retval >= RTR_BGPSEC_VALID;"},
    {"id": "C11.w11-signature-length-host-order", "rule": "C11.R3", "file": BU,
     "old": "\t\t\tuint16_t sig_len = htons(tmp_sig->sig_len);", "new": "\t\t\tuint16_t sig_len = tmp_sig->sig_len;"},
    {"id": "C11.w12-verify-with-wrong-digest-length", "rule": "C11.R6", "file": BU,
     "old": "\tstatus = ECDSA_verify(0, hash, SHA256_DIGEST_LENGTH, sig->signature, sig->sig_len, pub_key);", "new": "\tstatus = ECDSA_verify(0, hash, SKI_SIZE, sig->signature, sig->sig_len, pub_key);"},
    {"id": "C11.w-key-check-looks-up-the-first-ski-only", "rule": "C11.R5", "file": BU,
     "old": "spki_table_search_by_ski(table, (uint8_t *)curr->ski, &tmp_key, &router_keys_len);", "new": "spki_table_search_by_ski(table, (uint8_t *)sig_segs->ski, &tmp_key, &router_keys_len);"},
    {"id": "C11.w-first-appended-segment-not-counted", "rule": "C11.R5", "file": "rtrlib/bgpsec/bgpsec.c",
     "old": "\t} else {\n\t\tbgpsec->path = new_seg;\n\t}\n\n\tbgpsec->path_len++;", "new": "\t} else {\n\t\tbgpsec->path = new_seg;\n\t\treturn;\n\t}\n\n\tbgpsec->path_len++;"},
    {"id": "C11.w-prepend-normalises-the-flags", "rule": "C11.R5", "file": "rtrlib/bgpsec/bgpsec.c",
     "old": "\tif (bgpsec->path)\n\t\tnew_seg->next = bgpsec->path;\n\n\tbgpsec->path = new_seg;", "new": "\tnew_seg->flags &= 0x80;\n\tif (bgpsec->path)\n\t\tnew_seg->next = bgpsec->path;\n\n\tbgpsec->path = new_seg;"},
]
