"""C03 — a cache response is applied completely or not at all.

R1 buffer-then-apply: nothing touches a table before End of Data passed its session check
R2 commit point: the serial number is written iff the response was applied completely (and the call succeeds iff so)
R3 rollback: every failure arm undoes everything applied so far; any failed undo purges both tables of the socket
   and forces a Reset Query; every failure ends in RTR_ERROR and an error state
R4 swap/free of shadow tables: swap only on the success path; allocated shadow tables are always released silently
R5 only records of the own socket are added/removed
R6 no status result of the table / transport / sync layer is dropped (inventory of deliberate exceptions)
"""
from engine import es, flow, fsm, vf
from engine.pdb import AnalysisBroken

RECV = "rtr_sync_receive_and_store_pdus"
SOCK = ("arg", 0)
LIVE_PFX = ("load", ("fld", SOCK, "rtr_socket.pfx_table"))
LIVE_SPKI = ("load", ("fld", SOCK, "rtr_socket.spki_table"))
UPDATE = {"rtr_update_pfx_table", "rtr_update_spki_table"}
UNDO = {"rtr_undo_update_pfx_table", "rtr_undo_update_spki_table"}
PRIMS = {"pfx_table_add", "pfx_table_remove", "pfx_table_src_remove", "spki_table_add_entry", "spki_table_remove_entry",
         "spki_table_src_remove", "pfx_table_swap", "spki_table_swap"}


def mutator_closure(pdb):
    """functions of the rtr/ units from which a table mutator is reachable"""
    out = set(PRIMS)
    changed = True
    while changed:
        changed = False
        for f in pdb.all_functions():
            if f.name in out:
                continue
            for c in f.calls():
                if c.callee in out:
                    out.add(f.name)
                    changed = True
                    break
    return out


def r1(ctx, retsets):
    pdb = ctx.pdb
    ctx.rule("C03.R1", "payload PDUs are only buffered: every call that can reach a table mutator inside the receive function "
             "is dominated by 'type == End of Data' and by the passed session check; rtr_sync touches no table before it")
    fn = pdb.fn(RECV)
    ctx.touch(fn)
    M = mutator_closure(pdb)
    eod = pdb.enum_value("EOD")
    n = 0
    # the session check may sit in a helper whose verdict is tested afterwards: then it is not a dominating branch of the call, but
    # with the comparison answered 'different session' no mutator is executed on any path
    SESS = ("load", ("fld", SOCK, "rtr_socket.session_id"))
    under_mismatch = set()

    def oracle(inst, pred, a, b, E):
        if pred in ("eq", "ne") and SESS in (a, b):
            return pred == "ne"
        return None

    def classify(inst, E, st):
        if inst.op == "call" and inst.callee in M:
            under_mismatch.add(inst.id)
        return None
    es.count_effects(fn, pdb, classify, retsets, oracle=oracle, cap=96)
    for c in fn.calls():
        if not c.callee or c.callee not in M:
            continue
        n += 1
        G = es.Guards(fn, c)
        is_eod = bool(G.find_eq(lambda x: True, lambda y: y == ("c", eod)))
        sess = bool(G.find_eq(lambda x: x == SESS, lambda y: True)) or \
            (c.id not in under_mismatch and any(i.op == "icmp" and SESS in (vf.expr(fn, i["a"]), vf.expr(fn, i["b"])) for i in fn.all_insts()))
        ctx.check(is_eod and sess, "C03.R1", "%s@%s" % (c.callee, _ord(fn, c)), c.loc(),
                  "dominated by type==EOD: %s, by the passed session check: %s" % (is_eod, sess), key="C03.R1:%s" % c.callee)
    ctx.floor("C03.R1", n, 10)
    # store helpers and rtr_sync's prefix
    for h in ("rtr_store_prefix_pdu", "rtr_store_router_key_pdu", "rtr_receive_pdu", "rtr_handle_cache_response_pdu", "rtr_handle_error_pdu"):
        ctx.check(h not in M, "C03.R1", "%s:no-table-access" % h, "rtrlib/rtr/packets.c", "%s cannot reach a table mutator" % h, key="C03.R1:%s" % h)
    sy = pdb.fn("rtr_sync")
    ctx.touch(sy)
    rc = sy.calls(RECV)
    ctx.floor("C03.R1", len(rc), 1)
    early = [c for c in sy.calls() if c.callee in M and c.callee != RECV]
    ctx.check(not early, "C03.R1", "rtr_sync:only-through-receive", "%s:%d" % (sy.relfile, sy.line),
              "rtr_sync mutates tables only through %s" % RECV, key="C03.R1:rtr_sync")


def _ord(fn, inst):
    k = 0
    for c in fn.calls(inst.callee):
        k += 1
        if c is inst:
            return "#%d" % k
    return "#?"


def _flow_apply(ctx, retsets, undo_values):
    """one exploration of the receive function with forked results of update / undo / allocation calls"""
    pdb = ctx.pdb
    fn = pdb.fn(RECV)

    def classify(inst, E, st):
        if inst.op == "call" and inst.callee:
            cal = inst.callee
            if cal in UPDATE:
                return [(["upd_fail"], {inst.ref: flow.av_in(-1)}), ([], {inst.ref: flow.av_in(0)})]
            if cal in UNDO:
                return [((["undo_fail"] if v != 0 else ["undo_ok"]), {inst.ref: flow.av_in(v)}) for v in undo_values]
            if cal == "pfx_table_src_remove":
                return ["purge_pfx" if (vf.expr(fn, inst.args[0]), vf.expr(fn, inst.args[1])) == (LIVE_PFX, SOCK) else "purge_pfx_other"]
            if cal == "spki_table_src_remove":
                return ["purge_spki" if (vf.expr(fn, inst.args[0]), vf.expr(fn, inst.args[1])) == (LIVE_SPKI, SOCK) else "purge_spki_other"]
            if cal in ("pfx_table_swap", "spki_table_swap"):
                return ["swap_" + cal.split("_")[0]]
            if cal == fsm.CHANGE:
                return ["state"]
            if cal in ("pfx_table_free_without_notify", "spki_table_free_without_notify"):
                w = cal.split("_")[0]
                return ["free_" + w] + ([] if st.get("init_" + w) else ["free_uninit_" + w])
            if cal in ("pfx_table_init", "spki_table_init") and vf.expr(fn, inst.args[0]) not in (LIVE_PFX, LIVE_SPKI):
                return ["init_" + cal.split("_")[0]]
            if cal in ("pfx_table_free", "spki_table_free"):
                return ["loudfree_" + cal.split("_")[0]]
            if cal == "lrtr_malloc":
                sz = flow.av_single(E.val(inst.args[0]))
                which = "pfx" if sz == pdb.struct("pfx_table")["size"] else ("spki" if sz == pdb.struct("spki_table")["size"] else None)
                if which:
                    return [(["alloc_" + which], {inst.ref: ("nin", frozenset([0]))}), ([], {inst.ref: flow.av_in(0)})]
        if inst.op == "store":
            f = vf.store_field(inst)
            if f == "rtr_socket.serial_number":
                return ["commit"]
            if f == "rtr_socket.request_session_id" and flow.av_single(E.val(inst["val"])) == 1:
                return ["force_reset"]
        return None
    RESETTING = ("fld", SOCK, "rtr_socket.is_resetting")
    outs, fl = es.count_effects(fn, pdb, classify, retsets, cap=96, pinned=lambda pe: pe == RESETTING)
    return fn, outs


def r2_r3_r4(ctx, retsets):
    pdb = ctx.pdb
    ctx.rule("C03.R2", "the End-of-Data serial number is stored on exactly the paths that applied every buffered PDU; the "
             "function returns success on exactly those paths")
    ctx.rule("C03.R3", "failure arms: a failed undo (any non-success code the undo functions can return) purges the prefix "
             "and the router-key records of the socket from the live tables and forces a Reset Query; every failure "
             "returns RTR_ERROR after a state change; each arm undoes all families applied so far")
    ctx.rule("C03.R4", "shadow tables: swapped in only on the complete-success path, and whenever one was allocated it is "
             "released silently (free_without_notify) on every path")
    undo_vals = set()
    for u in UNDO:
        g = pdb.fn(u)
        rs = retsets.get((g.unit, g.name))
        if rs == "TOP" or not rs:
            raise AnalysisBroken("return set of %s unknown" % u)
        undo_vals |= set(rs)
    ctx.note("undo functions can return %s" % sorted(undo_vals))
    fn, outs = _flow_apply(ctx, retsets, sorted(undo_vals))
    ctx.touch(fn)
    if not outs:
        raise AnalysisBroken("no return state of %s" % RECV)
    err = pdb.enum_value("RTR_ERROR")
    nfail = ncommit = 0
    agg = {"R2": [], "R3purge": [], "R3state": [], "R4swap": [], "R4free": [], "R4init": []}
    for o in outs:
        c = o["counts"]
        ret = flow.av_single(o["ret"])
        commit = c.get("commit", 0)
        failed = c.get("upd_fail", 0)
        where = o["inst"].loc()
        path = flow.trace_lines(fn, o["trace"])
        if commit:
            ncommit += 1
        # R2
        if (commit == 1) != (ret == 0) or (commit and failed) or commit > 1 or ret not in (0, err):
            agg["R2"].append((where, "serial stored %d time(s), update failed=%s, returns %s" % (commit, bool(failed), ret), path))
        if failed:
            nfail += 1
            if c.get("undo_fail"):
                if not (c.get("purge_pfx") == 1 and c.get("purge_spki") == 1 and c.get("force_reset") == 1):
                    agg["R3purge"].append((where, "an undo failed but: purge pfx=%s spki=%s (other tables: %s) force reset=%s" % (
                        c.get("purge_pfx", 0), c.get("purge_spki", 0),
                        [k for k in c if k.endswith("_other")], c.get("force_reset", 0)), path))
            if ret != err or not c.get("state"):
                agg["R3state"].append((where, "failure arm returns %s with %d state change(s)" % (ret, c.get("state", 0)), path))
            if c.get("swap_pfx") or c.get("swap_spki"):
                agg["R4swap"].append((where, "shadow table swapped in although an update failed", path))
        for which in ("pfx", "spki"):
            if c.get("alloc_" + which) and (c.get("free_" + which) != 1 or c.get("loudfree_" + which)):
                agg["R4free"].append((where, "%s shadow table allocated but released %s time(s) silently, %s loudly" % (
                    which, c.get("free_" + which, 0), c.get("loudfree_" + which, 0)), path))
            if c.get("free_uninit_" + which):
                agg["R4init"].append((where, "%s shadow table torn down as a table (free_without_notify) on a path on which it was allocated but never initialised" % which, path))
            if not c.get("alloc_" + which) and c.get("free_" + which):
                agg["R4free"].append((where, "%s shadow table released without having been allocated" % which, path))
        if (c.get("swap_pfx", 0) != c.get("swap_spki", 0)):
            agg["R4swap"].append((where, "only one of the two tables swapped", path))
    # the reload flag is pinned across calls in the exploration above: nothing the receive function calls may write it
    writers = {i.fn.name for i in vf.stores_to_field(pdb, "rtr_socket.is_resetting")}
    reach = pdb.reachable_from([c.callee for c in fn.calls() if c.callee and pdb.has_fn(c.callee)])
    ctx.check(not (writers & reach), "C03.R4", "is_resetting-stable-during-receive", "%s:%d" % (fn.relfile, fn.line),
              "is_resetting is written in %s, none of which is reachable from the receive function's callees" % sorted(writers),
              key="C03.R4:is_resetting-writers")
    if not nfail or not ncommit:
        raise AnalysisBroken("%s: failure arms / commit not reached by the exploration" % RECV)
    for key, rule, inst, oktxt in (("R2", "C03.R2", "commit-iff-complete", "%d return states: serial stored iff every update succeeded iff return value is success" % len(outs)),
                                   ("R3purge", "C03.R3", "undo-failure=>purge-both+reset", "%d failure states: any failed undo purges both live tables and forces a reset" % nfail),
                                   ("R3state", "C03.R3", "failure=>RTR_ERROR+state", "every failure arm returns RTR_ERROR after a state change"),
                                   ("R4swap", "C03.R4", "swap-only-on-success", "both tables are swapped together and only when every update succeeded"),
                                   ("R4free", "C03.R4", "shadow-released-silently", "allocated shadow tables are released exactly once, without notifications"),
                                   ("R4init", "C03.R4", "shadow-initialised-before-teardown", "a shadow table is torn down as a table only on paths that initialised it")):
        if agg[key]:
            w, msg, path = agg[key][0]
            ctx.violation(rule, inst, w, msg + (" (+%d more states)" % (len(agg[key]) - 1) if len(agg[key]) > 1 else ""),
                          key="%s:%s" % (rule, "undo-failure" if key == "R3purge" else inst), path=path)
        else:
            ctx.ok(rule, inst, "%s:%d" % (fn.relfile, fn.line), oktxt)
    # the undo functions hand the inverse table operation's verdict through unchanged: "could not be undone" must reach the caller
    for uname, ops, flagfield in (("rtr_undo_update_pfx_table", {1: "pfx_table_remove", 0: "pfx_table_add"}, ("pdu_ipv4.flags", "pdu_ipv6.flags")),
                                  ("rtr_undo_update_spki_table", {1: "spki_table_remove_entry", 0: "spki_table_add_entry"}, ("pdu_router_key.flags",))):
        uf = pdb.fn(uname)
        ctx.touch(uf)
        codes = set()
        for opn in ops.values():
            g = pdb.fn(opn)
            rs = retsets.get((g.unit, g.name))
            codes |= set(rs) if rs and rs != "TOP" else {0, -1, -2, -3}
        bad = []
        ncell = 0
        for fl_ in (0, 1, 2):
            for code in sorted(codes) if fl_ in ops else [None]:
                ncell += 1

                def values(pe, fl_=fl_):
                    return fl_ if vf.last_field(pe) in flagfield else None

                def classify_u(inst, E, st, code=code):
                    if inst.op == "call" and inst.callee in ops.values():
                        tab_ok = vf.expr(uf, inst.args[0]) == ("arg", 1)
                        return [(["op:" + inst.callee + ("" if tab_ok else ":wrong-table")], {inst.ref: flow.av_in(code if code is not None else 0)})]
                    return None
                outs_u, _f = es.count_effects(uf, pdb, classify_u, retsets, values=values)
                for o in outs_u:
                    r = flow.av_single(o["ret"])
                    if fl_ in ops:
                        if o["counts"] != {"op:" + ops[fl_]: 1} or r != code:
                            bad.append("flags=%d, %s returns %d: effects %s, undo returns %s" % (fl_, ops[fl_], code, o["counts"], r))
                    elif o["counts"] or r in (0, None):
                        bad.append("flags=%d (neither announce nor withdraw): effects %s, undo returns %s" % (fl_, o["counts"], r))
                if not outs_u:
                    bad.append("flags=%d: no outcome" % fl_)
        ctx.check(not bad, "C03.R3", "%s:inverse-op-verdict-passed-through" % uname, "%s:%d" % (uf.relfile, uf.line),
                  bad[0] if bad else "%d cells (flags x result code of the inverse operation): the inverse operation on the given table, its result returned unchanged" % ncell,
                  key="C03.R3:%s:verdict" % uname)
    # R3 coverage of the undo loops
    loops = es.index_loops(fn)
    apply_loops = []
    for L in loops:
        ups = [c for c in fn.calls() if c.callee in UPDATE and es.in_loop_body(L, c) and
               not any(es.in_loop_body(M2, c) and M2["header"] != L["header"] and M2["body"] < L["body"] for M2 in loops)]
        if ups:
            apply_loops.append((L, ups[0]))
    apply_loops.sort(key=lambda lu: lu[1].line)
    ctx.floor("C03.R3", len(apply_loops), 3)

    def family(call):
        e = vf.expr(fn, call.args[2])
        r = vf.root_of(e)
        return r
    # decided by evaluation where the apply phase can be run on a small concrete response (three records per family, one update
    # fails): the undo calls after the failure must be exactly the records applied before it, on the table they were applied to
    from specs import _undo_eval
    ev = _undo_eval.evaluate(ctx, pdb, fn, apply_loops, retsets, UPDATE, UNDO) if len(apply_loops) == 3 else None
    if ev is not None:
        for k, (L, up) in enumerate(apply_loops):
            rows = [r for r in ev if r[0] == k]
            bad = []
            wrong = []
            for (_k, i, want, paths) in rows:
                if not paths:
                    bad.append("update #%d of this family fails: no path reaches a return" % i)
                for (got, applied, o, wt) in paths:
                    if got != want:
                        bad.append("update #%d of this family fails after %s were applied: undone %s" % (i, applied or "nothing", got or "nothing"))
                    wrong += wt
            ctx.check(not wrong, "C03.R3", "undo-same-table:arm%d" % (k + 1), up.loc(),
                      "undo calls roll back the table that was updated" if not wrong else "undo at line %s works on another table than the updates" % wrong[0],
                      key="C03.R3:undo-table:arm%d" % (k + 1))
            ctx.check(not bad, "C03.R3", "undo-coverage:arm%d(%s)" % (k + 1, up.callee), up.loc(),
                      bad[0] if bad else "evaluated with %d records per family: whichever update of this family fails, exactly the records applied before it "
                      "are undone, each once (earlier families completely, this family up to the failing record)" % _undo_eval.NREC,
                      key="C03.R3:undo-coverage:arm%d" % (k + 1))
        return
    shared = [c for c in fn.calls() if c.callee in UNDO and not any(fn.dom(up, c) for L, up in apply_loops)]
    if shared:
        raise AnalysisBroken("%s: the roll-back at line %d is one block reached from several apply loops (it belongs to no single failing "
                             "update call): how far each family is undone then depends on counters carried to that block, which the per-arm "
                             "coverage rule does not follow" % (fn.name, shared[0].line))
    fams = []
    for k, (L, up) in enumerate(apply_loops):
        fam = family(up)
        fams.append((fam, L["bound"]))
        # failure arm: undo calls inside this apply loop's body
        undos = [c for c in fn.calls() if c.callee in UNDO and fn.dom(up, c)]
        # a shared roll-back helper is handed 0 for the families that have not been applied yet: a loop from 0 to 0 undoes nothing
        undos = [u for u in undos if not any(es.in_loop_body(M2, u) and M2["bound"] == ("c", 0) and M2["init"] == "#0" for M2 in loops)]
        got = set()
        for u in undos:
            inner = [M2 for M2 in loops if es.in_loop_body(M2, u) and M2["header"] != L["header"]]
            if not inner:
                got.add((repr(family(u)), "no-loop", "-"))
                continue
            I = min(inner, key=lambda m: len(m["body"]))
            b = I["bound"]
            bound = "index" if b == ("phi", L["phi"].id) else ("count" if b in [x[1] for x in fams] and b == dict((repr(f), bd) for f, bd in fams).get(repr(family(u))) else "other")
            got.add((repr(family(u)), bound, I["init"]))
        want = {(repr(f), "count", "#0") for f, bd in fams[:-1]} | {(repr(fam), "index", "#0")}
        # every undo works on the table the updates of this response went to (same SSA value as the update calls' table)
        tabs = {}
        for (L2, up2) in apply_loops[:k + 1]:
            tabs[up2.callee.replace("rtr_update_", "")] = vf.expr(fn, up2.args[1])
        wrong_tab = [u for u in undos if vf.expr(fn, u.args[1]) != tabs.get(u.callee.replace("rtr_undo_update_", ""))]
        ctx.check(not wrong_tab, "C03.R3", "undo-same-table:arm%d" % (k + 1), (wrong_tab[0].loc() if wrong_tab else up.loc()),
                  "undo calls roll back the table that was updated" if not wrong_tab else
                  "undo on %s although the updates went to %s" % (vf.show(vf.expr(fn, wrong_tab[0].args[1])), vf.show(tabs.get(wrong_tab[0].callee.replace("rtr_undo_update_", "")))),
                  key="C03.R3:undo-table:arm%d" % (k + 1))
        ctx.check(got == want, "C03.R3", "undo-coverage:arm%d(%s)" % (k + 1, up.callee), up.loc(),
                  "undo loops cover %s; expected all earlier families completely and this family up to the failing index" %
                  sorted((g[1], g[2]) for g in got), key="C03.R3:undo-coverage:arm%d" % (k + 1))


def r5(ctx):
    pdb = ctx.pdb
    ctx.rule("C03.R5", "records handed to the tables by the protocol code carry the function's own socket; update, undo and "
             "purge calls are made for the own socket only")
    n = 0
    for conv, fld in (("rtr_prefix_pdu_2_pfx_record", "pfx_record.socket"), ("rtr_key_pdu_2_spki_record", "spki_record.socket")):
        fn = pdb.fn(conv)
        ctx.touch(fn)
        ss = [i for i in fn.all_insts() if i.op == "store" and vf.store_field(i) == fld]
        # every record the converter hands out names its cache: the source field is written on every path (both address families)
        outs_c = []
        tix = [k for k, p_ in enumerate(fn.params) if p_["name"] == "type"]
        for tval in ((4, 6) if "prefix" in conv else (9,)):      # the PDU types the converter is called for (asserted at its top)
            o_, _f = es.count_effects(fn, pdb, lambda i, E, st_, fld=fld: (["source"] if i.op == "store" and vf.store_field(i) == fld else None), None,
                                      cell=({tix[0]: tval} if tix else None))
            outs_c += o_
        unowned = [o for o in outs_c if not o["counts"].get("source")]
        n += 1
        ctx.check(bool(outs_c) and not unowned, "C03.R5", "%s:source-set-on-every-path" % conv, (unowned[0]["inst"].loc() if unowned else "%s:%d" % (fn.relfile, fn.line)),
                  "a path returns a record whose source was never set: purge, reload copy and removal by source cannot attribute it" if unowned or not outs_c else
                  "%d return paths, each writes record.socket" % len(outs_c), key="C03.R5:%s:always" % conv, path=(flow.trace_lines(fn, unowned[0]["trace"]) if unowned else None))
        for s in ss:
            n += 1
            ctx.check(vf.expr(fn, s["val"]) == ("arg", 0), "C03.R5", "%s:socket-field" % conv, s.loc(),
                      "record.socket <- %s" % vf.show(vf.expr(fn, s["val"])), key="C03.R5:%s" % conv)
        for c in pdb.callers(conv):
            n += 1
            ctx.check(vf.expr(c.fn, c.args[0]) == ("arg", 0), "C03.R5", "%s<-%s" % (conv, c.fn.name), c.loc(),
                      "converter called with the caller's own socket", key="C03.R5:%s:%s" % (conv, c.fn.name))
    other = [i for f in ("pfx_record.socket", "spki_record.socket") for i in vf.stores_to_field(pdb, f)
             if i.fn.unit.startswith("rtrlib/rtr/") and i.fn.name not in ("rtr_prefix_pdu_2_pfx_record", "rtr_key_pdu_2_spki_record")]
    ctx.check(not other, "C03.R5", "socket-field-writers", "rtrlib/rtr", "record.socket is written only by the two converters", key="C03.R5:writers")
    for callee in sorted(UPDATE | UNDO):
        for c in pdb.callers(callee):
            n += 1
            ctx.check(vf.expr(c.fn, c.args[0]) == ("arg", 0), "C03.R5", "%s<-%s@%s" % (callee, c.fn.name, _ord(c.fn, c)), c.loc(),
                      "called for the own socket", key="C03.R5:%s:%s" % (callee, c.fn.name))
    # the update / undo helpers work on the table they are given (the live table, or the shadow table during a reload), never on
    # a table they pick themselves
    TABLE_OPS = {"pfx_table_add", "pfx_table_remove", "spki_table_add_entry", "spki_table_remove_entry", "pfx_table_src_remove", "spki_table_src_remove"}
    for helper in sorted(UPDATE | UNDO):
        hf = pdb.fn(helper)
        ctx.touch(hf)
        ops = [c for c in hf.calls() if c.callee in TABLE_OPS]
        ctx.floor("C03.R5", len(ops), 2)
        for c in ops:
            n += 1
            ctx.check(vf.expr(hf, c.args[0]) == ("arg", 1), "C03.R5", "%s:%s-on-given-table@%s" % (helper, c.callee, _ord(hf, c)), c.loc(),
                      "%s(%s, ...): the table parameter is arg1" % (c.callee, vf.show(vf.expr(hf, c.args[0]))), key="C03.R5:%s:%s:table" % (helper, c.callee))
    ctx.floor("C03.R5", n, 22)


# deliberate, confirmed exceptions to "status results are consulted": callee -> (allowed callers or None, reason)
IGNORABLE = {
    "rtr_send_error_pdu_from_host": (None, "best-effort error report: the exchange fails regardless (C14 checks that it is sent)"),
    "rtr_send_error_pdu_from_network": (None, "best-effort error report"),
    "interval_send_error_pdu": (None, "best-effort error report"),
    "pfx_table_src_remove": ({"rtr_stop", "rtr_purge_outdated_records", RECV}, "purge: can fail only when a shrinking realloc fails"),
    "spki_table_src_remove": ({"rtr_stop", "rtr_purge_outdated_records", RECV}, "purge: cannot fail by construction"),
    "rtr_handle_error_pdu": (None, "always returns RTR_SUCCESS (checked against its return set)"),
    "lrtr_get_monotonic_time": ({"tr_send_all", "tr_recv_all", "rtr_wait_for_sync"}, "clock failure is outside every property's quantifier"),
    "rtr_mgr_start_sockets": (None, "thread creation failure: environment"),
    "spki_table_add_entry": ({"rtr_bgpsec_add_spki_record"}, "void API"),
    "lrtr_ip_addr_to_str": ({"rtr_update_pfx_table"}, "diagnostic text only"),
    "byte_sequence_to_str": ({"bgpsec_segment_to_str"}, "diagnostic text only"),
    "tommy_list_remove_existing": ({"rtr_mgr_remove_group"}, "returns the removed node's data, not a status"),
}


# call sites where a failure code is deliberately not told from success: (caller, callee) -> (codes, reason)
SAME_AS_SUCCESS = {
    ("spki_table_notify_diff", "spki_table_remove_entry"): ([-1], "SPKI_ERROR needs tommy_list_remove_existing to return NULL, which it never "
                                                            "does (it returns its argument's payload); only NOT_FOUND decides the notification"),
}


def _cmp(pred, a, b):
    ua, ub = a % 2 ** 32, b % 2 ** 32
    return {"eq": a == b, "ne": a != b, "slt": a < b, "sle": a <= b, "sgt": a > b, "sge": a >= b,
            "ult": ua < ub, "ule": ua <= ub, "ugt": ua > ub, "uge": ua >= ub}[pred]


def _separates(f, ref, v, seen=None, depth=0):
    """does a comparison reached from `ref` tell the value v from 0 (or is the value handed on to somebody else)?"""
    seen = set() if seen is None else seen
    if ref in seen or depth > 6:
        return False
    seen.add(ref)
    for u in f.uses(ref):
        if u.op == "icmp":
            a_is = u["a"] == ref
            oe = vf.expr(f, u["b"] if a_is else u["a"])
            if oe[0] != "c" or not isinstance(oe[1], int):
                return True         # compared with something computed: handed on
            tv = _cmp(u["pred"], v, oe[1]) if a_is else _cmp(u["pred"], oe[1], v)
            t0 = _cmp(u["pred"], 0, oe[1]) if a_is else _cmp(u["pred"], oe[1], 0)
            if tv != t0:
                return True
        elif u.op == "switch":
            cases = {k: d for k, d in u["cases"]}
            if cases.get(v, u["default"]) != cases.get(0, u["default"]):
                return True
        elif u.op in ("sext", "zext", "trunc", "phi", "select", "bitcast"):
            if _separates(f, u.ref, v, seen, depth + 1):
                return True
        else:
            return True             # returned, stored or passed on: the decision is made elsewhere (and checked there)
    return False


def r6(ctx, retsets):
    pdb = ctx.pdb
    ctx.rule("C03.R6", "no status result of a library function is dropped: every call whose callee returns a value has its "
             "result consulted, except the frozen inventory of deliberate best-effort / environment / diagnostic sites; and where a "
             "result is branched on, every failure code in the callee's computed return set is told from success")
    n = 0
    for f in pdb.all_functions():
        if f.unit.startswith("third-party"):
            continue
        for c in f.calls():
            if not c.callee:
                continue
            g = pdb.resolve(f, c.callee)
            if g is None or g.unit.startswith("third-party") and c.callee not in IGNORABLE:
                continue
            if g.d["ret"] == "void":
                continue
            n += 1
            if f.uses(c.ref):
                continue
            ent = IGNORABLE.get(c.callee)
            good = ent is not None and (ent[0] is None or f.name in ent[0])
            if c.callee == "rtr_handle_error_pdu":
                rs = retsets.get((g.unit, g.name))
                good = good and rs == frozenset([0])
            if good:
                ctx.ok("C03.R6", "%s->%s" % (f.name, c.callee), c.loc(), "deliberately ignored: " + ent[1])
            else:
                ctx.violation("C03.R6", "%s->%s" % (f.name, c.callee), c.loc(),
                              "result of %s is dropped in %s" % (c.callee, f.name), key="C03.R6:%s:%s" % (f.name, c.callee))
    ctx.floor("C03.R6", n, 150)
    ctx.note("%d value-returning library calls examined" % n)
    # ... and a consulted result is consulted completely: no failure code the callee can return (computed return set) is
    # indistinguishable from success at a site that branches on the result
    m = 0
    for f in pdb.all_functions():
        if not f.unit.startswith("rtrlib/"):
            continue
        for c in f.calls():
            if not c.callee:
                continue
            g = pdb.resolve(f, c.callee)
            if g is None:
                continue
            S = retsets.get((g.unit, g.name))
            if not S or S == "TOP" or 0 not in S or not f.uses(c.ref):
                continue
            neg = sorted(v for v in S if v < 0)
            if not neg:
                continue
            m += 1
            blind = [v for v in neg if not _separates(f, c.ref, v)]
            ex = SAME_AS_SUCCESS.get((f.name, c.callee))
            if blind and ex and set(blind) <= set(ex[0]):
                ctx.ok("C03.R6", "%s->%s:codes" % (f.name, c.callee), c.loc(), "code(s) %s deliberately treated like success: %s" % (blind, ex[1]))
            else:
                ctx.check(not blind, "C03.R6", "%s->%s@%s:failure-codes-told-from-success" % (f.name, c.callee, _ord(f, c)), c.loc(),
                          "callee can return %s; %s" % (sorted(S), ("code(s) %s take the same branches as success here" % blind) if blind else
                                                        "every failure code is separated from 0 by a comparison, or the value is handed on"),
                          key="C03.R6:%s:%s:codes" % (f.name, c.callee))
    ctx.floor("C03.R6", m, 60)


def check(ctx):
    retsets = flow.return_sets(ctx.pdb)
    r1(ctx, retsets)
    r2_r3_r4(ctx, retsets)
    r5(ctx)
    r6(ctx, retsets)
    # what the next query will carry changes only at the commit point (rule shared with C05)
    from specs import C05
    with ctx.shared({"C05.R6": ("C03.R7", "next-query state (session id, serial number, request flag) is written only at the commit point of a "
                                "complete response or when the socket's data is given up: a failed response leaves it as it was")}):
        C05.r6(ctx, retsets)
    from specs import C02
    with ctx.shared({"C02.R3": ("C03.R8", "the purge fallback removes every record of the socket: every element of that source, both children, both "
                                "address families whatever the other family holds")}):
        C02.r3(ctx, retsets)
    from specs import C07
    with ctx.shared({"C07.R3": ("C03.R9", "when the data is given up (expiry purge) the next query is forced to be a Reset Query: both tables purged, "
                                "request_session_id = true, serial 0 - never a Serial Query for data that is gone")}):
        C07.r3(ctx, retsets)
    from specs import C04, C10
    with ctx.shared({"C04.R5": ("C03.R10", "a response that breaks off in the middle of a PDU fails: the read-until-complete loop hands back the first "
                                "negative result and never a partial count"),
                     "C10.R1": ("C03.R11", "records of different caches are different records (the source is part of the router-key identity): one cache's "
                                "response cannot withdraw or collide with another cache's keys")}):
        C04.r5(ctx, retsets)
        C10.r1(ctx)
    from specs import C06
    with ctx.shared({"C06.R2": ("C03.R12", "a completed reload replaces the cache's old set entirely: the swap exchanges every piece of root state of both "
                                "tables on every path (an address family that is empty in the new set ends up empty)")}):
        C06.r2(ctx)
    from specs import C09
    with ctx.shared({"C09.R4": ("C03.R13", "after the swap the difference is reported with the tables in their roles: the routine empties the table it is given "
                                "second, which has to be the shadow object (now holding the old set) - handed the live table there, it would delete the "
                                "records that were just committed"),
                     "C10.R6": ("C03.R14", "the same for the router-key tables: spki_table_notify_diff(live table, shadow, own socket) after the swap")}):
        C09.r4(ctx, retsets)
        C10.r6_reload(ctx, retsets)
    ctx.not_decided("that the table contents equal previous + announcements - withdrawals (C02's set semantics composed with R1-R5)")
    ctx.not_decided("cancellation of the worker thread in the middle of the receive loop (covered by rtr_stop's purge, C07.R4)")


PK = "rtrlib/rtr/packets.c"
WITNESSES = [
    {"id": "C03.w1-apply-in-ipv4-arm", "rule": "C03.R1", "file": PK,
     "old": "\t\tif (type == IPV4_PREFIX) {\n\t\t\tif (rtr_store_prefix_pdu(",
     "new": "\t\tif (type == IPV4_PREFIX) {\n\t\t\trtr_update_pfx_table(rtr_socket, rtr_socket->pfx_table, pdu);\n\t\t\tif (rtr_store_prefix_pdu("},
    {"id": "C03.w2-serial-stored-before-apply", "rule": "C03.R2", "file": PK,
     "old": "\t\t\tretval = PFX_SUCCESS;\n\t\t\t// add all IPv4 prefix pdu to the pfx_table\n",
     "new": "\t\t\trtr_socket->serial_number = eod_pdu->sn;\n\t\t\tretval = PFX_SUCCESS;\n\t\t\t// add all IPv4 prefix pdu to the pfx_table\n"},
    {"id": "C03.w3-ipv6-arm-forgets-ipv4-undo", "rule": "C03.R3", "file": PK,
     "old": "\t\t\t\t\tfor (unsigned int j = 0; j < ipv4_pdus_nindex && retval == PFX_SUCCESS; j++)\n\t\t\t\t\t\tretval = rtr_undo_update_pfx_table(rtr_socket, pfx_update_table,\n\t\t\t\t\t\t\t\t\t\t   &(ipv4_pdus[j]));\n\t\t\t\t\tfor (unsigned int j = 0; j < i && retval == PFX_SUCCESS; j++)",
     "new": "\t\t\t\t\tfor (unsigned int j = 0; j < i && retval == PFX_SUCCESS; j++)"},
    {"id": "C03.w4-undo-F2-only-minus-one-detected", "rule": "C03.R3", "file": PK,
     "old": "\t\t\t\t\tif (retval != PFX_SUCCESS) {\n\t\t\t\t\t\tRTR_DBG1(\n\t\t\t\t\t\t\t\"Couldn't undo all update operations from failed data synchronisation: Purging all records\");\n\t\t\t\t\t\tpfx_table_src_remove(rtr_socket->pfx_table, rtr_socket);\n\t\t\t\t\t\tspki_table_src_remove(rtr_socket->spki_table, rtr_socket);\n\t\t\t\t\t\trtr_socket->request_session_id = true;\n\t\t\t\t\t}\n\t\t\t\t\trtr_change_socket_state(rtr_socket, RTR_ERROR_FATAL);\n\t\t\t\t\tretval = RTR_ERROR;\n\t\t\t\t\tgoto cleanup;\n\t\t\t\t}\n\t\t\t}\n\t\t\tRTR_DBG1(\"v4 prefixes added\");",
     "new": "\t\t\t\t\tif (retval == RTR_ERROR) {\n\t\t\t\t\t\tRTR_DBG1(\n\t\t\t\t\t\t\t\"Couldn't undo all update operations from failed data synchronisation: Purging all records\");\n\t\t\t\t\t\tpfx_table_src_remove(rtr_socket->pfx_table, rtr_socket);\n\t\t\t\t\t\tspki_table_src_remove(rtr_socket->spki_table, rtr_socket);\n\t\t\t\t\t\trtr_socket->request_session_id = true;\n\t\t\t\t\t}\n\t\t\t\t\trtr_change_socket_state(rtr_socket, RTR_ERROR_FATAL);\n\t\t\t\t\tretval = RTR_ERROR;\n\t\t\t\t\tgoto cleanup;\n\t\t\t\t}\n\t\t\t}\n\t\t\tRTR_DBG1(\"v4 prefixes added\");"},
    {"id": "C03.w5-purge-only-one-table", "rule": "C03.R3", "file": PK,
     "old": "\t\t\t\t\t\tpfx_table_src_remove(rtr_socket->pfx_table, rtr_socket);\n\t\t\t\t\t\tspki_table_src_remove(rtr_socket->spki_table, rtr_socket);\n\t\t\t\t\t\trtr_socket->request_session_id = true;\n\t\t\t\t\t}\n\t\t\t\t\trtr_change_socket_state(rtr_socket, RTR_ERROR_FATAL);\n\t\t\t\t\tretval = RTR_ERROR;\n\t\t\t\t\tgoto cleanup;\n\t\t\t\t}\n\t\t\t}\n\n\t\t\tRTR_DBG1(\"v6 prefixes added\");",
     "new": "\t\t\t\t\t\tpfx_table_src_remove(rtr_socket->pfx_table, rtr_socket);\n\t\t\t\t\t\trtr_socket->request_session_id = true;\n\t\t\t\t\t}\n\t\t\t\t\trtr_change_socket_state(rtr_socket, RTR_ERROR_FATAL);\n\t\t\t\t\tretval = RTR_ERROR;\n\t\t\t\t\tgoto cleanup;\n\t\t\t\t}\n\t\t\t}\n\n\t\t\tRTR_DBG1(\"v6 prefixes added\");"},
    {"id": "C03.w6-swap-before-router-key-loop", "rule": "C03.R4", "file": PK,
     "old": "\t\t\tRTR_DBG1(\"v6 prefixes added\");\n", "new": "\t\t\tRTR_DBG1(\"v6 prefixes added\");\n\t\t\tif (rtr_socket->is_resetting) {\n\t\t\t\tpfx_table_swap(rtr_socket->pfx_table, pfx_shadow_table);\n\t\t\t\tspki_table_swap(rtr_socket->spki_table, spki_shadow_table);\n\t\t\t}\n"},
    {"id": "C03.w7-record-socket-null", "rule": "C03.R5", "file": PK,
     "old": "\t\tpfxr->max_len = ipv6->max_prefix_len;\n\t\tpfxr->socket = rtr_socket;", "new": "\t\tpfxr->max_len = ipv6->max_prefix_len;\n\t\tpfxr->socket = NULL;"},
    {"id": "C03.w8-update-result-dropped", "rule": "C03.R6", "file": PK,
     "old": "\t\t\t\tif (rtr_update_pfx_table(rtr_socket, pfx_update_table, &(ipv6_pdus[i])) == PFX_ERROR) {",
     "new": "\t\t\t\trtr_update_pfx_table(rtr_socket, pfx_update_table, &(ipv6_pdus[i]));\n\t\t\t\tif (0) {"},
    {"id": "C03.w9-failure-arm-returns-success", "rule": "C03.R3", "also": ("C03.R2",), "file": PK,
     "old": "\t\t\t\t\trtr_change_socket_state(rtr_socket, RTR_ERROR_FATAL);\n\t\t\t\t\tretval = RTR_ERROR;\n\t\t\t\t\tgoto cleanup;\n\t\t\t\t}\n\t\t\t}\n\t\t\tRTR_DBG1(\"spki data added\");",
     "new": "\t\t\t\t\trtr_change_socket_state(rtr_socket, RTR_ERROR_FATAL);\n\t\t\t\t\tgoto cleanup;\n\t\t\t\t}\n\t\t\t}\n\t\t\tRTR_DBG1(\"spki data added\");"},
    {"id": "C03.w10-shadow-leaked-on-copy-failure", "rule": "C03.R4", "file": PK,
     "old": "\tif (rtr_socket->is_resetting) {\n\t\tRTR_DBG1(\"Freeing shadow tables.\");\n\t\tif (pfx_shadow_table) {",
     "new": "\tif (rtr_socket->is_resetting) {\n\t\tRTR_DBG1(\"Freeing shadow tables.\");\n\t\tif (pfx_shadow_table && retval == RTR_SUCCESS) {"},
    {"id": "C03.w11-undo-loop-starts-at-one", "rule": "C03.R3", "file": PK,
     "old": "\t\t\t\t\tfor (unsigned int j = 0; j < i && retval == PFX_SUCCESS; j++)\n\t\t\t\t\t\tretval = rtr_undo_update_pfx_table(rtr_socket, pfx_update_table,\n\t\t\t\t\t\t\t\t\t\t   &(ipv4_pdus[j]));\n\t\t\t\t\tif (retval",
     "new": "\t\t\t\t\tfor (unsigned int j = 1; j < i && retval == PFX_SUCCESS; j++)\n\t\t\t\t\t\tretval = rtr_undo_update_pfx_table(rtr_socket, pfx_update_table,\n\t\t\t\t\t\t\t\t\t\t   &(ipv4_pdus[j]));\n\t\t\t\t\tif (retval"},
    {"id": "C03.w12-undo-treats-not-found-as-done", "rule": "C03.R3", "file": PK,
     "old": "\tif (((struct pdu_ipv4 *)pdu)->flags == 1)\n\t\trtval = pfx_table_remove(pfx_table, &pfxr);\n\telse if",
     "new": "\tif (((struct pdu_ipv4 *)pdu)->flags == 1) {\n\t\trtval = pfx_table_remove(pfx_table, &pfxr);\n\t\tif (rtval == PFX_RECORD_NOT_FOUND)\n\t\t\trtval = PFX_SUCCESS;\n\t} else if"},
    {"id": "C03.w13-spki-shadow-never-initialised", "rule": "C03.R4", "file": PK,
     "old": "\t\t\t\tspki_table_init(spki_shadow_table, NULL);\n", "new": ""},
    {"id": "C03.w14-update-withdraws-from-live-table", "rule": "C03.R5", "file": PK,
     "old": "\t\trtval = pfx_table_remove(pfx_table, &pfxr);\n\t} else {\n\t\tconst char txt[] = \"Prefix PDU with invalid flags value received\";",
     "new": "\t\trtval = pfx_table_remove(rtr_socket->pfx_table, &pfxr);\n\t} else {\n\t\tconst char txt[] = \"Prefix PDU with invalid flags value received\";"},
    {"id": "C03.w15-spki-update-returns-table-code", "rule": "C03.R6", "file": PK,
     "old": "\t\trtr_send_error_pdu_from_host(rtr_socket, pdu, pdu_size, DUPLICATE_ANNOUNCEMENT, NULL, 0);\n\t\trtr_change_socket_state(rtr_socket, RTR_ERROR_FATAL);\n\t\treturn RTR_ERROR;\n\t} else if (rtval == SPKI_RECORD_NOT_FOUND) {",
     "new": "\t\trtr_send_error_pdu_from_host(rtr_socket, pdu, pdu_size, DUPLICATE_ANNOUNCEMENT, NULL, 0);\n\t\trtr_change_socket_state(rtr_socket, RTR_ERROR_FATAL);\n\t\treturn rtval;\n\t} else if (rtval == SPKI_RECORD_NOT_FOUND) {"},
    {"id": "C03.w16-ipv6-records-without-a-source", "rule": "C03.R5", "file": PK,
     "old": "\t\tpfxr->max_len = ipv6->max_prefix_len;\n\t\tpfxr->socket = rtr_socket;", "new": "\t\tpfxr->max_len = ipv6->max_prefix_len;"},
    {"id": "C03.w-diff-with-the-tables-in-the-wrong-roles", "rule": "C03.R13", "file": PK,
     "old": "pfx_table_notify_diff(rtr_socket->pfx_table, pfx_shadow_table, rtr_socket);", "new": "pfx_table_notify_diff(pfx_shadow_table, rtr_socket->pfx_table, rtr_socket);"},
    {"id": "C03.w-key-diff-with-the-tables-in-the-wrong-roles", "rule": "C03.R14", "file": PK,
     "old": "spki_table_notify_diff(rtr_socket->spki_table, spki_shadow_table, rtr_socket);", "new": "spki_table_notify_diff(spki_shadow_table, rtr_socket->spki_table, rtr_socket);"},
]
