"""C09 — update callbacks are a complete and exact change log of the prefix table.

R1 exactly-once by return class (pfx_table_add / pfx_table_remove)
R2 per-element pairing (pfx_table_remove_id, pfx_table_free)
R3 who-may-mutate (mutation primitives reached only from the notifying API)
R4 reload: shadow silent, swap keeps callbacks, swap followed by diff
R5 decision table of pfx_table_notify_diff_cb, silence/restore in pfx_table_notify_diff
"""
from engine import es, flow, vf
from engine.pdb import AnalysisBroken

NOTIFY = "pfx_table_notify_clients"
PRIMS = ["pfx_table_append_elem", "pfx_table_del_elem", "pfx_table_create_node", "trie_insert", "trie_remove"]
MUTATORS = {"pfx_table_add", "pfx_table_remove", "pfx_table_remove_id", "pfx_table_free", "pfx_table_swap",
            "pfx_table_init", "pfx_table_create_node"}


def _notify_sym(inst, E):
    v = flow.av_single(E.val(inst.args[2]))
    return "notify_add" if v == 1 else ("notify_del" if v == 0 else "notify_any")


def r1(ctx, retsets):
    pdb = ctx.pdb
    ctx.rule("C09.R1", "pfx_table_add/remove: exactly one notification (right polarity, own record, own table) on every "
             "path returning PFX_SUCCESS, none on any other path")
    succ = pdb.enum_value("PFX_SUCCESS")
    for fname, want in (("pfx_table_add", "notify_add"), ("pfx_table_remove", "notify_del")):
        fn = pdb.fn(fname)
        ctx.touch(fn)
        sites = fn.calls(NOTIFY)
        ctx.floor("C09.R1", len(sites), 1)
        for c in sites:
            okargs = vf.expr(fn, c.args[0]) == ("arg", 0) and vf.expr(fn, c.args[1]) == ("arg", 1)
            ctx.check(okargs, "C09.R1", "%s:notify-args@%s" % (fname, _site(fn, c)), c.loc(),
                      "notification carries the function's own table and record arguments" if okargs else
                      "notification for (%s, %s) instead of the function's own (table, record)" % (
                          vf.show(vf.expr(fn, c.args[0])), vf.show(vf.expr(fn, c.args[1]))),
                      key="C09.R1:%s:args" % fname)

        def classify(inst, E, counts):
            if inst.op == "call" and inst.callee == NOTIFY:
                return _notify_sym(inst, E)
            return None
        outs, fl = es.count_effects(fn, pdb, classify, retsets)
        if not outs:
            raise AnalysisBroken("%s: no return state" % fname)
        n = 0
        for o in outs:
            n += 1
            cls = es.ret_classes(o["ret"], universe=pdb.enum("pfx_rtvals").values())
            cnt = {k: v for k, v in o["counts"].items() if k.startswith("notify")}
            path = flow.trace_lines(fn, o["trace"])
            if cls is None:
                cls = set(pdb.enum("pfx_rtvals").values())
            exp_success = {want: 1}
            bad = []
            for v in cls:
                exp = exp_success if v == succ else {}
                if cnt != exp:
                    bad.append((v, exp))
            name = ",".join(pdb.enum_name("pfx_rtvals", v) for v in sorted(cls))
            if bad:
                v, exp = bad[0]
                ctx.violation("C09.R1", "%s:ret{%s}" % (fname, name), o["inst"].loc(),
                              "path returning %s carries notifications %s, expected %s" % (
                                  pdb.enum_name("pfx_rtvals", v), cnt or "none", exp or "none"),
                              key="C09.R1:%s:%s" % (fname, pdb.enum_name("pfx_rtvals", v)), path=path,
                              expected=str(exp), found=str(cnt))
            else:
                ctx.ok("C09.R1", "%s:ret{%s}#%d" % (fname, name, n), o["inst"].loc(), "notifications %s" % (cnt or "none"))


def _site(fn, inst):
    """stable label of a call site: ordinal among calls to the same callee in the function"""
    k = 0
    for c in fn.calls(inst.callee):
        k += 1
        if c is inst:
            return "%s#%d" % (inst.callee, k)
    return inst.callee


def r2(ctx, retsets):
    pdb = ctx.pdb
    ctx.rule("C09.R2", "removal by source and table destruction: every deleted element is reported exactly once "
             "(removed), before the next deletion / before its node is released; nothing else is reported")
    fn = pdb.fn("pfx_table_remove_id")
    ctx.touch(fn)
    dels = fn.calls("pfx_table_del_elem")
    ctx.floor("C09.R2", len(dels), 1)
    problems = []

    def classify(inst, E, counts):
        if inst.op != "call":
            if inst.op == "ret" and counts.get("pend") == "1":
                problems.append((inst, "returns with a deleted element not reported"))
            return None
        if inst.callee == "pfx_table_del_elem":
            if counts.get("pend") == "1":
                problems.append((inst, "second deletion before the first was reported"))
            return [(["=pend:1"], {inst.ref: flow.av_in(0)}), ([], {inst.ref: flow.av_in(-1)})]
        if inst.callee == NOTIFY:
            sym = _notify_sym(inst, E)
            if counts.get("pend") != "1":
                problems.append((inst, "notification without a preceding successful deletion"))
            elif sym != "notify_del":
                problems.append((inst, "deleted element reported with polarity %s" % sym))
            return ["=pend:0"]
        if inst.callee == "pfx_table_remove_id" and counts.get("pend") == "1":
            problems.append((inst, "recursion with a deleted element not reported"))
        return None
    outs, fl = es.count_effects(fn, pdb, classify, retsets, init=[("pend", "0")])
    seen = set()
    for inst, msg in problems:
        if (inst.id, msg) in seen:
            continue
        seen.add((inst.id, msg))
        ctx.violation("C09.R2", "pfx_table_remove_id:%s" % msg.split()[0], inst.loc(), msg,
                      key="C09.R2:pfx_table_remove_id:pairing")
    if not problems:
        ctx.ok("C09.R2", "pfx_table_remove_id:pairing", "%s:%d" % (fn.relfile, fn.line),
               "%d return states; every successful pfx_table_del_elem is followed by one notify(removed) before the next "
               "deletion, return or recursion" % len(outs))
    # the record reported is assembled before the deletion, from the element about to be deleted
    for c in fn.calls(NOTIFY):
        rec = vf.expr(fn, c.args[1])
        good = rec[0] == "alloca"
        if good:
            stores = [i for i in fn.all_insts() if i.op in ("store", "call") and
                      ((i.op == "store" and vf.root_of(vf.expr(fn, i["ptr"])) == rec) or
                       (i.op == "call" and (i.callee or "").startswith("llvm.memcpy") and vf.root_of(vf.expr(fn, i.args[0])) == rec))]
            good = bool(stores) and all(any(fn.dom(s, d) and s.block.id == d.block.id or fn.dom(s, d) for d in dels) for s in stores)
            ok_tab = vf.expr(fn, c.args[0]) == ("arg", 0)
            good = good and ok_tab
        ctx.check(good, "C09.R2", "pfx_table_remove_id:record-before-delete", c.loc(),
                  "reported record is a local copy completed before pfx_table_del_elem, table is the own argument",
                  key="C09.R2:pfx_table_remove_id:record")
    # every field of the reported record is taken from the element / node about to be deleted, inside the same loop round
    loops_r = fn.loops()
    for d in dels:
        inner = [body for h, body in loops_r.items() if d.block.id in body]
        body = min(inner, key=len) if inner else None
        rec = None
        for c in fn.calls(NOTIFY):
            if fn.dom(d, c):
                rec = vf.expr(fn, c.args[1])
        got = {}
        if rec is not None and body is not None:
            for i in fn.all_insts():
                if i.block.id not in body or not fn.dom(i, d):
                    continue
                if i.op == "store" and vf.root_of(vf.expr(fn, i["ptr"])) == rec:
                    got[vf.store_field(i)] = vf.expr(fn, i["val"])
                if i.op == "call" and (i.callee or "").startswith("llvm.memcpy") and vf.root_of(vf.expr(fn, i.args[0])) == rec:
                    got[vf.last_field(vf.expr(fn, i.args[0]))] = ("load", vf.expr(fn, i.args[1]))

        # prefix and length belong to the node: they change only when the node is refilled from a child, i.e. once per round of
        # the loop that re-examines the node; the socket of a deleted element is the socket argument it was selected by
        if rec is not None and inner:
            outer = max(inner, key=len)
            for i in fn.all_insts():
                if i.op == "store" and fn.dom(i, d) and vf.root_of(vf.expr(fn, i["ptr"])) == rec:
                    f_ = vf.store_field(i)
                    if f_ in ("pfx_record.prefix", "pfx_record.min_len") and i.block.id in outer:
                        got.setdefault(f_, vf.expr(fn, i["val"]))
                    if f_ == "pfx_record.socket" and vf.expr(fn, i["val"]) == ("arg", 3):
                        got.setdefault(f_, ("load", ("fld", ("own-socket",), "data_elem.socket")))
                if i.op == "call" and (i.callee or "").startswith("llvm.memcpy") and fn.dom(i, d) and i.block.id in outer and \
                        vf.root_of(vf.expr(fn, i.args[0])) == rec and vf.last_field(vf.expr(fn, i.args[0])) == "pfx_record.prefix":
                    got.setdefault("pfx_record.prefix", ("load", vf.expr(fn, i.args[1])))

        def src_ok(f, v):
            if v is None or v[0] != "load":
                return False
            lf = vf.last_field(v[1])
            return {"pfx_record.asn": "data_elem.asn", "pfx_record.max_len": "data_elem.max_len", "pfx_record.socket": "data_elem.socket",
                    "pfx_record.prefix": "trie_node.prefix", "pfx_record.min_len": "trie_node.len"}.get(f) == lf
        want_f = ["pfx_record.asn", "pfx_record.prefix", "pfx_record.min_len", "pfx_record.max_len", "pfx_record.socket"]
        missing = [f for f in want_f if not src_ok(f, got.get(f))]
        ctx.check(not missing, "C09.R2", "pfx_table_remove_id:record-fields-per-element", d.loc(),
                  "all five fields of the reported record are read from the current node and element in the loop round that deletes it"
                  if not missing else "fields not refreshed from the current node/element before the deletion: %s" % [f.split(".")[1] for f in missing],
                  key="C09.R2:pfx_table_remove_id:record-fields")
    # pfx_table_free: notify loop over the node's elements precedes the node's removal
    fn = pdb.fn("pfx_table_free")
    ctx.touch(fn)
    loops = es.index_loops(fn)
    ns = fn.calls(NOTIFY)
    ctx.floor("C09.R2", len(ns), 1)
    rem = fn.calls("trie_remove")
    for c in ns:
        lp = [l for l in loops if es.in_loop_body(l, c)]
        lp = [l for l in lp if vf.last_field(l["bound"][1]) == "node_data.len" if l["bound"][0] == "load"] if lp else []
        pol = vf.expr(fn, c.args[2]) == ("c", 0)
        tab = vf.expr(fn, c.args[0]) == ("arg", 0)
        full = bool(lp) and lp[0]["init"] == "#0"
        # unconditional inside the loop: the call's block post-dominates the loop body entry
        uncond = bool(lp) and all(fn.bdom(c.block.id, b) or fn.bpdom(c.block.id, b) or b == lp[0]["header"]
                                  for b in lp[0]["body"] if b != lp[0]["header"])
        # (the per-family body may exist twice, as two copies of a helper: each copy's loop comes before that copy's release)
        before = bool(lp) and bool(rem) and any(fn.bdom(lp[0]["header"], r.block.id) and r.block.id not in lp[0]["body"] for r in rem) and \
            all(any(fn.bdom(l2["header"], r.block.id) and r.block.id not in l2["body"] for c2 in ns for l2 in loops if es.in_loop_body(l2, c2)) for r in rem)
        ctx.check(pol and tab and full and uncond and before, "C09.R2", "pfx_table_free:per-element", c.loc(),
                  "notify(removed) for index 0..data->len-1 of every node, unconditionally, before trie_remove releases the node"
                  if (pol and tab and full and uncond and before) else
                  "polarity=%s table=%s loop-over-len-from-0=%s unconditional=%s before-release=%s" % (pol, tab, full, uncond, before),
                  key="C09.R2:pfx_table_free:per-element")


def r3(ctx):
    pdb = ctx.pdb
    ctx.rule("C09.R3", "table mutation primitives and stores to the trie roots are reachable only from the notifying API "
             "(add/remove/remove_id/free/swap/init); rollback and reload use that API")
    n = 0
    for p in PRIMS:
        pdb.fn(p)
        sites = pdb.callers(p)
        for s in sites:
            n += 1
            allowed = MUTATORS | ({"trie_insert", "trie_remove"} if p in ("trie_insert", "trie_remove") else set())
            ctx.check(s.fn.name in allowed, "C09.R3", "%s<-%s" % (p, s.fn.name), s.loc(),
                      "primitive %s called from %s" % (p, s.fn.name), key="C09.R3:%s:%s" % (p, s.fn.name))
    for fld in ("pfx_table.ipv4", "pfx_table.ipv6"):
        for s in vf.stores_to_field(pdb, fld):
            n += 1
            ctx.check(s.fn.name in MUTATORS, "C09.R3", "store %s in %s" % (fld, s.fn.name), s.loc(),
                      "root pointer written in %s" % s.fn.name, key="C09.R3:store:%s:%s" % (fld, s.fn.name))
    ctx.floor("C09.R3", n, 12)
    # rollback goes through the notifying API only
    for fname in ("rtr_undo_update_pfx_table", "rtr_update_pfx_table"):
        fn = pdb.fn(fname)
        ctx.touch(fn)
        called = {c.callee for c in fn.calls() if c.callee}
        tabcalls = {c for c in called if c.startswith("pfx_table_") or c.startswith("trie_")}
        ctx.check(tabcalls <= {"pfx_table_add", "pfx_table_remove"} and tabcalls, "C09.R3", "%s:api" % fname,
                  "%s:%d" % (fn.relfile, fn.line), "table calls: %s" % sorted(tabcalls), key="C09.R3:%s:api" % fname)


def r4(ctx, retsets):
    pdb = ctx.pdb
    ctx.rule("C09.R4", "reload: shadow table has no callback; swap leaves callbacks in place; after the swap the net "
             "difference is reported whenever a callback is installed; free_without_notify silences first")
    fn = pdb.fn("rtr_sync_receive_and_store_pdus")
    ctx.touch(fn)
    inits = fn.calls("pfx_table_init")
    ctx.floor("C09.R4", len(inits), 1)
    for c in inits:
        ctx.check(vf.expr(fn, c.args[1]) == ("c", 0), "C09.R4", "shadow-init-callback", c.loc(),
                  "pfx_table_init(shadow, %s)" % vf.show(vf.expr(fn, c.args[1])), key="C09.R4:shadow-init")
    sw = pdb.fn("pfx_table_swap")
    ctx.touch(sw)
    st = [i for i in sw.all_insts() if i.op == "store" and vf.store_field(i) == "pfx_table.update_fp"]
    ctx.check(not st, "C09.R4", "swap-keeps-callbacks", "%s:%d" % (sw.relfile, sw.line),
              "pfx_table_swap does not write update_fp", key="C09.R4:swap-callback")
    # swap => diff before the commit (serial store) unless callback is NULL
    swaps = fn.calls("pfx_table_swap")
    ctx.floor("C09.R4", len(swaps), 1)
    bad = []
    good = []
    UFP = None

    def classify(inst, E, counts):
        if inst.op == "call":
            if inst.callee == "pfx_table_swap":
                return ["=sw:1"]
            if inst.callee == "pfx_table_notify_diff":
                a = [vf.expr(fn, x) for x in inst.args]
                live = ("load", ("fld", ("arg", 0), "rtr_socket.pfx_table"))
                if counts.get("sw") != "1":
                    bad.append((inst, "pfx_table_notify_diff before the swap"))
                if a[0] != live or a[2] != ("arg", 0):
                    bad.append((inst, "diff arguments (%s, %s, %s): expected (live table, shadow, own socket)" % tuple(vf.show(x) for x in a)))
                return ["=df:1"]
            return None
        if inst.op == "store" and vf.store_field(inst) == "rtr_socket.serial_number":
            if counts.get("sw") == "1" and counts.get("df") != "1":
                key = ("M", ("fld", ("load", ("fld", ("arg", 0), "rtr_socket.pfx_table")), "pfx_table.update_fp"))
                if E.facts.get(key) != flow.av_in(0):
                    bad.append((inst, "commit after swap without pfx_table_notify_diff although a callback may be installed"))
                else:
                    good.append(inst)
            elif counts.get("sw") == "1":
                good.append(inst)
        return None
    # facts about the live table's callback survive calls: the field is configuration, written only by
    # init / free_without_notify / notify_diff (checked right here)
    writers = {i.fn.name for i in vf.stores_to_field(pdb, "pfx_table.update_fp")}
    ctx.check(writers <= {"pfx_table_init", "pfx_table_free_without_notify", "pfx_table_notify_diff"}, "C09.R4",
              "callback-writers", "%s:%d" % (fn.relfile, fn.line), "update_fp written in %s" % sorted(writers),
              key="C09.R4:callback-writers")
    es.count_effects(fn, pdb, classify, retsets, init=[("sw", "0"), ("df", "0")],
                     pinned=lambda pe: vf.last_field(pe) == "pfx_table.update_fp")
    seen = set()
    for inst, msg in bad:
        if (inst.id, msg) not in seen:
            seen.add((inst.id, msg))
            ctx.violation("C09.R4", "swap-then-diff", inst.loc(), msg, key="C09.R4:swap-then-diff")
    if not bad:
        if not good:
            raise AnalysisBroken("C09.R4: no commit after swap found")
        ctx.ok("C09.R4", "swap-then-diff", good[0].loc(), "every path from pfx_table_swap to the serial store passes "
               "pfx_table_notify_diff(live, shadow, socket) or has update_fp == NULL")
    fw = pdb.fn("pfx_table_free_without_notify")
    ctx.touch(fw)
    st = [i for i in fw.all_insts() if i.op == "store" and vf.store_field(i) == "pfx_table.update_fp" and vf.expr(fw, i["val"]) == ("c", 0)]
    fr = fw.calls("pfx_table_free")
    ctx.check(bool(st) and bool(fr) and all(fw.dom(st[0], f) for f in fr), "C09.R4", "free_without_notify-silences",
              "%s:%d" % (fw.relfile, fw.line), "update_fp = NULL dominates pfx_table_free", key="C09.R4:free-without-notify")


def r5(ctx, retsets):
    pdb = ctx.pdb
    ctx.rule("C09.R5", "pfx_table_notify_diff_cb decision table (socket equal? x phase x removal result) and "
             "silence/restore of the old table's callback in pfx_table_notify_diff")
    fn = pdb.fn("pfx_table_notify_diff_cb")
    ctx.touch(fn)
    A = ("arg", 1)
    R = ("arg", 0)
    sock_a = ("load", ("fld", A, "notify_diff_cb_args.socket"))
    sock_r = ("load", ("fld", R, "pfx_record.socket"))
    added = ("fld", A, "notify_diff_cb_args.added")
    succ = pdb.enum_value("PFX_SUCCESS")
    ncell = 0
    for same in (True, False):
        for ad in (1, 0):
            for rm in (succ, pdb.enum_value("PFX_RECORD_NOT_FOUND"), pdb.enum_value("PFX_ERROR")):
                def oracle(inst, pred, a, b, E, same=same):
                    if {a, b} == {sock_a, sock_r} and pred in ("eq", "ne"):
                        return same if pred == "eq" else not same
                    return None

                def classify(inst, E, counts, rm=rm):
                    if inst.op == "call":
                        if inst.callee == NOTIFY:
                            tab = vf.expr(fn, inst.args[0]) == ("load", ("fld", A, "notify_diff_cb_args.new_table"))
                            rec = vf.expr(fn, inst.args[1]) == R
                            return [_notify_sym(inst, E) + ("" if tab and rec else "_wrongargs")]
                        if inst.callee == "pfx_table_remove":
                            old = vf.expr(fn, inst.args[0]) == ("load", ("fld", A, "notify_diff_cb_args.old_table"))
                            return [(["remove_old" if old else "remove_other"], {inst.ref: flow.av_in(rm)})]
                    return None
                outs, fl = es.count_effects(fn, pdb, classify, None, cell={added: ad}, oracle=oracle)
                if ad == 0 and rm != succ:
                    continue  # removal result is irrelevant in the removed-phase; one representative
                ncell += 1
                if not same:
                    exp = {}
                elif ad == 1:
                    exp = {"remove_old": 1} if rm == succ else {"remove_old": 1, "notify_add": 1}
                else:
                    exp = {"notify_del": 1}
                cell = "socket%sown,phase=%s,remove=%s" % ("=" if same else "!=", "added" if ad else "removed",
                                                          pdb.enum_name("pfx_rtvals", rm))
                found = [o["counts"] for o in outs]
                good = bool(outs) and all(c == exp for c in found)
                ctx.check(good, "C09.R5", "diff_cb[%s]" % cell, "%s:%d" % (fn.relfile, fn.line),
                          "effects %s, expected %s" % (found, exp), key="C09.R5:diff_cb:%s" % cell,
                          expected=str(exp), found=str(found))
    ctx.floor("C09.R5", ncell, 8)
    # notify_diff: old table silenced for the duration, restored afterwards; added-phase over new, removed-phase over old
    fn = pdb.fn("pfx_table_notify_diff")
    ctx.touch(fn)
    old_fp = ("fld", ("arg", 1), "pfx_table.update_fp")
    stores = [i for i in fn.all_insts() if i.op == "store" and vf.expr(fn, i["ptr"]) == old_fp]
    nulls = [s for s in stores if vf.expr(fn, s["val"]) == ("c", 0)]
    restores = [s for s in stores if vf.expr(fn, s["val"]) != ("c", 0)]
    walks = fn.calls(("pfx_table_for_each_ipv4_record", "pfx_table_for_each_ipv6_record"))
    ctx.floor("C09.R5", len(walks), 4)
    good = bool(nulls) and bool(restores) and all(fn.dom(nulls[0], w) for w in walks) and \
        all(any(fn.dom(w, r) for r in restores) for w in walks)
    # restored value is the one saved before silencing
    if good:
        rv = vf.expr(fn, restores[-1]["val"])
        good = rv == ("load", old_fp) or (rv[0] == "load" and rv[1][0] == "alloca")
        lv = fn.inst(vf.strip_casts(fn, restores[-1]["val"]))
        if lv is not None and lv.op == "load" and vf.expr(fn, lv["ptr"]) == old_fp:
            good = fn.dom(lv, nulls[0])
    ctx.check(good, "C09.R5", "notify_diff:silence-restore", "%s:%d" % (fn.relfile, fn.line),
              "old table's callback saved, set NULL before the four walks, restored after them",
              key="C09.R5:notify_diff:silence")
    # phases: walks over new_table run with added=true, walks over old_table with added=false
    got = set()
    for w in walks:
        tab = vf.expr(fn, w.args[0])
        cb = vf.expr(fn, w.args[1])
        ar = vf.expr(fn, w.args[2])
        ad = None
        if ar[0] == "alloca":
            st = vf.reaching_store(fn, ("fld", ar, "notify_diff_cb_args.added"), w)
            if st is not None:
                e = vf.expr(fn, st["val"])
                ad = e[1] if e[0] == "c" else None
        fam = "4" if "ipv4" in w.callee else "6"
        if cb == ("g", "pfx_table_notify_diff_cb"):
            got.add((tab, ad, fam))
    want = {(("arg", 0), 1, "4"), (("arg", 0), 1, "6"), (("arg", 1), 0, "4"), (("arg", 1), 0, "6")}
    others = [i for i in vf.stores_to_field(pdb, "notify_diff_cb_args.added") if i.fn.name != "pfx_table_notify_diff"]
    ctx.check(got == want and not others, "C09.R5", "notify_diff:phases", "%s:%d" % (fn.relfile, fn.line),
              "walks (table, added, family): %s" % sorted((vf.show(t), str(a), f) for t, a, f in got),
              key="C09.R5:notify_diff:phases")


def check(ctx):
    pdb = ctx.pdb
    retsets = flow.return_sets(pdb)
    r1(ctx, retsets)
    r2(ctx, retsets)
    r3(ctx)
    r4(ctx, retsets)
    r5(ctx, retsets)
    from specs import C18
    with ctx.shared({"C18.R3": ("C09.R6", "a removal that fails (allocation failure while shrinking) leaves the element in the table, so that 'no "
                                "callback' is the right report")}):
        C18.r3(ctx, retsets)
    from specs import C02
    with ctx.shared({"C02.R1": ("C09.R7", "the record named in a callback is the record that is stored: exact match compares the whole prefix as given "
                                "and the three element fields, so a removal cannot hit (and report) a differently spelled neighbour")}):
        C02.r1(ctx)
        C02.r1_whole_prefix(ctx)
    ctx.not_decided("callback ordering relative to other threads (add/remove notify after unlocking)")
    ctx.not_decided("that trie_insert/trie_remove restructure the trie correctly (C02 core)")


TP = "rtrlib/pfx/trie/trie-pfx.c"
PK = "rtrlib/rtr/packets.c"
WITNESSES = [
    {"id": "C09.w1-drop-notify-new-node", "rule": "C09.R1", "file": TP,
     "old": "\t\ttrie_insert(node, new_node, lvl);\n\t\tpthread_rwlock_unlock(&pfx_table->lock);\n\t\tpfx_table_notify_clients(pfx_table, record, true);\n",
     "new": "\t\ttrie_insert(node, new_node, lvl);\n\t\tpthread_rwlock_unlock(&pfx_table->lock);\n"},
    {"id": "C09.w2-notify-on-duplicate", "rule": "C09.R1", "file": TP,
     "old": "\t\t\tif (pfx_table_find_elem(node->data, record, NULL)) {\n\t\t\t\tpthread_rwlock_unlock(&pfx_table->lock);\n",
     "new": "\t\t\tif (pfx_table_find_elem(node->data, record, NULL)) {\n\t\t\t\tpthread_rwlock_unlock(&pfx_table->lock);\n\t\t\t\tpfx_table_notify_clients(pfx_table, record, true);\n"},
    {"id": "C09.w3-notify-unconditional-after-append", "rule": "C09.R1", "file": TP,
     "old": "\t\t\tif (rtval == PFX_SUCCESS)\n\t\t\t\tpfx_table_notify_clients(pfx_table, record, true);\n",
     "new": "\t\t\tpfx_table_notify_clients(pfx_table, record, true);\n"},
    {"id": "C09.w4-remove-notifies-added", "rule": "C09.R1", "file": TP,
     "old": "\tpfx_table_notify_clients(pfx_table, record, false);\n\n\treturn PFX_SUCCESS;",
     "new": "\tpfx_table_notify_clients(pfx_table, record, true);\n\n\treturn PFX_SUCCESS;"},
    {"id": "C09.w5-remove_id-notify-before-delete", "rule": "C09.R2", "file": TP,
     "old": "\t\t\t\tif (pfx_table_del_elem(data, i) == PFX_ERROR)\n\t\t\t\t\treturn PFX_ERROR;\n\t\t\t\tpfx_table_notify_clients(pfx_table, &record, false);\n",
     "new": "\t\t\t\tpfx_table_notify_clients(pfx_table, &record, false);\n\t\t\t\tif (pfx_table_del_elem(data, i) == PFX_ERROR)\n\t\t\t\t\treturn PFX_ERROR;\n"},
    {"id": "C09.w6-remove_id-no-notify", "rule": "C09.R2", "file": TP,
     "old": "\t\t\t\t\treturn PFX_ERROR;\n\t\t\t\tpfx_table_notify_clients(pfx_table, &record, false);\n",
     "new": "\t\t\t\t\treturn PFX_ERROR;\n"},
    {"id": "C09.w7-free-skips-first-element", "rule": "C09.R2", "file": TP,
     "old": "for (unsigned int j = 0; j < data->len; j++) {\n\t\t\t\t\tstruct pfx_record record = {data->ary[j].asn, (root->prefix)",
     "new": "for (unsigned int j = 1; j < data->len; j++) {\n\t\t\t\t\tstruct pfx_record record = {data->ary[j].asn, (root->prefix)"},
    {"id": "C09.w8-undo-uses-primitive", "rule": "C09.R3", "file": PK,
     "old": "\tif (((struct pdu_ipv4 *)pdu)->flags == 1)\n\t\trtval = pfx_table_remove(pfx_table, &pfxr);\n\telse if (((struct pdu_ipv4 *)pdu)->flags == 0)\n\t\trtval = pfx_table_add(pfx_table, &pfxr);\n\treturn rtval;",
     "new": "\tif (((struct pdu_ipv4 *)pdu)->flags == 1)\n\t\trtval = pfx_table_remove(pfx_table, &pfxr);\n\telse if (((struct pdu_ipv4 *)pdu)->flags == 0)\n\t\trtval = pfx_table_add(pfx_table, &pfxr);\n\tif (rtval == PFX_ERROR)\n\t\tpfx_table->ipv4 = NULL;\n\treturn rtval;"},
    {"id": "C09.w9-shadow-with-live-callback", "rule": "C09.R4", "file": PK,
     "old": "pfx_table_init(pfx_shadow_table, NULL);", "new": "pfx_table_init(pfx_shadow_table, rtr_socket->pfx_table->update_fp);"},
    {"id": "C09.w10-no-diff-after-swap", "rule": "C09.R4", "file": PK,
     "old": "\t\t\t\tif (rtr_socket->pfx_table->update_fp) {\n", "new": "\t\t\t\tif (rtr_socket->pfx_table->update_fp && ipv4_pdus_nindex) {\n"},
    {"id": "C09.w11-diff-cb-added-for-removed-phase", "rule": "C09.R5", "file": TP,
     "old": "\t} else if (args->socket == record->socket && !args->added) {\n\t\tpfx_table_notify_clients(args->new_table, record, args->added);",
     "new": "\t} else if (args->socket == record->socket && !args->added) {\n\t\tpfx_table_notify_clients(args->new_table, record, true);"},
    {"id": "C09.w12-diff-cb-ignores-socket", "rule": "C09.R5", "file": TP,
     "old": "\t} else if (args->socket == record->socket && !args->added) {", "new": "\t} else if (!args->added) {"},
    {"id": "C09.w13-diff-does-not-silence-old", "rule": "C09.R5", "file": TP,
     "old": "\told_table->update_fp = NULL;\n\n\t// Iterate new_table", "new": "\n\t// Iterate new_table"},
    {"id": "C09.w14-swap-exchanges-callbacks", "rule": "C09.R4", "file": TP,
     "old": "\tb->ipv4 = ipv4_tmp;\n", "new": "\tb->ipv4 = ipv4_tmp;\n\tb->update_fp = a->update_fp;\n"},
]
