"""C04 — no byte stream from a cache can corrupt memory, abort or hang the client.

R1 receive-buffer bound (header first, length bounds dominate the payload receive, buffers of maximum PDU size)
R2 exact size table of rtr_pdu_check_size vs RFC 8210 (all types, both versions, lengths around the exact value);
   wire layouts of the PDU structs vs the RFC
R3 nested lengths of an Error Report are checked in order, in 64-bit arithmetic, before they are used as offsets
R4 rejected => not applied: a failed check ends in a negative result and callers touch the buffer only after success
R5 framing: only the read-/write-until-complete loops talk to the transport; they stop at the first negative result
R6 variable-length stack arrays are bounded by call-site constants and checked lengths
R7 bit-extraction asserts fed by stored prefix lengths: operand bounded by the covering guard; zero bits are legal
R8 every assertion reachable from the receive path is discharged by a stated argument or listed as undecided
R9 temporary PDU stores: index < capacity at every copy; grown by whole elements of the right size
"""
from engine import dt, es, flow, fsm, vf
from engine.pdb import AnalysisBroken
from specs import rfc8210

SOCK = ("arg", 0)
MAXPDU = 3248
HDR = 8
RECV = "rtr_sync_receive_and_store_pdus"


def r1(ctx, retsets):
    pdb = ctx.pdb
    ctx.rule("C04.R1", "rtr_receive_pdu reads exactly 8 header bytes, then header.len-8 payload bytes to buffer+8 only when "
             "8 <= header.len <= 3248; all callers supply a 3248-byte buffer")
    fn = pdb.fn("rtr_receive_pdu")
    ctx.touch(fn)
    rc = fn.calls("tr_recv_all")
    if not rc:
        raise AnalysisBroken("rtr_receive_pdu does not call tr_recv_all")
    if not ctx.check(len(rc) == 2, "C04.R1", "two-receives", "%s:%d" % (fn.relfile, fn.line),
                     "%d calls of tr_recv_all (header, payload)" % len(rc), key="C04.R1:count"):
        return
    h, p = rc[0], rc[1]
    ctx.check(vf.expr(fn, h.args[1]) == ("arg", 1) and vf.expr(fn, h.args[2]) == ("c", HDR), "C04.R1", "header-receive", h.loc(),
              "tr_recv_all(buffer, %s)" % vf.show(vf.expr(fn, h.args[2])), key="C04.R1:header")

    def is_hlen(e):
        return e[0] == "load" and vf.last_field(e[1]) == "pdu_header.len" and vf.root_of(e[1])[0] == "alloca"
    dst = vf.expr(fn, p.args[1])
    ln = vf.expr(fn, p.args[2])
    dst_ok = dst[0] == "ptradd" and dst[1] == ("arg", 1) and dst[2] == ("c", HDR)
    len_ok = ln[0] == "bin" and ln[1] == "sub" and is_hlen(ln[2]) and ln[3] == ("c", HDR)
    # evaluated per length value (wherever the two bounds are tested - in line, in a helper that hands a verdict back): the payload
    # receive is reached for no length below the header size and for none above the buffer
    reached = {}
    for hl in (0, 1, 7, HDR, HDR + 1, 100, MAXPDU, MAXPDU + 1, 65535, 2 ** 31, 2 ** 32 - 1):
        def values_l(pe, hl=hl):
            return hl if vf.last_field(pe) == "pdu_header.len" and vf.root_of(pe)[0] == "alloca" else None

        def cl_l(inst, E, st, hl=hl):
            if inst is h:
                return [([], {inst.ref: flow.av_in(0)})]
            if inst is p:
                reached[hl] = True
                return flow.KILL
            return None
        es.count_effects(fn, pdb, cl_l, retsets, values=values_l, cap=64)
    lo = not any(reached.get(x) for x in (0, 1, 7))
    hi = not any(reached.get(x) for x in (MAXPDU + 1, 65535, 2 ** 31, 2 ** 32 - 1)) and bool(reached.get(100)) and bool(reached.get(MAXPDU))
    ctx.check(dst_ok and len_ok and lo and hi, "C04.R1", "payload-receive-bounded", p.loc(),
              "destination buffer+8: %s, length header.len-8: %s, not reached for header.len < 8: %s, reached for 100 and 3248 but not for larger values: %s" % (dst_ok, len_ok, lo, hi),
              key="C04.R1:payload")
    # the header copy the bounds are checked on is the one just received
    cps = [c for c in fn.calls() if (c.callee or "").startswith("llvm.memcpy") and vf.root_of(vf.expr(fn, c.args[0]))[0] == "alloca"
           and vf.expr(fn, c.args[1]) == ("arg", 1) and fn.dom(h, c) and fn.dom(c, p)]
    ctx.check(bool(cps) and vf.expr(fn, cps[0].args[2]) == ("c", HDR), "C04.R1", "header-copy", cps[0].loc() if cps else p.loc(),
              "bounds are tested on a private copy of the 8 received bytes", key="C04.R1:copy")
    callers = pdb.callers("rtr_receive_pdu")
    ctx.floor("C04.R1", len(callers), 3)
    for c in callers:
        f = c.fn
        al = vf.alloca_of(f, c.args[1])
        size = None
        if al is not None:
            cnt = vf.expr(f, al["count"])
            size = al["elsize"] * cnt[1] if cnt[0] == "c" else None
        plen = vf.expr(f, c.args[2])
        ctx.check(size is not None and size >= MAXPDU and plen[0] == "c" and plen[1] >= MAXPDU and plen[1] <= size, "C04.R1",
                  "caller-buffer:%s" % f.name, c.loc(), "buffer of %s bytes, pdu_len %s" % (size, vf.show(plen)), key="C04.R1:caller:%s" % f.name)


def r2_r3(ctx):
    pdb = ctx.pdb
    ctx.rule("C04.R2", "rtr_pdu_check_size accepts exactly the RFC 8210 sizes: per type and version one length (Error Report: "
             "16 + encapsulated + text), unknown/reserved types never; struct layouts equal the RFC wire layouts")
    ctx.rule("C04.R3", "Error Report: total >= 16, then total >= 16 + encapsulated, only then the text length behind the "
             "encapsulated PDU is read, then total == 16 + encapsulated + text; all in 64-bit arithmetic")
    fn = pdb.fn("rtr_pdu_check_size")
    ctx.touch(fn)
    LEN = ("fld", ("arg", 0), "pdu_header.len")
    VER = ("fld", ("arg", 0), "pdu_header.ver")
    TYPE = ("fld", ("arg", 0), "pdu_header.type")   # read through rtr_get_pdu_type or directly
    ncell = 0
    bad = []
    for t in list(range(0, 13)) + [255]:
        for ver in (0, 1):
            if t == 10:
                continue
            name, total, fields = rfc8210.PDU.get(t, ("unknown", None, []))
            exact = total.get(ver) if isinstance(total, dict) else total
            cand = {0, 7, 8, 9, 11, 12, 13, 19, 20, 21, 23, 24, 25, 31, 32, 33, 122, 123, 124, MAXPDU}
            if exact:
                cand |= {exact - 1, exact, exact + 1}
            for ln in sorted(cand):
                ncell += 1

                class H(es.CountHooks):
                    def call_value(self, inst, E):
                        if inst.callee == "rtr_get_pdu_type":
                            return flow.av_in(t)
                        return None
                h = H(fn, pdb, lambda inst, E, st: None, None, None, None, None, None, {LEN: ln, VER: ver, TYPE: t})
                fl = flow.Flow(fn, h)
                fl.run()
                rets = {flow.av_single(av) for (i, p, av, f, tr) in fl.ret_states}
                want = 1 if (exact is not None and ln == exact) else 0
                if rets != {want}:
                    bad.append((t, ver, ln, sorted(rets, key=str), want))
    if bad:
        t, ver, ln, rets, want = bad[0]
        ctx.violation("C04.R2", "size-table", "%s:%d" % (fn.relfile, fn.line),
                      "type %d version %d length %d: accepted=%s, RFC says %s (%d of %d cells wrong)" % (t, ver, ln, rets, bool(want), len(bad), ncell),
                      key="C04.R2:size-table:type%d" % t)
    else:
        ctx.ok("C04.R2", "size-table", "%s:%d" % (fn.relfile, fn.line), "%d (type, version, length) cells agree with RFC 8210" % ncell)
    ctx.floor("C04.R2", ncell, 400)
    # Error Report: three comparisons in dominance order
    cmps = []
    for i in fn.all_insts():
        if i.op == "icmp" and i["pred"] in ("ult", "ne", "ugt", "uge", "ule", "eq"):
            a = vf.expr(fn, i["a"])
            if a[0] == "load" and (vf.last_field(a[1]) or "") == "pdu_error.len" and i.get("opty") == "i64":
                cmps.append(i)
    cmps.sort(key=lambda i: i.line)
    if not cmps:
        # the comparisons exist but in 32 bits: 16 + encapsulated length (+ text length) wraps for lengths near 2^32
        narrow = []
        for i in fn.all_insts():
            if i.op == "icmp" and i.get("opty") == "i32":
                a, b = vf.expr(fn, i["a"]), vf.expr(fn, i["b"])
                for x, y in ((a, b), (b, a)):
                    if vf.mentions(x, lambda e: isinstance(e, tuple) and len(e) == 2 and e[0] == "load" and (vf.last_field(e[1]) or "") == "pdu_error.len") and \
                            vf.mentions(y, lambda e: isinstance(e, tuple) and len(e) == 2 and e[0] == "load" and (vf.last_field(e[1]) or "") == "pdu_error.len_enc_pdu"):
                        narrow.append(i)
        if narrow:
            ctx.violation("C04.R3", "nested-length-chain", narrow[0].loc(),
                          "the Error Report's total length is compared with 16 + encapsulated length computed in 32 bits: an encapsulated "
                          "length near 2^32 wraps the sum, passes the bound, and the text length is read far outside the buffer",
                          key="C04.R3:chain")
            return
        raise AnalysisBroken("rtr_pdu_check_size: no 64-bit length comparison found in the Error Report arm")
    if not ctx.check(len(cmps) == 3, "C04.R3", "nested-length-chain", cmps[0].loc(),
                     "%d of the three length comparisons (>= 16, >= 16+encapsulated, == 16+encapsulated+text) present" % len(cmps), key="C04.R3:chain"):
        return
    c1, c2, c3 = cmps
    chain = fn.dom(c1, c2) and fn.dom(c2, c3)
    e1, e2, e3 = (vf.expr(fn, c["b"]) for c in cmps)

    def flat(e):
        if e[0] == "c":
            return e[1], []
        if e[0] == "bin" and e[1] == "add":
            a, x = flat(e[2])
            b, y = flat(e[3])
            return a + b, x + y
        return 0, [e]
    k1, t1 = flat(e1)
    k2, t2 = flat(e2)
    k3, t3 = flat(e3)

    def is_enc(e):
        return e[0] == "call" and e[1] in ("ntohl", "llvm.bswap.i32", "__bswap_32") and e[3] and e[3][0][0] == "load" and vf.last_field(e[3][0][1]) == "pdu_error.len_enc_pdu"

    def is_txt(e):
        return e[0] == "call" and e[1] in ("ntohl", "llvm.bswap.i32", "__bswap_32") and e[3] and e[3][0][0] == "load" and e[3][0][1][0] == "ptradd"
    forms = (k1 == 16 and not t1) and (k2 == 16 and len(t2) == 1 and is_enc(t2[0])) and \
        (k3 == 16 and len(t3) == 2 and any(is_enc(x) for x in t3) and any(is_txt(x) for x in t3))
    preds = (c1["pred"], c2["pred"], c3["pred"]) == ("ult", "ult", "ne")
    ctx.check(chain and forms and preds, "C04.R3", "nested-length-chain", c1.loc(),
              "len < %s ; len < %s ; len != %s (predicates %s), each dominating the next" % (vf.show(e1), vf.show(e2), vf.show(e3), (c1["pred"], c2["pred"], c3["pred"])),
              key="C04.R3:chain")
    # the text length is loaded only after the second check passed
    tl = [i for i in fn.all_insts() if i.op == "load" and vf.expr(fn, i["ptr"])[0] == "ptradd" and
          vf.last_field(vf.expr(fn, i["ptr"])[1]) == "pdu_error.rest"]
    ok_dom = bool(tl) and all(es.edge_dominates(fn, _br_of(fn, c2), False, x) for x in tl)
    ctx.check(ok_dom, "C04.R3", "text-length-read-after-bound", tl[0].loc() if tl else c2.loc(),
              "the read at rest+encapsulated is dominated by 'total >= 16 + encapsulated'", key="C04.R3:read-order")
    # outcome table on the three comparisons
    for outcome, want in (((True, None, None), 0), ((False, True, None), 0), ((False, False, True), 0), ((False, False, False), 1)):
        def oracle(inst, pred, a, b, E, outcome=outcome):
            for c, o in zip(cmps, outcome):
                if inst.id == c.id:
                    return o
            return None

        class H2(es.CountHooks):
            def call_value(self, inst, E):
                if inst.callee == "rtr_get_pdu_type":
                    return flow.av_in(10)
                return None
        h = H2(fn, pdb, lambda inst, E, st: None, None, None, None, None, oracle, {TYPE: 10})
        fl = flow.Flow(fn, h)
        fl.run()
        rets = {flow.av_single(av) for (i, p, av, f, tr) in fl.ret_states}
        ctx.check(rets == {want}, "C04.R2", "error-report[%s]" % (outcome,), "%s:%d" % (fn.relfile, fn.line), "accepted=%s expected %s" % (sorted(rets, key=str), want),
                  key="C04.R2:error-report:%s" % (outcome,))
    # layouts
    structs = {0: "pdu_serial_notify", 1: "pdu_serial_query", 2: "pdu_reset_query", 3: "pdu_cache_response", 4: "pdu_ipv4", 6: "pdu_ipv6",
               8: "pdu_header", 9: "pdu_router_key", 10: "pdu_error"}
    for t, sname in sorted(structs.items()):
        s = pdb.struct(sname)
        got = sorted((f["off"], f["sizebits"] // 8) for f in s["fields"] if f["sizebits"])
        exp = sorted((o, sz) for (n, o, sz) in rfc8210.PDU[t][2])
        total = rfc8210.PDU[t][1]
        size_ok = (s["size"] == total) if isinstance(total, int) else True
        ctx.check(got == exp and size_ok, "C04.R2", "layout:%s" % sname, "rtrlib/rtr/packets.c", "fields (offset,size) %s size %d; RFC %s" % (got, s["size"], exp),
                  key="C04.R2:layout:%s" % sname)
    for ver, sname in ((0, "pdu_end_of_data_v0"), (1, "pdu_end_of_data_v1")):
        s = pdb.struct(sname)
        got = sorted((f["off"], f["sizebits"] // 8) for f in s["fields"])
        exp = sorted((o, sz) for (n, o, sz) in rfc8210.PDU[7][2] if o < rfc8210.PDU[7][1][ver])
        ctx.check(got == exp and s["size"] == rfc8210.PDU[7][1][ver], "C04.R2", "layout:%s" % sname, "rtrlib/rtr/packets.c",
                  "fields %s size %d; RFC %s" % (got, s["size"], exp), key="C04.R2:layout:%s" % sname)


def _br_of(fn, icmp):
    for u in fn.uses(icmp.ref):
        if u.op == "br":
            return u
    raise AnalysisBroken("comparison at %s does not feed a branch" % icmp.loc())


def r2_object(ctx):
    """the size check and the conversions read as many bytes as the PDU claims to have: they must be given the receive buffer"""
    pdb = ctx.pdb
    n = 0
    for callee in ("rtr_pdu_check_size", "rtr_pdu_footer_to_host_byte_order"):
        for c in pdb.callers(callee):
            f = c.fn
            if f.name != "rtr_receive_pdu":
                continue
            n += 1
            e = vf.expr(f, c.args[0])
            ctx.check(e == ("arg", 1), "C04.R2", "%s:applied-to-the-receive-buffer" % callee, c.loc(),
                      "%s(%s): reads up to the PDU's own length fields, which only the caller's %d-byte buffer can hold" % (callee, vf.show(e), MAXPDU),
                      key="C04.R2:%s:object" % callee)
    ctx.floor("C04.R2", n, 2)


def r3_convert(ctx):
    """Error Report conversion: the encapsulated length is an offset into the buffer, so it must be in host order when used"""
    pdb = ctx.pdb
    fn = pdb.fn("rtr_pdu_convert_footer_byte_order")
    ctx.touch(fn)
    LEN = "pdu_error.len_enc_pdu"
    tonet, tohost = pdb.enum_value("TO_NETWORK_BYTE_ORDER"), pdb.enum_value("TO_HOST_HOST_BYTE_ORDER")

    def feeds_address(ref, depth=0):
        for u in fn.uses(ref):
            if u.op in ("getelementptr", "gep"):
                return True
            if u.op in ("zext", "sext", "trunc", "add", "phi", "bitcast") and depth < 4 and feeds_address(u.ref, depth + 1):
                return True
        return False
    for direction, name, start in ((tohost, "to host", "NET"), (tonet, "to network", "HOST")):
        bad = []
        used = []

        def classify(inst, E, st):
            if inst.op == "store" and vf.store_field(inst) == LEN:
                ve = vf.expr(fn, inst["val"])
                if ve[0] == "call" and ve[1] in ("lrtr_convert_long",):
                    return ["=len:" + ("HOST" if st.get("len") == "NET" else "NET")]
            if inst.op == "load" and vf.last_field(vf.expr(fn, inst["ptr"])) == LEN and feeds_address(inst.ref):
                used.append(inst)
                if st.get("len") != "HOST":
                    bad.append(inst)
            return None

        class H(es.CountHooks):
            def call_value(self, inst, E):
                if inst.callee == "rtr_get_pdu_type":
                    return flow.av_in(10)
                return None
        h = H(fn, pdb, classify, None, [("len", start)], None, None, None, {1: direction, ("fld", ("arg", 0), "pdu_header.type"): 10})
        fl = flow.Flow(fn, h)
        fl.run()
        if not used:
            raise AnalysisBroken("rtr_pdu_convert_footer_byte_order: no use of the encapsulated length as an offset found (direction %s)" % name)
        ctx.check(not bad, "C04.R3", "convert-footer[Error Report, %s]:offset-in-host-order" % name, (bad[0] if bad else used[0]).loc(),
                  "the encapsulated length is used as an offset into the buffer %s" % (
                      "while still in network byte order (the text-length word is read and written far outside the PDU)" if bad else "only while it is in host byte order"),
                  key="C04.R3:convert:%s" % name.replace(" ", "-"))


def r4(ctx, retsets):
    pdb = ctx.pdb
    ctx.rule("C04.R4", "a PDU refused by rtr_receive_pdu is never looked at: the failed size check returns a negative result "
             "after an error state, and every caller reads the buffer only behind a test that excludes negative results")
    fn = pdb.fn("rtr_receive_pdu")

    def classify(inst, E, st):
        if inst.op == "call" and inst.callee == "rtr_pdu_check_size":
            return [(["=sz:bad"], {inst.ref: flow.av_in(0)}), (["=sz:ok"], {inst.ref: flow.av_in(1)})]
        if inst.op == "call" and inst.callee == fsm.CHANGE:
            return ["state"]
        if rfc8210.conv_kind(pdb, fn, inst) == ("footer", "host"):
            return ["footer"]
        return None
    outs, fl = es.count_effects(fn, pdb, classify, retsets)
    badsz = [o for o in outs if o["counts"].get("sz") == "bad"]
    good = bool(badsz) and all(flow.av_single(o["ret"]) is not None and flow.av_single(o["ret"]) < 0 and o["counts"].get("state") and
                               not o["counts"].get("footer") for o in badsz)
    ctx.check(good, "C04.R4", "failed-size-check=>failure", "%s:%d" % (fn.relfile, fn.line),
              "outcomes after a failed size check: %s" % [(o["counts"], o["ret"]) for o in badsz][:3], key="C04.R4:size-check")
    n = 0
    rf = pdb.fn("rtr_receive_pdu")
    rcs = retsets.get((rf.unit, rf.name))
    rcs = sorted(rcs) if rcs and rcs != "TOP" else [0, -1, -2, -3, -4]
    done = set()
    for c in pdb.callers("rtr_receive_pdu"):
        f = c.fn
        if f.name in done:
            continue
        done.add(f.name)
        ctx.touch(f)
        buf = vf.root_of(vf.expr(f, c.args[1]))
        uses = {}
        for i in f.all_insts():
            if i.op == "call" and i.callee == "rtr_receive_pdu":
                continue
            if not any(f.reaches(c2, i) for c2 in f.calls("rtr_receive_pdu")):
                continue
            if i.op == "call" and any(vf.root_of(vf.expr(f, a)) == buf for a in i.args) and not (i.callee or "").startswith("llvm."):
                uses[id(i)] = i
            elif i.op == "load" and vf.root_of(vf.expr(f, i["ptr"])) == buf:
                uses[id(i)] = i
        # followed along the paths, one per result code of the receive: however the caller tests the result (directly, through a
        # helper's return value, by a switch), no path on which the last receive failed may reach a use of the buffer
        reached = {}

        def cl(inst, E, st, uses=uses, reached=reached):
            if inst.op == "call" and inst.callee == "rtr_receive_pdu":
                return [(["=rc:%d" % v], {inst.ref: flow.av_in(v)}) for v in rcs]
            if id(inst) in uses and "rc" in st:
                reached.setdefault(id(inst), set()).add(int(st["rc"]))
            return None
        es.count_effects(f, pdb, cl, retsets, cap=48)
        for k, u in sorted(uses.items(), key=lambda ku: (ku[1].line, ku[1].id)):
            n += 1
            neg = sorted(v for v in reached.get(k, ()) if v < 0)
            ctx.check(not neg, "C04.R4", "%s:buffer-use@%d" % (f.name, n), u.loc(),
                      "%s of the receive buffer is reached only after a receive that succeeded" % (u.callee or "read") if not neg else
                      "%s of the receive buffer is reached on a path where the receive had returned %s" % (u.callee or "read", neg), key="C04.R4:%s:use" % f.name)
    ctx.floor("C04.R4", n, 10)


def r5(ctx, retsets):
    pdb = ctx.pdb
    ctx.rule("C04.R5", "framing: tr_recv is called only by tr_recv_all, tr_send only by tr_send_all; the protocol code uses "
             "only the _all forms; both loops return the first negative result at once and otherwise continue until len "
             "bytes are done (how the stream is split cannot change what the parser sees)")
    for raw, loop in (("tr_recv", "tr_recv_all"), ("tr_send", "tr_send_all")):
        fp = "tr_socket.%s_fp" % raw[3:]

        def is_raw(f, inst, raw=raw, fp=fp):
            """a single transfer attempt: tr_send / tr_recv, or the same written out (socket->send_fp(socket->socket, ...))"""
            if inst.op != "call":
                return False
            if inst.callee == raw:
                return True
            if inst.callee is None and inst.d.get("fptr"):
                e = vf.expr(f, inst["fptr"])
                return e[0] == "load" and vf.last_field(e[1]) == fp
            return False
        # who may make a single transfer attempt: the wrapper and the loop, nobody else in the library
        users = sorted({f.name for f in pdb.all_functions() for i in f.all_insts() if is_raw(f, i) and "/rtrlib/" in ("/" + f.relfile)})
        ctx.check(set(users) <= {raw, loop} and loop in users, "C04.R5", "%s-callers" % raw, "rtrlib/transport/transport.c",
                  "single %s attempts (tr_%s or socket->%s_fp) made in %s" % (raw[3:], raw[3:], raw[3:], users), key="C04.R5:%s" % raw)
        fn = pdb.fn(loop)
        ctx.touch(fn)
        for v in (-1, -2, -3, -4, -77):
            def classify(inst, E, st, v=v):
                if is_raw(fn, inst):
                    n_ = st.get("calls", 0)
                    if n_ == 0:
                        return [(["calls", "=seq:neg"], {inst.ref: flow.av_in(v)}), (["calls", "=seq:pos"], {inst.ref: flow.av_in(3)})]
                    if n_ == 1 and st.get("seq") == "pos":
                        return [(["calls", "=seq:posneg"], {inst.ref: flow.av_in(v)})]
                    return flow.KILL
                return None
            outs, fl = es.count_effects(fn, pdb, classify, retsets, cell={2: 8})
            for seq, label in (("neg", "first result"), ("posneg", "second result after a partial transfer")):
                sel = [o for o in outs if o["counts"].get("seq") == seq]
                rets = {flow.av_single(o["ret"]) for o in sel}
                ctx.check(rets == {v}, "C04.R5", "%s[%s %d]" % (loop, label, v), "%s:%d" % (fn.relfile, fn.line),
                          "returns %s (expected %d at once)" % (sorted(rets, key=str) if sel else "nothing: the loop goes on", v), key="C04.R5:%s:neg" % loop)
        # progress, evaluated: buffer at address 1000, 8 bytes wanted, the first attempt moves 3, the second 2: the attempts must be
        # (1000, 8), (1003, 5), (1005, 3) - however the position is kept (an offset added to the buffer, a cursor that is advanced)
        calls = [i for i in fn.all_insts() if is_raw(fn, i)]
        ctx.floor("C04.R5", len(calls), 1)
        c = calls[0]
        seen_args = []

        def classify_p(inst, E, st):
            if is_raw(fn, inst):
                n_ = int(st.get("n", "0"))
                seen_args.append((n_, flow.av_single(E.val(inst.args[1])), flow.av_single(E.val(inst.args[2]))))
                if n_ >= 2:
                    return flow.KILL
                return [(["=n:%d" % (n_ + 1)], {inst.ref: flow.av_in((3, 2)[n_])})]
            return None
        es.count_effects(fn, pdb, classify_p, retsets, cell={1: 1000, 2: 8})
        adv = sorted(set(seen_args)) == [(0, 1000, 8), (1, 1003, 5), (2, 1005, 3)]
        ctx.check(adv, "C04.R5", "%s:advances" % loop, c.loc(),
                  "attempts (position, length) for 3 and then 2 bytes moved out of 8 at address 1000: %s (expected 1000/8, 1003/5, 1005/3)" % [a[1:] for a in sorted(set(seen_args))],
                  key="C04.R5:%s:adv" % loop)
    # the read-until-complete loop ends only on a negative result or when len bytes are in: the built-in transports must therefore
    # never hand it a 0 ("no bytes, no error") - a closed connection is TR_CLOSED, an empty non-blocking read TR_WOULDBLOCK
    TRV = pdb.enum("tr_rtvals")
    for tname, prim, zero_ok in (("tr_tcp_recv", "recv", {TRV["TR_CLOSED"]}), ("tr_ssh_recv_async", "ssh_channel_read_nonblocking", {TRV["TR_CLOSED"], TRV["TR_WOULDBLOCK"]})):
        if not pdb.has_fn(tname):
            continue
        tf = pdb.fn(tname)
        ctx.touch(tf)
        for res, name in ((0, "0 bytes"), (7, "7 bytes"), (-1, "failure")):
            def cl_r(inst, E, st, res=res):
                if inst.op == "call" and inst.callee == prim:
                    return [(["read"], {inst.ref: flow.av_in(res)})]
                if inst.op == "call" and inst.callee in ("setsockopt", "ssh_channel_is_eof"):
                    return None
                return None
            outs_r, _f = es.count_effects(tf, pdb, cl_r, None)
            rets = {flow.av_single(o["ret"]) for o in outs_r if o["counts"].get("read")}
            if res == 0:
                good = bool(rets) and rets <= zero_ok
                exp = "one of %s" % sorted(zero_ok)
            elif res > 0:
                good = rets == {res}
                exp = "the byte count"
            else:
                good = bool(rets) and all(r is not None and r < 0 for r in rets)
                exp = "a negative transport code"
            ctx.check(good, "C04.R5", "%s[%s returns %s]" % (tname, prim, name), "%s:%d" % (tf.relfile, tf.line),
                      "returns %s (expected %s)" % (sorted(rets, key=str), exp), key="C04.R5:%s:%d" % (tname, res))
    users = {c.fn.name for cal in ("tr_recv", "tr_send") for c in pdb.callers(cal) if c.fn.unit.startswith("rtrlib/rtr")}
    ctx.check(not users, "C04.R5", "protocol-code-uses-_all-only", "rtrlib/rtr", "raw transport calls in protocol code: %s" % sorted(users), key="C04.R5:proto")


def _upper(pdb, fn, e, depth=0):
    """upper bound of an unsigned length expression, or None"""
    if depth > 10:
        return None
    if e[0] == "c":
        return e[1]
    if e[0] == "bin" and e[1] == "add":
        a, b = _upper(pdb, fn, e[2], depth + 1), _upper(pdb, fn, e[3], depth + 1)
        return None if a is None or b is None else a + b
    if e[0] == "select":
        a, b = _upper(pdb, fn, e[2], depth + 1), _upper(pdb, fn, e[3], depth + 1)
        return None if a is None or b is None else max(a, b)
    if e[0] == "load" and (vf.last_field(e[1]) or "").endswith(".len") and (vf.last_field(e[1]) or "").startswith("pdu_"):
        return MAXPDU     # length field of a PDU that rtr_receive_pdu accepted (C04.R1)
    if e[0] == "call" and e[1] == "strlen":
        al = e[3][0]
        r = vf.root_of(al)
        if isinstance(r, tuple) and r[0] == "alloca":
            a = fn.insts.get(r[1])
            cnt = vf.expr(fn, a["count"])
            if cnt[0] == "c":
                return a["elsize"] * cnt[1] - 1
        return None
    if e[0] == "phi":
        # one of several call-site constants chosen on the way (a text picked by a switch): the largest of them
        ph = fn.insts.get(e[1])
        best = 0
        for v, b in ph["inc"]:
            x = vf.expr(fn, v)
            if x == e:
                continue
            u = _upper(pdb, fn, x, depth + 1)
            if u is None:
                return None
            best = max(best, u)
        return best
    if e[0] == "load" and isinstance(e[1], tuple) and e[1][0] == "alloca":
        # a scalar local whose address is taken (a parameter copied out with memcpy): the largest value ever stored into it
        sts = [i for i in fn.all_insts() if i.op == "store" and vf.expr(fn, i["ptr"]) == e[1]]
        wr = [i for i in fn.all_insts() if i.op == "call" and any(vf.root_of(vf.expr(fn, a)) == e[1] for a in i.args[:1])
              and (i.callee or "").startswith(("llvm.memcpy", "llvm.memset", "llvm.memmove", "memcpy", "memset", "memmove"))]
        if not sts or wr:
            return None
        best = 0
        for i in sts:
            u = _upper(pdb, fn, vf.expr(fn, i["val"]), depth + 1)
            if u is None:
                return None
            best = max(best, u)
        return best
    if e[0] == "arg":
        best = 0
        sites = pdb.callers(fn.name)
        if not sites:
            return None
        for c in sites:
            u = _upper(pdb, c.fn, vf.expr(c.fn, c.args[e[1]]), depth + 1)
            if u is None:
                return None
            best = max(best, u)
        return best
    return None


def r6(ctx):
    pdb = ctx.pdb
    ctx.rule("C04.R6", "variable-length stack arrays in the protocol code: the size is a sum of call-site constants and "
             "lengths that rtr_receive_pdu bounded; never an unchecked wire value")
    n = 0
    for f in [x for x in pdb.all_functions() if x.unit == "rtrlib/rtr/packets.c"]:
        for a in f.all_insts():
            if a.op != "alloca":
                continue
            cnt = vf.expr(f, a["count"])
            if cnt[0] == "c":
                continue
            n += 1
            ub = _upper(pdb, f, cnt)
            ctx.check(ub is not None and ub * a["elsize"] <= 2 * MAXPDU + 256, "C04.R6", "vla:%s:%s" % (f.name, a.get("name", "")), a.loc(),
                      "size %s, upper bound %s bytes" % (vf.show(cnt), ub), key="C04.R6:%s" % f.name)
    ctx.floor("C04.R6", n, 1)
    # ... and the constant length told to a formatter / receive / block copy that writes into a local array is not larger than the array
    SINKS = {"lrtr_ip_addr_to_str": (1, 2), "lrtr_ipv4_addr_to_str": (1, 2), "lrtr_ipv6_addr_to_str": (1, 2), "snprintf": (0, 1), "vsnprintf": (0, 1),
             "memcpy": (0, 2), "memset": (0, 2), "memmove": (0, 2), "strncpy": (0, 2), "inet_ntop": (2, 3), "tr_recv_all": (1, 2), "rtr_receive_pdu": (1, 2)}
    m = 0
    for f in [x for x in pdb.all_functions() if x.unit.startswith("rtrlib/")]:
        for c in f.calls():
            cal = c.callee or ""
            key_ = "memcpy" if cal.startswith("llvm.memcpy") else ("memset" if cal.startswith("llvm.memset") else ("memmove" if cal.startswith("llvm.memmove") else cal))
            if key_ not in SINKS:
                continue
            bi, li = SINKS[key_]
            if len(c.args) <= max(bi, li):
                continue
            be, le = vf.expr(f, c.args[bi]), vf.expr(f, c.args[li])
            r = vf.root_of(be)
            if not (isinstance(r, tuple) and r[0] == "alloca" and le[0] == "c" and isinstance(le[1], int)):
                continue
            whole = be == r or (be[0] == "idx" and be[1] == r and be[2] == ("c", 0)) or (be[0] == "idx" and be[1][0] == "idx" and be[1][1] == r and be[2] == ("c", 0))
            if not whole:
                continue        # a field or an offset inside the object: the layout rules (C14.R7) and the callee's own bounds apply
            a = f.insts[r[1]]
            cnt = vf.expr(f, a["count"])
            if cnt[0] != "c":
                cnt = ("c", _upper(pdb, f, cnt)) if _upper(pdb, f, cnt) is not None else None
            if cnt is None:
                continue
            size = cnt[1] * a["elsize"]
            m += 1
            ctx.check(le[1] <= size, "C04.R6", "%s:%s(%s)@%d" % (f.name, key_, a.get("name", "local"), c.line), c.loc(),
                      "writes up to %d bytes into %s, which has %d" % (le[1], a.get("name", "a local array"), size), key="C04.R6:%s:%s:%s" % (f.name, key_, a.get("name", "")))
    ctx.floor("C04.R6", m, 20)


def r7_r8(ctx):
    pdb = ctx.pdb_assert
    ctx.rule("C04.R7", "bit extraction: the bit count at the covering test is dominated by 'node length <= queried length'; "
             "lrtr_get_bits accepts every count 0..32 (only counts above 32 assert)")
    ctx.rule("C04.R8", "every assertion reachable from rtr_sync / rtr_wait_for_sync is discharged (call-site constants, "
             "dominating guards at the call sites, type test of the same buffer) or listed as undecided with its reason")
    fn = pdb.fn("lrtr_get_bits")
    ctx.touch(fn)
    bad = []
    for number in range(0, 40):
        for frm in (0, 1, 31):
            outs, fl = dt.eval_cell(fn, pdb, {1: frm, 2: number})
            aborted = any(o["ret"] == "noreturn" for o in outs)
            if aborted != (number > 32):
                bad.append((frm, number, aborted))
    ctx.check(not bad, "C04.R7", "lrtr_get_bits:domain", "%s:%d" % (fn.relfile, fn.line),
              "aborts exactly for counts > 32" if not bad else "from=%d count=%d: aborts=%s" % bad[0], key="C04.R7:lrtr_get_bits:number>0")
    tl = pdb.fn("trie_lookup")
    ctx.touch(tl)
    gb = tl.calls("lrtr_ip_addr_get_bits")
    ctx.floor("C04.R7", len(gb), 2)
    for c in gb:
        num = vf.expr(tl, c.args[-1])
        frm = vf.expr(tl, c.args[-2])
        cov = es.Guards(tl, c).le(num, ("arg", 2))
        ctx.check(frm == ("c", 0) and cov and num[0] == "load" and vf.last_field(num[1]) == "trie_node.len", "C04.R7",
                  "trie_lookup:get_bits@%d" % c.line, c.loc(), "first bit %s, count %s, dominated by count <= mask_len: %s" % (vf.show(frm), vf.show(num), cov),
                  key="C04.R7:trie_lookup:covering-guard")
    # R8: classification of reachable asserts
    reach = pdb.reachable_from(["rtr_sync", "rtr_wait_for_sync"])
    UNDECIDED = {
        ("lrtr_ipv6_get_bits", None): "needs 'tree depth <= 127' / 'first_bit + quantity <= 128' (trie shape invariant over histories)",
        ("pfx_table_remove", None): "trie_remove finds the node just looked up; emptied node has no elements (trie shape invariant)",
        ("pfx_table_remove_id", "trie_remove"): "trie shape invariant",
        ("pfx_table_free", None): "trie shape invariant",
        ("pfx_table_for_each_rec", "data"): "every node carries a data block (construction invariant of pfx_table_create_node)",
        ("add_child_node", None): "enum argument: both call sites pass LEFT/RIGHT literals",
    }
    n = 0
    for f in pdb.all_functions():
        if f.name not in reach:
            continue
        for c in f.calls("__assert_fail"):
            n += 1
            guards = [(vf.expr(f, g), t, br) for g, t, br in es.guards_of(f, c)]
            cond = guards[-1][0] if guards else None
            verdict, why = _discharge(pdb, f, c, cond)
            if cond is None:
                # assert(0) behind the default arm of a switch over an argument: 'the argument is one of the case constants'
                for b in f.blocks:
                    t = b.term
                    if t.op == "switch" and vf.expr(f, t["cond"])[0] == "arg" and f.bdom(t["default"], c.block.id) and \
                            all(pb == b.id or f.bdom(t["default"], pb) for pb in f.blocks[t["default"]].preds) and \
                            all(dst != t["default"] for kk, dst in t["cases"]):
                        k = vf.expr(f, t["cond"])[1]
                        allowed = {kk for kk, dst in t["cases"]}
                        vals = _arg_values(pdb, f, k)
                        if vals is not None and vals <= allowed:
                            verdict, why = "discharged", "argument %d is %s at every call site (the assertion sits behind the default arm of a switch with cases %s)" % (
                                k, sorted(vals), sorted(allowed))
                        else:
                            verdict, why = "undecided", "argument %d = %s at the call sites, switch cases %s" % (k, vals, sorted(allowed))
            inst = "%s@%d" % (f.name, [x.id for x in f.calls("__assert_fail")].index(c.id) + 1)
            if verdict == "discharged":
                ctx.ok("C04.R8", "assert:%s" % inst, c.loc(), why)
            elif verdict == "undecided":
                ctx.ok("C04.R8", "assert:%s:undecided" % inst, c.loc(), "NOT DECIDED — " + why)
                ctx.not_decided("assert at %s (%s): %s" % (c.loc(), vf.show(cond) if cond else "?", why))
            else:
                ctx.violation("C04.R8", "assert:%s" % inst, c.loc(), why, key="C04.R8:%s:%s" % (f.name, vf.show(cond) if cond else "?"))
    ctx.floor("C04.R8", n, 25)


def _arg_values(pdb, fn, k, depth=0):
    """set of constants argument k can take over all call sites (following forwarded parameters), or None"""
    if depth > 5:
        return None
    vals = set()
    sites = pdb.callers(fn.name)
    if not sites:
        return None
    for c in sites:
        e = vf.expr(c.fn, c.args[k])
        if e[0] == "c":
            vals.add(e[1])
        elif e[0] == "arg":
            sub = _arg_values(pdb, c.fn, e[1], depth + 1)
            if sub is None:
                return None
            vals |= sub
        elif e[0] == "select" and e[2][0] == "c" and e[3][0] == "c":
            vals |= {e[2][1], e[3][1]}
        else:
            return None
    return vals


def _discharge(pdb, f, c, cond):
    if cond is None:
        return "violation", "assertion without a recognisable condition"
    # (a) argument compared with constants: all call sites pass allowed constants
    if cond[0] == "icmp" and cond[2][0] == "arg" and cond[3][0] == "c":
        k = cond[2][1]
        # collect every constant this argument is compared with on the way to the assert (a == K1 || a == K2 ...)
        allowed = set()
        lower = None
        for g, t, br in es.guards_of(f, c):
            e = vf.expr(f, g)
            if e[0] == "icmp" and e[2] == ("arg", k) and e[3][0] == "c" and e[1] == "eq":
                allowed.add(e[3][1])
            if e[0] == "icmp" and e[2] == ("arg", k) and e[3][0] == "c" and e[1] in ("uge", "sge") and not t:
                lower = e[3][1]
        vals = _arg_values(pdb, f, k)
        if vals is not None and allowed and vals <= allowed:
            return "discharged", "argument %d is %s at every call site (asserted: one of %s)" % (k, sorted(vals), sorted(allowed))
        if vals is not None and lower is not None and all(v >= lower for v in vals):
            return "discharged", "argument %d is %s at every call site (asserted: >= %d)" % (k, sorted(vals), lower)
        if allowed and vals is None:
            # the argument is the type byte the caller has just read from the same PDU
            sites = pdb.callers(f.name)
            verdicts = []
            for cs in sites:
                e = vf.expr(cs.fn, cs.args[k])
                if e[0] == "call" and e[1] == "rtr_get_pdu_type" and e[3][0][0] == "arg":
                    verdicts.append(_type_sites(pdb, cs.fn, e[3][0][1], allowed, 1))
                else:
                    verdicts.append(("undecided", "call at %s passes %s" % (cs.loc(), vf.show(e))))
            if verdicts and all(v == "discharged" for v, w in verdicts):
                return "discharged", "type byte of the caller's PDU, which is " + "; ".join(sorted({w for v, w in verdicts}))[:260]
        if cond[1] == "ne" and cond[3] == ("c", 0):
            ok, why = _nonnull_at_sites(pdb, f, k)
            if ok:
                return "discharged", why
            return "undecided", "non-null argument %d: %s" % (k, why)
        if f.name in ("lrtr_get_bits", "lrtr_ipv6_get_bits"):
            return "undecided", "bit position / count bounded by the covering guard (C04.R7) for the count and by the trie depth for the position: needs 'depth <= width' (trie shape invariant over histories)"
        return "undecided", "argument %d = %s at the call sites" % (k, vals)
    # (b) type test of the buffer: rtr_get_pdu_type(arg) == T
    if cond[0] == "icmp" and cond[2][0] == "call" and cond[2][1] == "rtr_get_pdu_type":
        return _type_assert(pdb, f, c, cond)
    if f.name == "lrtr_ipv6_get_bits":
        return "undecided", "needs 'tree depth <= 127' and 'first_bit + quantity <= 128' (trie shape invariant over histories)"
    if f.name in ("pfx_table_remove", "pfx_table_remove_id", "pfx_table_free", "pfx_table_for_each_rec"):
        return "undecided", "trie shape / construction invariant (node found again by trie_remove, emptied node, data block present)"
    return "undecided", "no static argument implemented for this condition"


def _nonnull_at_sites(pdb, f, k):
    sites = pdb.callers(f.name)
    if not sites:
        return False, "API precondition (argument supplied by the user)"
    for c in sites:
        e = vf.expr(c.fn, c.args[k])
        if e[0] in ("alloca", "fld", "g"):
            continue
        if e[0] == "phi":
            ph = c.fn.insts.get(e[1])
            if ph is not None and all(vf.expr(c.fn, v)[0] in ("alloca", "fld", "g") for v, b in ph["inc"]):
                continue    # address of one of several objects
        if e[0] == "arg":
            if c.fn.name == f.name or c.fn.linkage != "internal":
                continue   # forwarded unchanged in the recursion / API precondition of the caller
            ok, why = _nonnull_at_sites(pdb, c.fn, e[1])
            if not ok:
                return False, why
            continue
        guards = [(vf.expr(c.fn, g), t) for g, t, br in es.guards_of(c.fn, c)]
        nn = any((g == e and t) or (g[0] == "icmp" and g[1] == "ne" and g[2] == e and g[3] == ("c", 0) and t) or
                 (g[0] == "icmp" and g[1] == "eq" and g[2] == e and g[3] == ("c", 0) and not t) for g, t in guards)
        if not nn:
            return False, "call at %s passes %s without a dominating non-null test" % (c.loc(), vf.show(e))
    return True, "every call site passes an address or a value tested non-null just before (%d sites)" % len(sites)


def _type_assert(pdb, f, c, cond):
    """assert(rtr_get_pdu_type(p) == T ...): p is the receive buffer under a type test, or an element of the temporary array of
    that type (filled only under the matching type test, copied with its type byte)"""
    allowed = set()
    for g, t, br in es.guards_of(f, c):
        e = vf.expr(f, g)
        if e[0] == "icmp" and e[1] == "eq" and e[2][0] == "call" and e[2][1] == "rtr_get_pdu_type" and e[3][0] == "c":
            allowed.add(e[3][1])
    fam = {4: "pdu_ipv4", 6: "pdu_ipv6", 9: "pdu_router_key"}
    parg = cond[2][3][0]
    if parg[0] != "arg":
        return "undecided", "type assert on %s" % vf.show(parg)
    k = parg[1]
    return _type_sites(pdb, f, k, allowed, 0)


def _type_sites(pdb, f, k, allowed, depth):
    if depth > 4:
        return "undecided", "call chain too deep"
    sites = pdb.callers(f.name)
    if not sites:
        return "undecided", "no call site"
    reasons = []
    for c in sites:
        g = c.fn
        e = vf.expr(g, c.args[k])
        if e[0] == "arg":
            v, why = _type_sites(pdb, g, e[1], allowed, depth + 1)
            if v != "discharged":
                return v, why
            reasons.append(why)
            continue
        guards = [(vf.expr(g, x), t) for x, t, br in es.guards_of(g, c)]
        types = {gg[3][1] for gg, t in guards if gg[0] == "icmp" and gg[1] == "eq" and t and gg[2][0] == "call" and gg[2][1] == "rtr_get_pdu_type"
                 and gg[3][0] == "c" and vf.root_of(gg[2][3][0]) == vf.root_of(e)}
        if types and types <= allowed:
            reasons.append("%s: same buffer tested to be type %s" % (g.name, sorted(types)))
            continue
        # element of a temporary array: find the store helper calls that fill this array and their type guard
        r = vf.root_of(e)
        if isinstance(r, tuple) and r[0] == "alloca":
            fills = [x for x in g.calls() if x.callee in ("rtr_store_prefix_pdu", "rtr_store_router_key_pdu") and
                     any(vf.root_of(vf.expr(g, a)) == r for a in x.args)]
            if fills:
                okf = True
                for x in fills:
                    gs = [(vf.expr(g, y), t) for y, t, br in es.guards_of(g, x)]
                    ts = {gg[3][1] for gg, t in gs if gg[0] == "icmp" and gg[1] == "eq" and t and gg[3][0] == "c" and
                          (gg[2][0] == "call" and gg[2][1] == "rtr_get_pdu_type")}
                    if not ts or not ts <= allowed:
                        okf = False
                if okf:
                    reasons.append("%s: element of a temporary array filled only under type test %s" % (g.name, sorted(allowed)))
                    continue
        return "undecided", "call at %s: type of %s not established" % (c.loc(), vf.show(e))
    return "discharged", "; ".join(sorted(set(reasons)))[:300]


def r9(ctx, retsets):
    pdb = ctx.pdb
    ctx.rule("C04.R9", "temporary PDU stores: the array is grown (by whole elements of the size later copied) whenever "
             "index >= capacity, so index < capacity holds at the copy; index advances by one; a failed growth keeps the "
             "old array and fails the call")
    for fname in ("rtr_store_prefix_pdu", "rtr_store_router_key_pdu"):
        fn = pdb.fn(fname)
        ctx.touch(fn)
        IND, SIZE, ARY = ("arg", 4), ("arg", 5), ("arg", 3)
        cmpi = [i for i in fn.all_insts() if i.op == "icmp" and {vf.expr(fn, i["a"]), vf.expr(fn, i["b"])} == {("load", IND), ("load", SIZE)}]
        if not cmpi:
            raise AnalysisBroken("%s: capacity test not found" % fname)
        # on values (index, capacity) - whichever way the test is written: (5,5) and (6,5) are full, (4,5) and (0,5) are not
        for full, cellv in ((True, (5, 5)), (True, (6, 5)), (False, (4, 5)), (False, (0, 5))):
            for alloc_ok in (True, False):
                oracle = None

                def values(pe, cellv=cellv):
                    return cellv[0] if pe == IND else (cellv[1] if pe == SIZE else None)

                def classify(inst, E, st, alloc_ok=alloc_ok):
                    if inst.op == "call" and inst.callee == "lrtr_realloc":
                        sz = vf.expr(fn, inst.args[1])
                        whole = sz[0] == "bin" and sz[1] == "mul" and ("arg", 2) in (sz[2], sz[3]) and \
                            any(x[0] == "load" and x[1] == SIZE for x in (sz[2], sz[3]) if isinstance(x, tuple))
                        return [(["grow" if whole else "grow_wrongsize"], {inst.ref: (("nin", frozenset([0])) if alloc_ok else flow.av_in(0))})]
                    if inst.op == "store":
                        pe = vf.expr(fn, inst["ptr"])
                        if pe == SIZE:
                            v = vf.expr(fn, inst["val"])
                            return ["cap+" if v[0] == "bin" and v[1] == "add" and v[2] == ("load", SIZE) and v[3][0] == "c" and v[3][1] > 0 else "cap?"]
                        if pe == IND:
                            v = vf.expr(fn, inst["val"])
                            return ["idx+1" if v == ("bin", "add", ("load", IND), ("c", 1)) else "idx?"]
                        if pe == ARY:
                            if E.path_expr(inst["val"]) == ("load", ARY):
                                return None       # the array pointer written back unchanged (a helper that hands the - possibly moved - array back)
                            return ["ary<-new" if flow.av_single(E.val(inst["val"])) != 0 else "ary<-NULL"]
                    if inst.op == "call" and inst.callee == "rtr_get_pdu_type" and fname == "rtr_store_prefix_pdu":
                        # precondition (asserted, discharged under R8): the PDU is an IPv4 or IPv6 prefix PDU
                        return [([], {inst.ref: flow.av_in(4)}), ([], {inst.ref: flow.av_in(6)})]
                    if inst.op == "call" and (inst.callee or "").startswith("llvm.memcpy"):
                        d = vf.expr(fn, inst.args[0])
                        if isinstance(vf.root_of(d), tuple) and vf.root_of(d)[0] == "alloca":
                            return None   # initialisation of a local text buffer
                        at_index = d[0] == "ptradd" and d[2] == ("load", IND) or (d[0] == "idx" and d[2] == ("load", IND))
                        n_ok = vf.expr(fn, inst.args[2]) == ("arg", 2)
                        return ["copy" if at_index and n_ok else "copy?"]
                    if inst.op == "call" and (inst.callee or "").startswith("rtr_send_error_pdu"):
                        return ["report"]
                    if inst.op == "call" and inst.callee in ("lrtr_free", "free"):
                        return ["free"]       # the store never releases anything: the caller owns (and frees) the array
                    return None
                outs, fl = es.count_effects(fn, pdb, classify, retsets, values=values)
                if not full and not alloc_ok:
                    continue
                if not full:
                    exp, ret = {"copy": 1, "idx+1": 1}, 0
                elif alloc_ok:
                    exp, ret = {"cap+": 1, "grow": 1, "ary<-new": 1, "copy": 1, "idx+1": 1}, 0
                else:
                    exp, ret = {"cap+": 1, "grow": 1, "report": 1}, -1
                found = [({k: v for k, v in o["counts"].items()}, flow.av_single(o["ret"])) for o in outs]
                ctx.check(bool(outs) and all(c == exp and r == ret for c, r in found), "C04.R9", "%s[full=%s,alloc=%s]" % (fname, full, alloc_ok) + ("" if cellv in ((5, 5), (4, 5)) else "(index %d, capacity %d)" % cellv),
                          "%s:%d" % (fn.relfile, fn.line), "index %d, capacity %d: effects %s, expected (%s, %d)" % (cellv[0], cellv[1], found, exp, ret), key="C04.R9:%s:%s:%s" % (fname, full, alloc_ok))
    # element size at the call sites = size of the array's element type
    f = pdb.fn(RECV)
    n = 0
    for callee in ("rtr_store_prefix_pdu", "rtr_store_router_key_pdu"):
        for c in f.calls(callee):
            n += 1
            al = vf.alloca_of(f, c.args[3])
            elty = (al["aty"] if al is not None else "").replace("%struct.", "").rstrip("*")
            want = pdb.structs.get(elty, {}).get("size")
            ctx.check(vf.expr(f, c.args[2]) == ("c", want), "C04.R9", "element-size:%s" % elty, c.loc(),
                      "element size argument %s, sizeof(struct %s) = %s" % (vf.show(vf.expr(f, c.args[2])), elty, want), key="C04.R9:elsize:%s" % elty)
    ctx.floor("C04.R9", n, 3)


def check(ctx):
    retsets = flow.return_sets(ctx.pdb)
    from specs import C14 as _C14
    _C14.report_interface(ctx.pdb)
    r1(ctx, retsets)
    r2_r3(ctx)
    r2_object(ctx)
    r3_convert(ctx)
    r4(ctx, retsets)
    r5(ctx, retsets)
    r6(ctx)
    r7_r8(ctx)
    r9(ctx, retsets)
    from specs import C14
    with ctx.shared({"C14.R6": ("C04.R10", "rtr_send_error_pdu_from_host converts exactly as much of the echoed buffer as it was given (8 bytes: header "
                                "only; a whole PDU: header and footer) - several callers pass an 8-byte stack copy")}):
        C14.r6(ctx, retsets)
    ctx.not_decided("termination when a user transport keeps returning 0 bytes without error")
    ctx.not_decided("absence of undefined shifts / asserts whose truth needs the invariant depth <= prefix length <= address width")


PK = "rtrlib/rtr/packets.c"
TR = "rtrlib/transport/transport.c"
UT = "rtrlib/lib/utils.c"
TRIE = "rtrlib/pfx/trie/trie.c"
WITNESSES = [
    {"id": "C04.w1-no-upper-length-bound", "rule": "C04.R1", "file": PK,
     "old": "\t} else if (header.len > RTR_MAX_PDU_LEN) { // PDU too big, > than MAX_PDU_LEN Bytes\n\t\terror = PDU_TOO_BIG;\n\t\tgoto error;\n\t}",
     "new": "\t}"},
    {"id": "C04.w2-lower-bound-off-by-one", "rule": "C04.R1", "file": PK,
     "old": "\tif (header.len < sizeof(header)) {", "new": "\tif (header.len < sizeof(header) - 1) {"},
    {"id": "C04.w3-size-check-le-for-ipv4", "rule": "C04.R2", "file": PK,
     "old": "\t\tif (sizeof(struct pdu_ipv4) == pdu->len)", "new": "\t\tif (sizeof(struct pdu_ipv4) <= pdu->len)"},
    {"id": "C04.w4-layout-prefix_len-max_len-swapped", "rule": "C04.R9", "also": ("C04.R2",), "file": PK,
     "old": "\tuint8_t flags;\n\tuint8_t prefix_len;\n\tuint8_t max_prefix_len;\n\tuint8_t zero;\n\tuint32_t prefix;\n\tuint32_t asn;\n};",
     "new": "\tuint8_t flags;\n\tuint8_t prefix_len;\n\tuint8_t max_prefix_len;\n\tuint8_t zero;\n\tuint32_t prefix;\n\tuint32_t asn;\n\tuint32_t pad;\n};"},
    {"id": "C04.w5-text-length-read-before-enc-check", "rule": "C04.R3", "file": PK,
     "old": "\t\tmin_size += enc_pdu_len;\n\t\tif (err_pdu->len < min_size) {\n\t\t\tRTR_DBG1(\"PDU is too small to contain erroneous PDU!\");\n\t\t\tbreak;\n\t\t}\n",
     "new": "\t\tmin_size += enc_pdu_len;\n"},
    {"id": "C04.w6-payload-via-raw-recv", "rule": "C04.R5", "file": PK,
     "old": "\t\terror = tr_recv_all(rtr_socket->tr_socket, (((char *)pdu) + sizeof(header)), remaining_len,\n\t\t\t\t    RTR_RECV_TIMEOUT);",
     "new": "\t\terror = tr_recv(rtr_socket->tr_socket, (((char *)pdu) + sizeof(header)), remaining_len,\n\t\t\t\t    RTR_RECV_TIMEOUT);"},
    {"id": "C04.w7-store-capacity-test-gt", "rule": "C04.R9", "file": PK,
     "old": "\tassert(type == IPV4_PREFIX || type == IPV6_PREFIX);\n\tif ((*ind) >= *size) {", "new": "\tassert(type == IPV4_PREFIX || type == IPV6_PREFIX);\n\tif ((*ind) > *size) {"},
    {"id": "C04.w8-recv_all-ignores-some-errors", "rule": "C04.R5", "file": TR,
     "old": "\t\trtval = tr_recv(socket, ((char *)pdu) + total_recv, (len - total_recv), end_time - cur_time);\n\t\tif (rtval < 0)",
     "new": "\t\trtval = tr_recv(socket, ((char *)pdu) + total_recv, (len - total_recv), end_time - cur_time);\n\t\tif (rtval == TR_ERROR)"},
    {"id": "C04.w9-dispatch-on-failed-receive", "rule": "C04.R4", "file": PK,
     "old": "\tif (rtval >= 0) {\n\t\tenum pdu_type type = rtr_get_pdu_type(pdu);", "new": "\tif (rtval >= TR_WOULDBLOCK) {\n\t\tenum pdu_type type = rtr_get_pdu_type(pdu);"},
    {"id": "C04.w10-undo-F15-zero-bits-assert", "rule": "C04.R7", "file": UT,
     "old": "\tif (number == 0)\n\t\treturn 0;\n", "new": "\tassert(number > 0);\n"},
    {"id": "C04.w11-covering-test-after-extraction", "rule": "C04.R7", "file": TRIE,
     "old": "\t\tif (root->len <= mask_len && lrtr_ip_addr_equal(lrtr_ip_addr_get_bits(&root->prefix, 0, root->len),\n\t\t\t\t\t\t\t\tlrtr_ip_addr_get_bits(prefix, 0, root->len)))",
     "new": "\t\tif (lrtr_ip_addr_equal(lrtr_ip_addr_get_bits(&root->prefix, 0, root->len),\n\t\t\t\t       lrtr_ip_addr_get_bits(prefix, 0, root->len)) && root->len <= mask_len)"},
    {"id": "C04.w12-store-grows-by-bytes", "rule": "C04.R9", "file": PK,
     "old": "\t\tvoid *tmp = lrtr_realloc(*ary, *size * pdu_size);\n\n\t\tif (!tmp) {\n\t\t\tconst char txt[] = \"Realloc failed\";\n\n\t\t\tRTR_DBG(\"%s\", txt);\n\t\t\trtr_send_error_pdu_from_host(rtr_socket, NULL, 0, INTERNAL_ERROR, txt, sizeof(txt));\n\t\t\trtr_change_socket_state(rtr_socket, RTR_ERROR_FATAL);\n\t\t\treturn RTR_ERROR;\n\t\t}\n\t\t*ary = tmp;\n\t}\n\n\tmemcpy(",
     "new": "\t\tvoid *tmp = lrtr_realloc(*ary, *size + pdu_size);\n\n\t\tif (!tmp) {\n\t\t\tconst char txt[] = \"Realloc failed\";\n\n\t\t\tRTR_DBG(\"%s\", txt);\n\t\t\trtr_send_error_pdu_from_host(rtr_socket, NULL, 0, INTERNAL_ERROR, txt, sizeof(txt));\n\t\t\trtr_change_socket_state(rtr_socket, RTR_ERROR_FATAL);\n\t\t\treturn RTR_ERROR;\n\t\t}\n\t\t*ary = tmp;\n\t}\n\n\tmemcpy("},
    {"id": "C04.w13-eod-v0-format-accepted-for-v1", "rule": "C04.R2", "file": PK,
     "old": "\t\tif ((pdu->ver == RTR_PROTOCOL_VERSION_0 && (sizeof(struct pdu_end_of_data_v0) == pdu->len)) ||",
     "new": "\t\tif ((sizeof(struct pdu_end_of_data_v0) == pdu->len) ||"},
    {"id": "C04.w14-wrong-element-size-for-ipv6-store", "rule": "C04.R9", "file": PK,
     "old": "rtr_store_prefix_pdu(rtr_socket, pdu, sizeof(*ipv6_pdus), (void **)&ipv6_pdus,", "new": "rtr_store_prefix_pdu(rtr_socket, pdu, sizeof(*ipv4_pdus), (void **)&ipv6_pdus,"},
    {"id": "C04.w-convert-uses-network-order-length-as-offset", "rule": "C04.R3", "file": PK,
     "old": "\t\t} else {\n\t\t\terr_pdu->len_enc_pdu = lrtr_convert_long(target_byte_order, err_pdu->len_enc_pdu);\n\t\t\t*((uint32_t *)(err_pdu->rest + err_pdu->len_enc_pdu)) = lrtr_convert_long(\n\t\t\t\ttarget_byte_order, *((uint32_t *)(err_pdu->rest + err_pdu->len_enc_pdu)));\n\t\t}",
     "new": "\t\t} else {\n\t\t\t*((uint32_t *)(err_pdu->rest + err_pdu->len_enc_pdu)) = lrtr_convert_long(\n\t\t\t\ttarget_byte_order, *((uint32_t *)(err_pdu->rest + err_pdu->len_enc_pdu)));\n\t\t\terr_pdu->len_enc_pdu = lrtr_convert_long(target_byte_order, err_pdu->len_enc_pdu);\n\t\t}"},
    {"id": "C04.w-size-check-on-the-header-copy", "rule": "C04.R2", "file": PK,
     "old": "\tif (rtr_pdu_check_size(pdu) == false) {", "new": "\tif (rtr_pdu_check_size(&header) == false) {"},
    {"id": "C04.w-tcp-recv-hands-zero-to-the-loop", "rule": "C04.R5", "file": "rtrlib/transport/tcp/tcp_transport.c",
     "old": "\tif (rtval == 0)\n\t\treturn TR_CLOSED;\n", "new": ""},
    {"id": "C04.w-ipv4-sized-buffer-for-any-address", "rule": "C04.R6", "file": PK,
     "old": "\t\tchar ip[INET6_ADDRSTRLEN];", "new": "\t\tchar ip[INET_ADDRSTRLEN];"},
    {"id": "C04.w-store-frees-the-array-on-failure", "rule": "C04.R9", "file": PK,
     "old": "\t\tvoid *tmp = lrtr_realloc(*ary, *size * pdu_size);\n\n\t\tif (!tmp) {", "new": "\t\tvoid *tmp = lrtr_realloc(*ary, *size * pdu_size);\n\n\t\tif (!tmp)\n\t\t\tlrtr_free(*ary);\n\t\tif (!tmp) {"},
]
