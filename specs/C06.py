"""C06 — a full reload replaces a cache's data atomically for concurrent readers.

R1 shadow isolation: while resetting, updates/undo go to the freshly allocated shadow tables; the live tables
   appear only as copy source, swap/diff first argument and in the purge fallback
R2 complete swap inside one critical section of both write locks (pfx: roots crossed; spki: both containers)
R3 readers: lock held across the whole query (shared with C16.R1/R3)
R4 copy reads the live table under its lock and fills only the private destination, skipping the own socket
R5 lock order live-before-shadow on every path: acyclic
R6 the shadow path is selected whenever the socket may hold data (is_resetting set whenever last_update != 0)
"""
from engine import es, flow, ls, vf
from engine.pdb import AnalysisBroken
from specs import C16

RECV = "rtr_sync_receive_and_store_pdus"
LIVE_PFX = ("load", ("fld", ("arg", 0), "rtr_socket.pfx_table"))
LIVE_SPKI = ("load", ("fld", ("arg", 0), "rtr_socket.spki_table"))
RESETTING = ("fld", ("arg", 0), "rtr_socket.is_resetting")

UPDATERS = {"rtr_update_pfx_table": "pfx", "rtr_undo_update_pfx_table": "pfx", "rtr_update_spki_table": "spki",
            "rtr_undo_update_spki_table": "spki"}
# (callee, arg position) where a live table may legitimately appear during a reload
LIVE_ALLOWED = {("pfx_table_copy_except_socket", 0), ("pfx_table_swap", 0), ("pfx_table_notify_diff", 0),
                ("spki_table_copy_except_socket", 0), ("spki_table_swap", 0), ("spki_table_notify_diff", 0),
                ("pfx_table_src_remove", 0), ("spki_table_src_remove", 0)}


def _deref_alias(fn, ref, facts, depth=6):
    while depth > 0:
        depth -= 1
        ref = vf.strip_casts(fn, ref)
        al = facts.get(("A", ref))
        if al is None:
            return ref
        ref = al
    return ref


def r1(ctx, retsets):
    pdb = ctx.pdb
    ctx.rule("C06.R1", "while a reload is in progress every table update/undo targets the shadow table allocated in this "
             "call; the live tables appear only as copy source, as first argument of swap/diff, or in the purge fallback; "
             "without a reload the live tables are updated")
    fn = pdb.fn(RECV)
    ctx.touch(fn)
    nsites = 0
    for resetting in (1, 0):
        seen = {}

        def classify(inst, E, st):
            if inst.op != "call" or not inst.callee:
                return None
            if inst.callee in UPDATERS:
                ref = _deref_alias(fn, inst.args[1], E.facts)
                e = vf.expr(fn, ref)
                seen.setdefault((inst.id, "upd"), set()).add(e)
            else:
                for k, a in enumerate(inst.args):
                    e = vf.expr(fn, _deref_alias(fn, a, E.facts))
                    if e in (LIVE_PFX, LIVE_SPKI):
                        seen.setdefault((inst.id, "live", k), set()).add(e)
            return None
        es.count_effects(fn, pdb, classify, retsets, cell={RESETTING: resetting}, pinned=lambda pe: pe == RESETTING)
        for key, exprs in sorted(seen.items(), key=lambda kv: kv[0][0]):
            inst = fn.insts[key[0]]
            if key[1] == "upd":
                nsites += 1
                kind = UPDATERS[inst.callee]
                live = LIVE_PFX if kind == "pfx" else LIVE_SPKI
                if resetting:
                    good = all(e[0] == "call" and e[1] == "lrtr_malloc" for e in exprs)
                    want = "the shadow table allocated in this call"
                else:
                    good = exprs == {live}
                    want = "the socket's live table"
                ctx.check(good, "C06.R1", "%s@%s[resetting=%d]" % (inst.callee, _ord(fn, inst), resetting), inst.loc(),
                          "table argument is %s (expected %s)" % (", ".join(sorted(vf.show(e) for e in exprs)), want),
                          key="C06.R1:%s:%s:resetting=%d" % (inst.callee, _ord(fn, inst), resetting))
            elif resetting:
                nsites += 1
                ok = (inst.callee, key[2]) in LIVE_ALLOWED
                ctx.check(ok, "C06.R1", "live-table-use:%s(arg%d)" % (inst.callee, key[2]), inst.loc(),
                          "live table passed to %s as argument %d during a reload" % (inst.callee, key[2]),
                          key="C06.R1:live:%s:%d" % (inst.callee, key[2]))
    ctx.floor("C06.R1", nsites, 20)
    # the tables published by the swap are the shadow tables of this call, and the swap happens only while resetting
    for sw, live in (("pfx_table_swap", LIVE_PFX), ("spki_table_swap", LIVE_SPKI)):
        sites = fn.calls(sw)
        ctx.floor("C06.R1", len(sites), 1)
        for c in sites:
            a0 = vf.expr(fn, c.args[0])
            a1 = vf.expr(fn, vf.strip_casts(fn, c.args[1]))
            src_ok = a0 == live and (a1[0] == "phi" or (a1[0] == "call" and a1[1] == "lrtr_malloc"))
            guards = es.guards_of(fn, c)
            gated = any(truth and _is_field_test(fn, cond, "rtr_socket.is_resetting") for cond, truth, br in guards)
            ctx.check(src_ok and gated, "C06.R1", "%s:args+gate" % sw, c.loc(),
                      "swap(live, shadow) under is_resetting" if src_ok and gated else "swap(%s, %s) gated=%s" % (vf.show(a0), vf.show(a1), gated),
                      key="C06.R1:%s:gate" % sw)


def _is_field_test(fn, cond, field):
    e = vf.expr(fn, cond)
    return vf.mentions(e, lambda x: isinstance(x, tuple) and x[0] == "load" and vf.last_field(x[1]) == field)


def _ord(fn, inst):
    k = 0
    for c in fn.calls(inst.callee):
        k += 1
        if c is inst:
            return "#%d" % k
    return "#?"


def _paths(fn, limit=64):
    """every acyclic path from entry to a return, as instruction lists (phis carry the block they were entered from)"""
    out = []

    def walk(b, seen, acc):
        if len(out) > limit:
            return
        B = fn.blocks[b]
        acc = acc + [(i, seen[-1] if seen else None) for i in B.insts]
        if not B.succs:
            out.append(acc)
            return
        for s_ in B.succs:
            if s_ in seen or s_ == b:
                continue
            walk(s_, seen + [b], acc)
    walk(0, [], [])
    return out if out and len(out) <= limit else None


def _straightline(fn):
    """instructions of fn in execution order if the function is a single path, else None"""
    order = []
    b = fn.blocks[0]
    seen = set()
    while True:
        if b.id in seen:
            return None
        seen.add(b.id)
        order.extend(b.insts)
        if len(b.succs) == 0:
            return order
        if len(b.succs) != 1:
            return None
        b = fn.blocks[b.succs[0]]


def r2(ctx):
    pdb = ctx.pdb
    ctx.rule("C06.R2", "swap exchanges every piece of root state of the two tables (pfx: ipv4, ipv6; spki: hashtable, list) "
             "crosswise, inside one critical section holding both write locks")
    for fname, struct, keep in (("pfx_table_swap", "pfx_table", {"lock": "the lock itself", "update_fp": "callbacks stay with the table object (C09.R4)"}),
                                ("spki_table_swap", "spki_table", {"lock": "the lock itself", "update_fp": "callbacks stay with the table object",
                                                                   "cmp_fp": "comparator is identical configuration on both tables"})):
        fn = pdb.fn(fname)
        ctx.touch(fn)
        paths = _paths(fn)
        if paths is None:
            raise AnalysisBroken("%s: too many paths (or a loop) for the swap simulation" % fname)
        fields = [f["name"] for f in pdb.struct(struct)["fields"] if f["name"] not in keep]

        def cell(pe):
            if isinstance(pe, tuple) and pe[0] == "fld" and pe[1] in (("arg", 0), ("arg", 1)) and pe[2].startswith(struct + "."):
                return (pe[1], pe[2])
            if isinstance(pe, tuple) and pe[0] == "alloca":
                return pe
            if isinstance(pe, tuple) and pe[0] == "fld" and isinstance(pe[1], tuple) and pe[1][0] == "alloca":
                return pe
            return None

        def simulate(seq):
            content = {}
            for t in (0, 1):
                for f in fields:
                    content[(("arg", t), "%s.%s" % (struct, f))] = "%s.%s" % ("AB"[t], f)
            ssa = {}
            held = {}
            bad = []
            for i, prev in seq:
                if i.op == "call" and i.callee in ls.LOCK_FUNCS:
                    b_, f_ = ls.lock_name(fn, i)
                    held[b_] = ls.LOCK_FUNCS[i.callee]
                    continue
                both = held.get(("arg", 0)) == "W" and held.get(("arg", 1)) == "W"
                if i.op == "phi":
                    for v, pb in i["inc"]:
                        if pb == prev and v in ssa:
                            ssa[i.ref] = ssa[v]
                elif i.op == "load":
                    c = cell(vf.expr(fn, i["ptr"]))
                    if c is not None and c in content:
                        ssa[i.ref] = content[c]
                        if isinstance(c[0], tuple) and c[0][0] == "arg" and not both:
                            bad.append(i)
                elif i.op == "store":
                    c = cell(vf.expr(fn, i["ptr"]))
                    if c is not None:
                        v = ssa.get(vf.strip_casts(fn, i["val"]))
                        content[c] = v if v is not None else "?"
                        if isinstance(c[0], tuple) and c[0][0] == "arg" and not both:
                            bad.append(i)
                elif i.op == "call" and i.callee and i.callee.startswith("llvm.memcpy"):
                    d = cell(vf.expr(fn, i.args[0]))
                    s_ = cell(vf.expr(fn, i.args[1]))
                    if d is not None:
                        content[d] = content.get(s_, "?") if s_ is not None else "?"
                        for c in (d, s_):
                            if c is not None and isinstance(c[0], tuple) and c[0][0] == "arg" and not both:
                                bad.append(i)
            return content, bad
        sims = [simulate(seq) for seq in paths]
        bad_sections = [x for c_, bad in sims for x in bad]
        # a field counts as exchanged only if every path exchanges it; the first path that does not is the one reported
        content = sims[0][0]
        for c_, bad in sims:
            if any(c_.get((("arg", 0), "%s.%s" % (struct, f))) != "B." + f or c_.get((("arg", 1), "%s.%s" % (struct, f))) != "A." + f for f in fields):
                content = c_
                break
        for f in fields:
            a = content.get((("arg", 0), "%s.%s" % (struct, f)))
            b = content.get((("arg", 1), "%s.%s" % (struct, f)))
            good = a == "B." + f and b == "A." + f
            ctx.check(good, "C06.R2", "%s:%s" % (fname, f), "%s:%d" % (fn.relfile, fn.line),
                      "after the swap a.%s holds %s and b.%s holds %s" % (f, a, f, b), key="C06.R2:%s:%s" % (fname, f),
                      expected="a.%s=B.%s, b.%s=A.%s" % (f, f, f, f), found="a.%s=%s, b.%s=%s" % (f, a, f, b))
        ctx.check(not bad_sections, "C06.R2", "%s:both-write-locks" % fname,
                  bad_sections[0].loc() if bad_sections else "%s:%d" % (fn.relfile, fn.line),
                  "every access to either table's root state lies between wrlock(a), wrlock(b) and the unlocks"
                  if not bad_sections else "root state of a table accessed without both write locks held",
                  key="C06.R2:%s:section" % fname)
        for f, why in keep.items():
            wr = [i for i in fn.all_insts() if i.op == "store" and vf.store_field(i) == "%s.%s" % (struct, f)]
            ctx.check(not wr, "C06.R2", "%s:%s-stays" % (fname, f), wr[0].loc() if wr else "%s:%d" % (fn.relfile, fn.line),
                      "field %s is not exchanged: %s" % (f, why), key="C06.R2:%s:%s:kept" % (fname, f))
    ctx.floor("C06.R2", sum(1 for o in ctx.obls if o["rule"] == ctx._rid("C06.R2")), 6)


def r3(ctx, retsets):
    pdb = ctx.pdb
    ctx.rule("C06.R3", "reader operations hold the table lock from their first to their last access of table state "
             "(no unprotected access, a single critical section)")
    L = C16.lockset(ctx, retsets)
    for name in C16.READERS:
        f = pdb.fn(name)
        ctx.touch(f)
        un = L.unprotected(name)

        def classify(inst, E, st):
            if inst.op == "call" and inst.callee in ("pthread_rwlock_rdlock", "pthread_rwlock_wrlock") and \
                    vf.root_of(vf.expr(f, inst.args[0])) == ("arg", 0):
                return ["acq"]      # the lock of the table that is read (a copy also locks its destination, entry by entry)
            return None
        outs, fl = es.count_effects(f, pdb, classify, retsets)
        worst = max((o["counts"].get("acq", 0) for o in outs), default=0)
        ctx.check(not un and worst <= 1, "C06.R3", "%s:whole-query-locked" % name, "%s:%d" % (f.relfile, f.line),
                  "unprotected accesses: %d, max acquisitions per path: %d" % (sum(len(v) for v in un.values()), worst),
                  key="C06.R3:%s" % name)


def r4(ctx, retsets):
    pdb = ctx.pdb
    ctx.rule("C06.R4", "copy_except_socket reads the source under its lock, adds only to the destination table and skips "
             "exactly the records of the reloading socket")
    # pfx: callback table
    cb = pdb.fn("pfx_table_copy_cb")
    ctx.touch(cb)
    sock_a = ("load", ("fld", ("arg", 1), "copy_cb_args.socket"))
    sock_r = ("load", ("fld", ("arg", 0), "pfx_record.socket"))
    for same in (True, False):
        def oracle(inst, pred, a, b, E, same=same):
            if {a, b} == {sock_a, sock_r} and pred in ("eq", "ne"):
                return same if pred == "eq" else not same
            return None

        def classify(inst, E, st):
            if inst.op == "call" and inst.callee == "pfx_table_add":
                dst = vf.expr(cb, inst.args[0]) == ("load", ("fld", ("arg", 1), "copy_cb_args.pfx_table"))
                rec = vf.expr(cb, inst.args[1]) == ("arg", 0)
                return ["add_dst" if dst and rec else "add_other"]
            if inst.op == "call" and inst.callee and (inst.callee.startswith("pfx_table_") or inst.callee.startswith("trie_")):
                return ["other:" + inst.callee]
            return None
        outs, fl = es.count_effects(cb, pdb, classify, retsets, oracle=oracle)
        exp = {} if same else {"add_dst": 1}
        found = [o["counts"] for o in outs]
        ctx.check(bool(outs) and all(c == exp for c in found), "C06.R4", "pfx_table_copy_cb[socket%sown]" % ("=" if same else "!="),
                  "%s:%d" % (cb.relfile, cb.line), "effects %s, expected %s" % (found, exp),
                  key="C06.R4:pfx_copy_cb:%s" % same)
    # the walk's failure marker is a latch: a failed add sets it, nothing resets it, a successful add leaves it alone.  Which field
    # of the callback's argument block carries it and how failure is encoded (a flag, a kept return code) is read from the code.
    fn = pdb.fn("pfx_table_copy_except_socket")
    lfields = sorted({vf.store_field(i) for i in cb.all_insts() if i.op == "store" and vf.root_of(vf.expr(cb, i["ptr"])) == ("arg", 1) and vf.store_field(i)})
    if len(lfields) != 1:
        raise AnalysisBroken("pfx_table_copy_cb: expected exactly one field of the argument block to be written (the failure marker), found %s" % lfields)
    LFIELD = lfields[0]
    ERRC = ("fld", ("arg", 1), LFIELD)
    inits = [i for i in fn.all_insts() if i.op == "store" and vf.store_field(i) == LFIELD and vf.expr(fn, i["val"])[0] == "c"]
    if not inits:
        raise AnalysisBroken("pfx_table_copy_except_socket: the initial value of %s was not found" % LFIELD)
    V0 = vf.expr(fn, inits[0]["val"])[1]
    succ = pdb.enum_value("PFX_SUCCESS")
    fails = sorted(set((retsets.get((pdb.fn("pfx_table_add").unit, "pfx_table_add")) or ())) - {succ}) if retsets.get((pdb.fn("pfx_table_add").unit, "pfx_table_add")) != "TOP" else [pdb.enum_value("PFX_ERROR")]

    def latch_after(prior, res):
        def oracle(inst, pred, a, b, E):
            if {a, b} == {sock_a, sock_r} and pred in ("eq", "ne"):
                return pred == "ne"
            return None

        def classify(inst, E, st, res=res):
            if inst.op == "call" and inst.callee == "pfx_table_add":
                return [([], {inst.ref: flow.av_in(res)})]
            return None
        outs, fl = es.count_effects(cb, pdb, classify, None, oracle=oracle, init=None, pinned=lambda pe: pe == ERRC, cell={ERRC: prior})
        return sorted({flow.av_single(o["facts"].get(("M", ERRC))) for o in outs}, key=str)
    FAILED = None
    for res in fails:
        after = latch_after(V0, res)
        good = len(after) == 1 and after[0] is not None and after[0] != V0
        if good and FAILED is None:
            FAILED = after[0]
        ctx.check(good, "C06.R4", "pfx_table_copy_cb:error-latch[error before=0,add returns %d]" % res, "%s:%d" % (cb.relfile, cb.line),
                  "%s afterwards: %s (initially %s; expected: marked as failed)" % (LFIELD, after, V0), key="C06.R4:pfx_copy_cb:latch:0:%d" % res)
    after = latch_after(V0, succ)
    ctx.check(after == [V0], "C06.R4", "pfx_table_copy_cb:error-latch[error before=0,add returns %d]" % succ, "%s:%d" % (cb.relfile, cb.line),
              "%s afterwards: %s (expected unchanged %s)" % (LFIELD, after, V0), key="C06.R4:pfx_copy_cb:latch:0:%d" % succ)
    if FAILED is not None:
        for res in [succ] + fails:
            after = latch_after(FAILED, res)
            ctx.check(bool(after) and all(a is not None and a != V0 for a in after), "C06.R4", "pfx_table_copy_cb:error-latch[error before=1,add returns %d]" % res,
                      "%s:%d" % (cb.relfile, cb.line), "%s afterwards: %s (a failure recorded earlier must stay recorded, whatever this add returns)" % (LFIELD, after),
                      key="C06.R4:pfx_copy_cb:latch:1:%d" % res)
    else:
        FAILED = 1
    fn = pdb.fn("pfx_table_copy_except_socket")
    ctx.touch(fn)
    walks = fn.calls(("pfx_table_for_each_ipv4_record", "pfx_table_for_each_ipv6_record"))
    if not walks:
        raise AnalysisBroken("pfx_table_copy_except_socket no longer walks the source with pfx_table_for_each_ipv4_record / _ipv6_record: the rules on "
                             "what is copied and how a failed copy is reported are written for these two walks")
    fams = {w.callee for w in walks}
    good = len(fams) == 2
    for w in walks:
        ar = vf.expr(fn, w.args[2])
        good = good and vf.expr(fn, w.args[0]) == ("arg", 0) and vf.expr(fn, w.args[1]) == ("g", "pfx_table_copy_cb") and ar[0] == "alloca"
        if good:
            t = vf.reaching_store(fn, ("fld", ar, "copy_cb_args.pfx_table"), w)
            s = vf.reaching_store(fn, ("fld", ar, "copy_cb_args.socket"), w)
            good = t is not None and s is not None and vf.expr(fn, t["val"]) == ("arg", 1) and vf.expr(fn, s["val"]) == ("arg", 2)
    ctx.check(good, "C06.R4", "pfx_table_copy_except_socket:walks", "%s:%d" % (fn.relfile, fn.line),
              "both families of the source are walked with pfx_table_copy_cb, destination = arg1, socket = arg2",
              key="C06.R4:pfx_copy:walks")
    # error propagation: an error raised by the callback during either walk makes the copy fail
    if walks:
        ar = vf.expr(fn, walks[0].args[2])
        ERR = ("fld", ar, LFIELD)
        for wi, w in enumerate(sorted(walks, key=lambda x: x.line)):
            def classify3(inst, E, st, w=w):
                if inst.op == "call" and inst is w:
                    return [(["=err:1"], {("M", ERR): flow.av_in(FAILED)}), ([], {("M", ERR): flow.av_in(V0)})]
                if inst.op == "call" and inst.callee in ("pfx_table_for_each_ipv4_record", "pfx_table_for_each_ipv6_record"):
                    return [([], {("M", ERR): flow.av_in(V0)})] if st.get("err") != "1" else None
                return None
            outs3, fl3 = es.count_effects(fn, pdb, classify3, retsets)
            sel = [o for o in outs3 if o["counts"].get("err") == "1"]
            good3 = bool(sel) and all(flow.av_single(o["ret"]) == pdb.enum_value("PFX_ERROR") for o in sel)
            ctx.check(good3, "C06.R4", "pfx_table_copy_except_socket:error-after-walk%d" % (wi + 1), w.loc(),
                      "a record that could not be copied during this walk makes the copy return PFX_ERROR (returns: %s)" % sorted({str(flow.av_single(o["ret"])) for o in sel}),
                      key="C06.R4:pfx_copy:error-walk%d" % (wi + 1))
    errs = [i for i in cb.all_insts() if i.op == "store" and vf.store_field(i) == LFIELD]
    rs = retsets.get((fn.unit, fn.name))
    ctx.check(bool(errs) and rs != "TOP" and pdb.enum_value("PFX_ERROR") in (rs or ()), "C06.R4", "pfx_table_copy_except_socket:error",
              "%s:%d" % (fn.relfile, fn.line), "failed add sets args.error and the copy can return PFX_ERROR", key="C06.R4:pfx_copy:error")
    # spki
    fn = pdb.fn("spki_table_copy_except_socket")
    ctx.touch(fn)
    if not fn.calls("spki_table_add_entry"):
        raise AnalysisBroken("spki_table_copy_except_socket no longer copies through spki_table_add_entry: the rules on what is added to the "
                             "destination and how a failed copy is reported are written for that call")
    for same in (True, False):
        def oracle2(inst, pred, a, b, E, same=same):
            if pred in ("eq", "ne") and ("arg", 2) in (a, b):
                other = a if b == ("arg", 2) else b
                if other[0] == "load" and vf.last_field(other[1]) == "key_entry.socket":
                    return same if pred == "eq" else not same
            return None

        def classify2(inst, E, st):
            if inst.op == "call" and inst.callee == "spki_table_add_entry":
                return ["add_dst" if vf.expr(fn, inst.args[0]) == ("arg", 1) else "add_other"]
            if inst.op == "call" and inst.callee in ("pthread_rwlock_rdlock", "pthread_rwlock_wrlock"):
                return ["lock_src" if ls.lock_name(fn, inst)[0] == ("arg", 0) else "lock_other"]
            return None
        outs, fl = es.count_effects(fn, pdb, classify2, retsets, oracle=oracle2)
        adds = {o["counts"].get("add_dst", 0) for o in outs}
        others = any(o["counts"].get("add_other") for o in outs)
        locked = all(o["counts"].get("lock_src", 0) == 1 for o in outs)
        if same:
            good = adds == {0} and not others and locked
        else:
            good = max(adds) >= 1 and not others and locked
        ctx.check(good, "C06.R4", "spki_table_copy_except_socket[socket%sown]" % ("=" if same else "!="),
                  "%s:%d" % (fn.relfile, fn.line), "add-to-destination counts %s, other adds %s, source locked once %s" % (sorted(adds), others, locked),
                  key="C06.R4:spki_copy:%s" % same)


def r4_spki_latch(ctx, retsets):
    """a key that could not be copied fails the whole copy, whatever is copied after it (otherwise an incomplete shadow table is swapped in)"""
    pdb = ctx.pdb
    fn = pdb.fn("spki_table_copy_except_socket")
    if not fn.calls("spki_table_add_entry"):
        raise AnalysisBroken("spki_table_copy_except_socket no longer copies through spki_table_add_entry")
    err = pdb.enum_value("SPKI_ERROR")

    def classify(inst, E, st):
        if inst.op == "call" and inst.callee == "spki_table_add_entry":
            if st.get("adds", 0) >= 3:
                return flow.KILL        # three copied entries are enough: first / middle / last
            return [(["adds"], {inst.ref: flow.av_in(0)}), (["adds", "=failed:1"], {inst.ref: flow.av_in(-1)})]
        if inst.op == "call" and inst.callee == "lrtr_malloc":
            return [([], {inst.ref: ("nin", frozenset([0]))})]
        return None

    def oracle(inst, pred, a, b, E):
        if pred in ("eq", "ne") and ("arg", 2) in (a, b):
            other = a if b == ("arg", 2) else b
            if other[0] == "load" and vf.last_field(other[1]) == "key_entry.socket":
                return pred == "ne"         # entries of other sockets: the ones that are copied
        return None
    outs, _f = es.count_effects(fn, pdb, classify, retsets, oracle=oracle, cap=128)
    failed = [o for o in outs if o["counts"].get("failed") == "1"]
    bad = [o for o in failed if flow.av_single(o["ret"]) != err]
    ctx.check(bool(failed) and not bad, "C06.R4", "spki_table_copy_except_socket:error-latch", (bad[0]["inst"].loc() if bad else "%s:%d" % (fn.relfile, fn.line)),
              ("a path on which one of %d copies failed returns %s" % (bad[0]["counts"].get("adds", 0), flow.av_single(bad[0]["ret"]))) if bad else
              "%d paths with a failed copy among up to three: all return SPKI_ERROR" % len(failed), key="C06.R4:spki_copy:latch",
              path=(flow.trace_lines(fn, bad[0]["trace"]) if bad else None))


def r5(ctx, retsets):
    pdb = ctx.pdb
    ctx.rule("C06.R5", "lock order: whenever two table locks are held together the live table's lock is taken first "
             "(copy, swap, diff) — the order graph over {live, shadow} is acyclic")
    lo = ls.LockOrder(pdb, C16.PFX_UNITS + C16.SPKI_UNITS, retsets)
    fn = pdb.fn(RECV)
    ctx.touch(fn)
    n = 0
    graph = set()
    for callee in ("pfx_table_copy_except_socket", "pfx_table_swap", "pfx_table_notify_diff",
                   "spki_table_copy_except_socket", "spki_table_swap", "spki_table_notify_diff"):
        g = pdb.fn(callee)
        ctx.touch(g)
        edges = lo.edges(g)
        sites = fn.calls(callee)
        ctx.floor("C06.R5", len(sites), 1)
        for c in sites:
            roles = {}
            for k, a in enumerate(c.args):
                e = vf.expr(fn, vf.strip_casts(fn, a))
                if e in (LIVE_PFX, LIVE_SPKI):
                    roles[k] = "live"
                elif e[0] in ("phi", "call"):
                    roles[k] = "shadow"
            for (h, a, site) in edges:
                def role(x):
                    b = x[0]
                    return roles.get(b[1], "?") if isinstance(b, tuple) and b[0] == "arg" else "?"
                rh, ra = role(h), role(a)
                n += 1
                graph.add((rh, ra))
                ctx.check((rh, ra) == ("live", "shadow"), "C06.R5", "%s:%s->%s" % (callee, rh, ra), site.loc(),
                          "%s lock held while acquiring %s lock (call at %s)" % (rh, ra, c.loc()),
                          key="C06.R5:%s:%s->%s" % (callee, rh, ra))
    ctx.check(("shadow", "live") not in graph and ("?", "live") not in graph, "C06.R5", "order-graph-acyclic",
              "%s:%d" % (fn.relfile, fn.line), "edges: %s" % sorted(graph), key="C06.R5:acyclic")
    ctx.floor("C06.R5", n, 5)


def r6(ctx, retsets):
    pdb = ctx.pdb
    ctx.rule("C06.R6", "the atomic (shadow) path is selected whenever the socket may hold records when a Cache Response "
             "starts a reload: is_resetting is set on every path where last_update != 0 and a new session is adopted")
    fn = pdb.fn("rtr_handle_cache_response_pdu")
    ctx.touch(fn)
    LU = ("fld", ("arg", 0), "rtr_socket.last_update")
    RS = ("fld", ("arg", 0), "rtr_socket.request_session_id")
    for lu, name in ((("nin", frozenset([0])), "last_update!=0"),):
        outs, fl = es.count_effects(
            fn, pdb, lambda inst, E, st: (["set_resetting"] if inst.op == "store" and vf.store_field(inst) == "rtr_socket.is_resetting"
                                          and flow.av_single(E.val(inst["val"])) == 1 else None),
            retsets, cell={LU: lu, RS: 1})
        good = bool(outs) and all(o["counts"].get("set_resetting", 0) >= 1 for o in outs)
        ctx.check(good, "C06.R6", "cache_response[request_session_id,%s]" % name, "%s:%d" % (fn.relfile, fn.line),
                  "is_resetting set on every path: %s" % [o["counts"] for o in outs], key="C06.R6:resetting")
    ctx.note("C06.R6 depends on C07.R2 (last_update == 0 iff the socket holds no data)")


def check(ctx):
    retsets = flow.return_sets(ctx.pdb)
    r1(ctx, retsets)
    r2(ctx)
    r3(ctx, retsets)
    r4(ctx, retsets)
    r4_spki_latch(ctx, retsets)
    r5(ctx, retsets)
    r6(ctx, retsets)
    from specs import C03
    with ctx.shared({"C03.R4": ("C06.R7", "on every path that completes a reload both tables are swapped (prefix and router-key table together, "
                                "exactly once), never on a failing path; shadow tables are always released silently")}):
        C03.r2_r3_r4(ctx, retsets)
    from specs import C07
    with ctx.shared({"C07.R3": ("C06.R8", "outside a reload a socket's records leave the live tables only when they have expired (expire_interval, not a "
                                "shorter timer): a reload that starts later than refresh_interval still replaces the old set atomically")}):
        C07.r3(ctx, retsets)
    with ctx.shared({"C03.R5": ("C06.R9", "the update and undo helpers operate on the table they are handed (the shadow table during a reload), never on "
                                "the socket's live table")}):
        C03.r5(ctx)
    from specs import C05
    with ctx.shared({"C05.R6": ("C06.R10", "the socket asks for a full reload until one has completed: request_session_id is cleared only after the whole "
                                "response was applied, so an interrupted reload is repeated as a reload (shadow table, swap) and not as an increment")}):
        C05.r6(ctx, retsets)
    with ctx.shared({"C07.R2": ("C06.R11", "whether a Cache Response starts an atomic reload is decided by last_update != 0 ('this socket holds data'): "
                                "the timestamp is cleared only where both tables were purged for the socket (or in the constructor), so a "
                                "socket that still holds records always reloads through the shadow tables")}):
        C07.r2(ctx, retsets)
    ctx.not_decided("reader-visible states inside user callbacks; equality of the new data set with the cache's set")


PK = "rtrlib/rtr/packets.c"
TP = "rtrlib/pfx/trie/trie-pfx.c"
HT = "rtrlib/spki/hashtable/ht-spkitable.c"
WITNESSES = [
    {"id": "C06.w1-update-live-while-resetting", "rule": "C06.R1", "file": PK,
     "old": "if (rtr_update_pfx_table(rtr_socket, pfx_update_table, &(ipv6_pdus[i])) == PFX_ERROR) {",
     "new": "if (rtr_update_pfx_table(rtr_socket, rtr_socket->pfx_table, &(ipv6_pdus[i])) == PFX_ERROR) {"},
    {"id": "C06.w2-shadow-aliases-live", "rule": "C06.R1", "file": PK,
     "old": "\t\t\t\tspki_table_init(spki_shadow_table, NULL);\n\t\t\t\tspki_update_table = spki_shadow_table;",
     "new": "\t\t\t\tspki_table_init(spki_shadow_table, NULL);\n\t\t\t\tspki_update_table = rtr_socket->spki_table;"},
    {"id": "C06.w3-swap-only-ipv4", "rule": "C06.R2", "file": TP,
     "old": "\ta->ipv6 = b->ipv6;\n", "new": ""},
    {"id": "C06.w4-swap-only-a-lock", "rule": "C06.R2", "file": TP,
     "old": "\tpthread_rwlock_wrlock(&(a->lock));\n\tpthread_rwlock_wrlock(&(b->lock));\n\n\tipv4_tmp = a->ipv4;",
     "new": "\tpthread_rwlock_wrlock(&(a->lock));\n\n\tipv4_tmp = a->ipv4;",
     "edits": [(TP, "\tpthread_rwlock_wrlock(&(a->lock));\n\tpthread_rwlock_wrlock(&(b->lock));\n\n\tipv4_tmp = a->ipv4;", "\tpthread_rwlock_wrlock(&(a->lock));\n\n\tipv4_tmp = a->ipv4;"),
               (TP, "\tpthread_rwlock_unlock(&(b->lock));\n\tpthread_rwlock_unlock(&(a->lock));", "\tpthread_rwlock_unlock(&(a->lock));")]},
    {"id": "C06.w5-spki-swap-forgets-list", "rule": "C06.R2", "file": HT,
     "old": "\tmemcpy(&a->list, &b->list, sizeof(tmp_list));\n", "new": ""},
    {"id": "C06.w6-validate-unlocks-before-descent", "rule": "C06.R3", "file": TP,
     "old": "\twhile (!pfx_table_elem_matches(node->data, asn, prefix_len)) {\n",
     "new": "\tpthread_rwlock_unlock(&pfx_table->lock);\n\tpthread_rwlock_rdlock(&(pfx_table->lock));\n\twhile (!pfx_table_elem_matches(node->data, asn, prefix_len)) {\n"},
    {"id": "C06.w7-swap-locks-b-first", "rule": "C06.R5", "file": TP,
     "old": "\tpthread_rwlock_wrlock(&(a->lock));\n\tpthread_rwlock_wrlock(&(b->lock));\n\n\tipv4_tmp",
     "new": "\tpthread_rwlock_wrlock(&(b->lock));\n\tpthread_rwlock_wrlock(&(a->lock));\n\n\tipv4_tmp"},
    {"id": "C06.w8-copy-includes-own-socket", "rule": "C06.R4", "file": TP,
     "old": "\tif (record->socket != args->socket) {\n\t\tif (pfx_table_add(args->pfx_table, record) != PFX_SUCCESS)",
     "new": "\tif (record->socket != NULL) {\n\t\tif (pfx_table_add(args->pfx_table, record) != PFX_SUCCESS)"},
    {"id": "C06.w9-spki-copy-into-source", "rule": "C06.R4", "file": HT,
     "old": "\t\t\tif (spki_table_add_entry(dst, &record) != SPKI_SUCCESS) {", "new": "\t\t\tif (spki_table_add_entry(src, &record) != SPKI_SUCCESS) {"},
    {"id": "C06.w10-swap-outside-resetting", "rule": "C06.R1", "file": PK,
     "old": "\t\t\tif (rtr_socket->is_resetting) {\n\t\t\t\tRTR_DBG1(\"Reset finished. Swapping new table in.\");",
     "new": "\t\t\tif (rtr_socket->is_resetting || pfx_shadow_table) {\n\t\t\t\tRTR_DBG1(\"Reset finished. Swapping new table in.\");"},
    {"id": "C06.w11-cache-response-forgets-resetting", "rule": "C06.R6", "file": PK,
     "old": "\t\t\trtr_socket->is_resetting = true;\n\t\t}\n\t\trtr_socket->session_id = cr_pdu->session_id;",
     "new": "\t\t}\n\t\trtr_socket->session_id = cr_pdu->session_id;"},
    {"id": "C06.w12-copy-error-flag-overwritten", "rule": "C06.R4", "file": TP,
     "old": "\t\tif (pfx_table_add(args->pfx_table, record) != PFX_SUCCESS)\n\t\t\targs->error = true;", "new": "\t\targs->error = pfx_table_add(args->pfx_table, record) != PFX_SUCCESS;"},
    {"id": "C06.w13-spki-swap-touches-the-callback", "rule": "C06.R2", "file": HT,
     "old": "\tmemcpy(&b->list, &tmp_list, sizeof(tmp_list));\n", "new": "\tmemcpy(&b->list, &tmp_list, sizeof(tmp_list));\n\tb->update_fp = a->update_fp;\n"},
    {"id": "C06.w14-spki-copy-forgets-an-earlier-failure", "rule": "C06.R4", "file": HT,
     "old": "\t\t\tif (spki_table_add_entry(dst, &record) != SPKI_SUCCESS) {\n\t\t\t\tret = SPKI_ERROR;\n\t\t\t\tbreak;\n\t\t\t}", "new": "\t\t\tret = spki_table_add_entry(dst, &record) != SPKI_SUCCESS ? SPKI_ERROR : SPKI_SUCCESS;"},
    {"id": "C06.w15-swap-skips-an-empty-family", "rule": "C06.R2", "file": TP,
     "old": "\ta->ipv4 = b->ipv4;\n", "new": "\tif (b->ipv4)\n\t\ta->ipv4 = b->ipv4;\n"},
    {"id": "C06.w-timestamp-cleared-on-cache-reset", "rule": "C06.R11", "file": "rtrlib/rtr/rtr.c",
     "old": "\t\t\trtr_socket->request_session_id = true;\n\t\t\trtr_socket->serial_number = 0;\n\t\t\trtr_change_socket_state(rtr_socket, RTR_RESET);\n\t\t\trtr_purge_outdated_records(rtr_socket);",
     "new": "\t\t\trtr_socket->request_session_id = true;\n\t\t\trtr_socket->serial_number = 0;\n\t\t\trtr_socket->last_update = 0;\n\t\t\trtr_change_socket_state(rtr_socket, RTR_RESET);\n\t\t\trtr_purge_outdated_records(rtr_socket);"},
]
