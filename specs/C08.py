"""C08 — after any finite run of faults the client re-converges on the cache's data.

Decided on the state machine extracted from rtr_fsm_start and the interprocedural state-effect summaries:
R1 every socket state (except the not-started state) has a handler arm
R2 no trap: RTR_ESTABLISHED is reachable from every state; every error arm leaves its state unconditionally
R3 time advances on every cycle: each cycle of the transition graph contains a must-occur sleep(retry_interval) or a
   blocking receive (frozen exception: cycles through RTR_FAST_RECONNECT strictly lower the version, C13.R1)
R4 failing calls are never silent: every failure return of rtr_sync / rtr_wait_for_sync / rtr_send_*_query /
   rtr_receive_pdu changed the socket state or consumed input in a blocking receive
R5 transport failures reach an error state: open/send/receive results
"""
from engine import es, flow, fsm, vf
from engine.pdb import AnalysisBroken

ERROR_STATES = ["RTR_ERROR_NO_DATA_AVAIL", "RTR_ERROR_NO_INCR_UPDATE_AVAIL", "RTR_ERROR_FATAL", "RTR_ERROR_TRANSPORT"]
CALLEES = ["rtr_sync", "rtr_wait_for_sync", "rtr_send_serial_query", "rtr_send_reset_query"]
STATE = ("fld", ("arg", 0), "rtr_socket.state")


def summaries(pdb, retsets):
    """state effects under 'the socket is not being shut down' (SHUTDOWN exits the loop in its own arm)"""
    shut = pdb.enum_value("RTR_SHUTDOWN")
    orig = es.count_effects

    def patched(fn, pdb_, classify, retsets_=None, init=None, cap=None, pinned=None, oracle=None, cell=None):
        cell = dict(cell or {})
        cell[STATE] = ("nin", frozenset([shut]))
        return orig(fn, pdb_, classify, retsets_, init, cap, (lambda pe: pe == STATE), oracle, cell)
    es.count_effects = patched
    try:
        memo = {}
        return {c: fsm.state_effects(pdb, c, retsets, 0, memo) for c in CALLEES + ["rtr_receive_pdu"]}
    finally:
        es.count_effects = orig


def build_graph(pdb, summ):
    st = pdb.enum("rtr_socket_state")
    inv = {v: k for k, v in st.items()}
    forks = {"tr_open": [-1, 0]}
    for c in CALLEES:
        forks[c] = sorted({next(iter(rv)) for (rv, states, recv, slp) in summ[c] if rv is not None and len(rv) == 1})
    edges = []   # (K, K', labels set, description)
    for K in sorted(fsm.arms_present(pdb)):
        outs = fsm.explore_arm(pdb, K, forks=forks, interesting={"sleep", "tr_close", "pthread_exit"})
        for o in outs:
            ev = o["events"][1:] if o["events"] and o["events"][0][:2] == ("store", "state") else o["events"]
            if o["end"] != "loop":
                edges.append((K, None, {"exit"}, [e[:3] for e in ev]))
                continue
            variants = [(None, set())]   # (state set by callees, labels)
            direct = None
            labels = set()
            for e in ev:
                if e[0] == "state":
                    direct = e[1]
                elif e[0] == "call" and e[1] == "sleep":
                    labels.add("sleep")
                elif e[0] == "call" and e[1] in CALLEES:
                    nv = []
                    for (rv, states, recv, slp) in summ[e[1]]:
                        if rv is not None and e[2] not in rv:
                            continue
                        for (s0, l0) in variants:
                            l = set(l0)
                            if recv:
                                l.add("recv")
                            if slp:
                                l.add("sleep")
                            if states:
                                for s in states:
                                    nv.append((int(s) if s != "?" else None, l))
                            else:
                                nv.append((s0, l))
                    variants = nv or variants
            seen = set()
            for (s0, l) in variants:
                nxt = direct if direct is not None else (s0 if s0 is not None else K)
                # rtr_change_socket_state ignores a change to the current state; a later direct change overrides the callee's
                key = (K, nxt, frozenset(l | labels))
                if key in seen:
                    continue
                seen.add(key)
                edges.append((K, nxt, l | labels, [e[:3] for e in ev]))
    return edges, inv, st


def r4_silent(ctx, retsets, summ=None):
    """first half of R4: the functions the state machine calls never fail silently"""
    pdb = ctx.pdb
    st = pdb.enum("rtr_socket_state")
    inv = {v: k for k, v in st.items()}
    if summ is None:
        summ = summaries(pdb, retsets)
    ctx.rule("C08.R4", "no silent failure: every failure return of the functions the state machine calls either changed the "
             "socket state or consumed input in a blocking receive; a timeout or a closed connection reported by "
             "rtr_receive_pdu always leads to a state change or to success in its caller")
    for c in CALLEES + ["rtr_receive_pdu"]:
        n = 0
        for (rv, states, recv, slp) in summ[c]:
            if rv is not None and rv == frozenset([0]):
                continue
            n += 1
            good = bool(states) or recv >= 1
            ctx.check(good, "C08.R4", "%s:ret%s" % (c, sorted(rv) if rv else "?"), "rtrlib/rtr/packets.c",
                      "failure return %s: states set %s, blocking receives %s" % (sorted(rv) if rv else "?", sorted(inv.get(int(s), s) for s in states if s != "?"), recv),
                      key="C08.R4:%s:silent" % c)
        ctx.floor("C08.R4", n, 1)


def check(ctx):
    pdb = ctx.pdb
    retsets = flow.return_sets(pdb)
    ctx.touch("rtr_fsm_start", *CALLEES)
    st = pdb.enum("rtr_socket_state")
    inv = {v: k for k, v in st.items()}
    ctx.rule("C08.R1", "every rtr_socket_state enumerator except the not-started state RTR_CLOSED has a handler arm in rtr_fsm_start")
    arms = fsm.arms_present(pdb)
    for name, v in sorted(st.items(), key=lambda kv: kv[1]):
        if name == "RTR_CLOSED":
            continue
        ctx.check(v in arms, "C08.R1", "arm:%s" % name, "rtrlib/rtr/rtr.c", "state %s is handled" % name, key="C08.R1:%s" % name)
    summ = summaries(pdb, retsets)
    # R4
    r4_silent(ctx, retsets, summ)
    ctx.rule("C08.R5", "transport failures lead to an error state: a failed open goes to RTR_ERROR_TRANSPORT; the transports' "
             "open functions return only TR_ERROR / TR_SUCCESS; a failed query send goes to RTR_ERROR_TRANSPORT; every class "
             "of receive result is either turned into an error state or handed to the caller unchanged")
    # R4 (second half): results of the receive function that mean "nothing arrived" must not be swallowed
    noprog = {pdb.enum_value("TR_WOULDBLOCK"): "timeout", pdb.enum_value("TR_CLOSED"): "connection closed"}
    intr = pdb.enum_value("TR_INTR")
    rp = pdb.fn("rtr_receive_pdu")
    rs_rp = retsets.get((rp.unit, rp.name))
    if rs_rp == "TOP" or not rs_rp:
        raise AnalysisBroken("return set of rtr_receive_pdu unknown")
    callers = sorted({c.fn.name for c in pdb.callers("rtr_receive_pdu")})
    ctx.floor("C08.R4", len(callers), 3)
    for cname in callers:
        f = pdb.fn(cname)
        ctx.touch(f)

        def classify(inst, E, stt):
            if inst.op == "call" and inst.callee == "rtr_receive_pdu":
                if stt.get("rc") is not None and stt.get("rc") != "x":
                    return None
                return [(["=rc:%d" % v], {inst.ref: flow.av_in(v)}) for v in sorted(rs_rp)]
            if inst.op == "call" and inst.callee == fsm.CHANGE:
                return ["state"]
            return None
        outs, fl = es.count_effects(f, pdb, classify, retsets, init=[("rc", "x")], cap=96)
        for v, what in sorted(noprog.items()):
            if v not in rs_rp:
                continue
            sel = [o for o in outs if o["counts"].get("rc") == str(v)]
            bad = [o for o in sel if not o["counts"].get("state") and flow.av_single(o["ret"]) != 0]
            ctx.check(bool(sel) and not bad, "C08.R4", "%s:receive-%s" % (cname, what.replace(" ", "-")),
                      (bad[0]["inst"].loc() if bad else "%s:%d" % (f.relfile, f.line)),
                      "after a %s the caller changes the socket state or reports success (%d outcomes, %d silent failures)" % (what, len(sel), len(bad)),
                      key="C08.R4:%s:%s" % (cname, what.replace(" ", "-")), path=(flow.trace_lines(f, bad[0]["trace"]) if bad else None))
    # R5 (receive side): classes of the transport's receive result inside rtr_receive_pdu
    trv = {"TR_ERROR": pdb.enum_value("TR_ERROR"), "TR_WOULDBLOCK": pdb.enum_value("TR_WOULDBLOCK"), "TR_INTR": intr,
           "TR_CLOSED": pdb.enum_value("TR_CLOSED"), "other negative": -99}

    def classify_r(inst, E, stt):
        if inst.op == "call" and inst.callee == "tr_recv_all":
            if stt.get("tr") != "x":
                return [([], {inst.ref: flow.av_in(8)})]
            return [(["=tr:%d" % v], {inst.ref: flow.av_in(v)}) for v in sorted(trv.values())] + [([], {inst.ref: flow.av_in(8)})]
        if inst.op == "call" and inst.callee == fsm.CHANGE:
            return ["state%s" % flow.av_single(E.val(inst.args[1]))]
        return None
    outs, fl = es.count_effects(rp, pdb, classify_r, retsets, init=[("tr", "x")], cap=96)
    for name, v in trv.items():
        sel = [o for o in outs if o["counts"].get("tr") == str(v)]
        states = [sorted(k for k in o["counts"] if k.startswith("state")) for o in sel]
        rets = [flow.av_single(o["ret"]) for o in sel]
        if name in ("TR_WOULDBLOCK", "TR_INTR", "TR_CLOSED"):
            good = bool(sel) and all(r == v for r in rets)
            want = "handed to the caller unchanged"
        elif name == "TR_ERROR":
            good = bool(sel) and all(s == ["state%d" % st["RTR_ERROR_TRANSPORT"]] and r == pdb.enum_value("RTR_ERROR") for s, r in zip(states, rets))
            want = "RTR_ERROR_TRANSPORT and RTR_ERROR"
        else:
            good = bool(sel) and all(s and r == pdb.enum_value("RTR_ERROR") for s, r in zip(states, rets))
            want = "an error state and RTR_ERROR"
        ctx.check(good, "C08.R5", "rtr_receive_pdu:tr_recv_all=%s" % name, "%s:%d" % (rp.relfile, rp.line),
                  "outcomes (states, return): %s; expected %s" % (sorted(set(zip(map(tuple, states), rets))), want), key="C08.R5:recv:%s" % name)
    edges, inv, st = build_graph(pdb, summ)
    graph = {}
    for (a, b, l, ev) in edges:
        if b is not None:
            graph.setdefault(a, set()).add(b)
    ctx.note("transition graph: " + "; ".join("%s->%s[%s]" % (inv.get(a, a), inv.get(b, b) if b is not None else "exit", ",".join(sorted(l)))
                                              for (a, b, l, ev) in sorted(edges, key=lambda e: (e[0], str(e[1])))))
    # R2
    ctx.rule("C08.R2", "no trap state: RTR_ESTABLISHED is reachable from every handled state, and every error arm changes "
             "to a non-error state on all of its paths")
    est = st["RTR_ESTABLISHED"]
    for K in sorted(arms):
        if inv[K] == "RTR_SHUTDOWN":
            continue
        seen = {K}
        work = [K]
        while work:
            x = work.pop()
            for y in graph.get(x, ()):
                if y not in seen:
                    seen.add(y)
                    work.append(y)
        ctx.check(est in seen, "C08.R2", "reach-established:%s" % inv[K], "rtrlib/rtr/rtr.c",
                  "states reachable from %s: %s" % (inv[K], sorted(inv.get(s, s) for s in seen)), key="C08.R2:reach:%s" % inv[K])
    errvals = {st[e] for e in ERROR_STATES}
    for e in ERROR_STATES:
        outs = [(b, l) for (a, b, l, ev) in edges if a == st[e]]
        good = bool(outs) and all(b is not None and b not in errvals and b != st[e] for b, l in outs)
        ctx.check(good, "C08.R2", "error-arm-leaves:%s" % e, "rtrlib/rtr/rtr.c",
                  "successors: %s" % sorted({inv.get(b, b) for b, l in outs}), key="C08.R2:leave:%s" % e)
    # R3: every cycle contains a time-advancing edge
    ctx.rule("C08.R3", "every cycle of the transition graph contains an edge with a must-occur sleep(retry_interval) or a "
             "blocking receive; exception: cycles through RTR_FAST_RECONNECT, each of which strictly lowers the protocol "
             "version (C13.R1) and can therefore be taken at most max-min times")
    fast = st["RTR_FAST_RECONNECT"]
    quiet = {}
    for (a, b, l, ev) in edges:
        if b is None or ("sleep" in l or "recv" in l):
            continue
        quiet.setdefault(a, set()).add(b)
    # cycles in the sub-graph of edges without sleep/recv, with FAST_RECONNECT removed
    nodes = set(quiet) | {y for v in quiet.values() for y in v}
    bad_cycles = []
    color = {}

    def dfs(u, stack):
        color[u] = 1
        stack.append(u)
        for v in quiet.get(u, ()):
            if v == fast or u == fast:
                continue
            if color.get(v) == 1:
                bad_cycles.append(stack[stack.index(v):] + [v])
            elif color.get(v) is None:
                dfs(v, stack)
        stack.pop()
        color[u] = 2
    for n_ in sorted(nodes):
        if color.get(n_) is None and n_ != fast:
            dfs(n_, [])
    nquiet = sum(len(v) for v in quiet.values())
    if bad_cycles:
        for cyc in bad_cycles:
            ctx.violation("C08.R3", "cycle:" + "->".join(inv.get(x, str(x)) for x in cyc), "rtrlib/rtr/rtr.c",
                          "the state machine can go round this cycle without sleeping and without a blocking receive",
                          key="C08.R3:cycle:" + "->".join(inv.get(x, str(x)) for x in cyc))
    else:
        ctx.ok("C08.R3", "all-cycles-advance-time", "rtrlib/rtr/rtr.c",
               "%d transitions, %d of them without sleep/receive; these form no cycle (FAST_RECONNECT excluded by the version argument)" % (len(edges), nquiet))
    # the FAST_RECONNECT exception is justified only if every edge into it comes with a version decrease
    into_fast = [(a, ev) for (a, b, l, ev) in edges if b == fast]
    vstores = {i.fn.name for i in vf.stores_to_field(pdb, "rtr_socket.version")}
    setters = set()
    for f in pdb.all_functions():
        if f.name == fsm.CHANGE or not f.calls(fsm.CHANGE):
            continue
        sites = {}

        def classify(inst, E, st_, sites=sites):
            if inst.op == "store" and vf.store_field(inst) == "rtr_socket.version":
                return ["=vs:1"]
            if inst.op == "call" and inst.callee == fsm.CHANGE:
                av = E.val(inst.args[1])
                if av is not None and av[0] == "in" and fast in av[1]:
                    sites.setdefault(inst.ref, [inst, True])
                    if st_.get("vs") != "1":
                        sites[inst.ref][1] = False
            return None
        es.count_effects(f, pdb, classify, retsets, cap=96)
        for ref, (c, okv) in sorted(sites.items()):
            setters.add(f.name)
            ctx.check(okv, "C08.R3", "fast-reconnect-lowers-version:%s" % f.name, c.loc(),
                      "on every path on which this call changes the state to RTR_FAST_RECONNECT a store to the version "
                      "(which C13.R1 proves to be a decrease) has been executed before",
                      key="C08.R3:fast:%s" % f.name)
    ctx.floor("C08.R3", len(setters), 2)
    # a cache that has no data yet answers every Reset Query at once with 'No Data Available': the receive in that cycle does not
    # wait, so the arm itself has to (RFC 8210 section 8.4 / 10: retry after the retry interval)
    outs_nd = fsm.explore_arm(pdb, st["RTR_ERROR_NO_DATA_AVAIL"], interesting={"sleep"})
    slept = bool(outs_nd) and all(any(e[:2] == ("call", "sleep") for e in o["events"]) for o in outs_nd)
    ctx.check(slept, "C08.R3", "no-data-arm-waits", "rtrlib/rtr/rtr.c",
              "every path through the RTR_ERROR_NO_DATA_AVAIL arm sleeps before the next Reset Query" if slept else
              "a path through the RTR_ERROR_NO_DATA_AVAIL arm does not sleep: %s" % [[e[:3] for e in o["events"][1:]] for o in outs_nd
                                                                                    if not any(e[:2] == ("call", "sleep") for e in o["events"])][:1],
              key="C08.R3:no-data-waits")
    # R5
    opens = [(b, ev) for (a, b, l, ev) in edges if a == st["RTR_CONNECTING"] and ("call", "tr_open", -1) in ev]
    ctx.check(bool(opens) and all(b == st["RTR_ERROR_TRANSPORT"] for b, ev in opens), "C08.R5", "open-failure", "rtrlib/rtr/rtr.c",
              "failed tr_open -> %s" % sorted({inv.get(b, b) for b, ev in opens}), key="C08.R5:open")
    for f in ("tr_tcp_open", "tr_ssh_open"):
        if pdb.has_fn(f):
            g = pdb.fn(f)
            rs = retsets.get((g.unit, g.name))
            ctx.check(rs != "TOP" and set(rs) <= {0, -1}, "C08.R5", "%s:returns" % f, "%s:%d" % (g.relfile, g.line),
                      "returns %s; the CONNECTING arm tests for TR_ERROR (-1)" % (sorted(rs) if rs != "TOP" else rs), key="C08.R5:%s" % f)
    for c in ("rtr_send_serial_query", "rtr_send_reset_query"):
        fails = [(rv, states) for (rv, states, recv, slp) in summ[c] if rv != frozenset([0])]
        ctx.check(bool(fails) and all(states == frozenset([str(st["RTR_ERROR_TRANSPORT"])]) for rv, states in fails), "C08.R5", "%s:send-failure" % c,
                  "rtrlib/rtr/packets.c", "failure outcomes: %s" % [(sorted(rv) if rv else rv, sorted(states)) for rv, states in fails], key="C08.R5:%s" % c)
    from specs import C05, C07
    with ctx.shared({"C05.R6": ("C08.R6", "recovery state: request_session_id is cleared only by a completed synchronisation, so after any failed "
                                "exchange the client restarts from a query that matches the data it holds"),
                     "C07.R3": ("C08.R7", "expiry as last-resort recovery: the purge empties both tables and forces a Reset Query "
                                "(request_session_id = true, serial 0)"),
                     "C07.R2": ("C08.R11", "last_update (the socket's only memory of 'records of mine are in the tables') is zeroed only where both "
                                "tables were purged: with it zeroed while records remain, the reload after a Cache Reset is applied on top of "
                                "them (duplicate announcements, the reload fails again and again) and the expiry purge never fires")}):
        C05.r6(ctx, retsets)
        C07.r3(ctx, retsets)
        C07.r2(ctx, retsets)
    from specs import C03
    with ctx.shared({"C03.R2": ("C08.R8", "the serial number advances only together with the data: after a response that was rolled back the next query "
                                "asks for the same data again (otherwise the client stays ESTABLISHED on stale records)")}):
        C03.r2_r3_r4(ctx, retsets)
    from specs import C13
    with ctx.shared({"C13.R1": ("C08.R9", "every write of the negotiated version strictly lowers it: this is what bounds the number of FAST_RECONNECT "
                                "rounds, which are exempt from the must-sleep rule (R3)")}):
        C13.r1(ctx, retsets)
    from specs import C02
    with ctx.shared({"C02.R3": ("C08.R10", "the expiry purge leaves nothing of the socket behind (every element of the source, both children, both families): "
                                "a leftover record makes every later full reload fail with a duplicate announcement")}):
        C02.r3(ctx, retsets)
    ctx.not_decided("the protocol-time bound itself and equality of the records with the cache's data set")
    ctx.not_decided("termination of user-supplied transports")
    ctx.assume("sleep(retry_interval) and blocking receives let time advance; retry_interval >= 1 (C17.R4)")


RT = "rtrlib/rtr/rtr.c"
PK = "rtrlib/rtr/packets.c"
WITNESSES = [
    {"id": "C08.w1-delete-fast-reconnect-arm", "rule": "C08.R1", "file": RT,
     "old": "\t\telse if (rtr_socket->state == RTR_FAST_RECONNECT) {\n\t\t\tRTR_DBG1(\"State: RTR_FAST_RECONNECT\");\n\t\t\ttr_close(rtr_socket->tr_socket);\n\t\t\trtr_change_socket_state(rtr_socket, RTR_CONNECTING);\n\t\t}\n\n", "new": ""},
    {"id": "C08.w2-fatal-arm-stays-fatal", "rule": "C08.R2", "file": RT,
     "old": "\t\t\tRTR_DBG1(\"State: RTR_ERROR_FATAL\");\n\t\t\ttr_close(rtr_socket->tr_socket);\n\t\t\trtr_change_socket_state(rtr_socket, RTR_CONNECTING);",
     "new": "\t\t\tRTR_DBG1(\"State: RTR_ERROR_FATAL\");\n\t\t\ttr_close(rtr_socket->tr_socket);\n\t\t\trtr_change_socket_state(rtr_socket, RTR_ERROR_FATAL);"},
    {"id": "C08.w3-transport-arm-without-sleep", "rule": "C08.R3", "file": RT,
     "old": "\t\t\tRTR_DBG1(\"State: RTR_ERROR_TRANSPORT\");\n\t\t\ttr_close(rtr_socket->tr_socket);\n\t\t\trtr_change_socket_state(rtr_socket, RTR_CONNECTING);\n\t\t\tRTR_DBG(\"Waiting %u\", rtr_socket->retry_interval);\n\t\t\tpthread_setcancelstate(PTHREAD_CANCEL_ENABLE, &oldcancelstate);\n\t\t\tsleep(rtr_socket->retry_interval);",
     "new": "\t\t\tRTR_DBG1(\"State: RTR_ERROR_TRANSPORT\");\n\t\t\ttr_close(rtr_socket->tr_socket);\n\t\t\trtr_change_socket_state(rtr_socket, RTR_CONNECTING);\n\t\t\tRTR_DBG(\"Waiting %u\", rtr_socket->retry_interval);\n\t\t\tpthread_setcancelstate(PTHREAD_CANCEL_ENABLE, &oldcancelstate);"},
    {"id": "C08.w4-sync-timeout-silent", "rule": "C08.R4", "file": PK,
     "old": "\t\tif (rtval == TR_WOULDBLOCK || rtval == TR_CLOSED) {\n\t\t\trtr_change_socket_state(rtr_socket, RTR_ERROR_TRANSPORT);\n\t\t\treturn RTR_ERROR;\n\t\t} else if (rtval < 0) {\n\t\t\treturn RTR_ERROR;\n\t\t}\n\n\t\ttype = rtr_get_pdu_type(pdu);\n\t\tif (type == SERIAL_NOTIFY)",
     "new": "\t\tif (rtval < 0) {\n\t\t\treturn RTR_ERROR;\n\t\t}\n\n\t\ttype = rtr_get_pdu_type(pdu);\n\t\tif (type == SERIAL_NOTIFY)"},
    {"id": "C08.w5-closed-connection-spins", "rule": "C08.R4", "file": PK,
     "old": "\t} else if (rtval == TR_CLOSED) {\n\t\trtr_change_socket_state(rtr_socket, RTR_ERROR_TRANSPORT);\n\t}\n\treturn RTR_ERROR;", "new": "\t}\n\treturn RTR_ERROR;"},
    {"id": "C08.w6-open-failure-retried-at-once", "rule": "C08.R3", "file": RT,
     "old": "\t\t\tif (tr_open(rtr_socket->tr_socket) == TR_ERROR) {\n\t\t\t\trtr_change_socket_state(rtr_socket, RTR_ERROR_TRANSPORT);",
     "new": "\t\t\tif (tr_open(rtr_socket->tr_socket) == TR_ERROR) {\n\t\t\t\trtr_change_socket_state(rtr_socket, RTR_FAST_RECONNECT);"},
    {"id": "C08.w7-no-data-arm-loops-to-itself", "rule": "C08.R2", "file": RT,
     "old": "\t\t\trtr_socket->serial_number = 0;\n\t\t\trtr_change_socket_state(rtr_socket, RTR_RESET);\n\t\t\tsleep(rtr_socket->retry_interval);",
     "new": "\t\t\trtr_socket->serial_number = 0;\n\t\t\tsleep(rtr_socket->retry_interval);"},
    {"id": "C08.w8-send-failure-not-reported", "rule": "C08.R5", "also": ("C08.R4",), "file": PK,
     "old": "\tif (rtr_send_pdu(rtr_socket, &pdu, sizeof(pdu)) != RTR_SUCCESS) {\n\t\trtr_change_socket_state(rtr_socket, RTR_ERROR_TRANSPORT);\n\t\treturn RTR_ERROR;\n\t}\n\treturn RTR_SUCCESS;\n}\n\nint rtr_send_reset_query",
     "new": "\tif (rtr_send_pdu(rtr_socket, &pdu, sizeof(pdu)) != RTR_SUCCESS) {\n\t\treturn RTR_ERROR;\n\t}\n\treturn RTR_SUCCESS;\n}\n\nint rtr_send_reset_query"},
    {"id": "C08.w-no-data-arm-without-wait", "rule": "C08.R3", "file": RT,
     "old": "\t\t\trtr_change_socket_state(rtr_socket, RTR_RESET);\n\t\t\tsleep(rtr_socket->retry_interval);\n\t\t\trtr_purge_outdated_records(rtr_socket);",
     "new": "\t\t\trtr_change_socket_state(rtr_socket, RTR_RESET);\n\t\t\tif (rtr_socket->state == RTR_ERROR_NO_DATA_AVAIL)\n\t\t\t\tsleep(rtr_socket->retry_interval);\n\t\t\trtr_purge_outdated_records(rtr_socket);"},
]
