"""C18 — allocation failure is contained; the configured allocator is used consistently (partial).

R1 who-may-call: libc allocation functions are referenced (called or passed as a function pointer) only in alloc_utils.c
R2 every allocation result is tested before it is dereferenced, and a NULL result is never published by a function
   that cannot report the failure
R3 no partial effect on the failure edge (per-site expectations; the table-level ones are shared with C02/C04/C10/C03)
R4 release coverage: what an operation allocates, the matching remove/free operation releases on its success paths
R5 nothing freed stays published through an out-parameter
"""
from engine import es, flow, vf
from engine.pdb import AnalysisBroken

LIBC = {"malloc", "calloc", "realloc", "free", "strdup", "strndup", "reallocarray", "aligned_alloc", "posix_memalign"}
ALLOC = {"lrtr_malloc", "lrtr_calloc", "lrtr_realloc", "lrtr_strdup"}
AU = "rtrlib/lib/alloc_utils.c"
SCOPE = ["rtrlib/lib/alloc_utils.c", "rtrlib/pfx/trie/trie-pfx.c", "rtrlib/pfx/trie/trie.c", "rtrlib/spki/hashtable/ht-spkitable.c",
         "rtrlib/rtr/packets.c", "rtrlib/rtr/rtr.c", "rtrlib/rtr_mgr.c", "third-party/tommyds/tommy.c"]


def r1(ctx):
    pdb = ctx.pdb
    ctx.rule("C18.R1", "malloc/calloc/realloc/free/strdup are called or have their address taken only inside alloc_utils.c; every other "
             "unit of the table / synchronisation code (incl. the embedded tommyds as compiled) goes through lrtr_*")
    n = 0
    info = []
    for f in pdb.all_functions():
        for i in f.all_insts():
            refs = []
            if i.op == "call" and i.callee in LIBC:
                refs.append(("call", i.callee))
            for a in (i.args if i.op == "call" else [i.d.get("val", "")] if i.op == "store" else []):
                if isinstance(a, str) and a.startswith("@") and a[1:] in LIBC:
                    refs.append(("address", a[1:]))
            for kind, name in refs:
                if f.unit == AU:
                    continue
                if f.unit in SCOPE:
                    n += 1
                    ctx.violation("C18.R1", "%s:%s-of-%s" % (f.name, kind, name), i.loc(), "libc %s %s in %s (blocks come from / go to the configured allocator elsewhere)" % (
                        name, "called" if kind == "call" else "passed as a function pointer", f.name), key="C18.R1:%s:%s" % (f.name, name))
                else:
                    info.append("%s: %s of %s in %s" % (i.loc(), kind, name, f.name))
    # global initialisers that take the address of libc allocators
    for (unit, gname), g in pdb.uglobals.items():
        init = g.get("init")
        if isinstance(init, dict) and init.get("ref") in LIBC and unit != AU and unit in SCOPE:
            ctx.violation("C18.R1", "global:%s" % gname, unit, "global %s initialised with libc %s" % (gname, init["ref"]), key="C18.R1:global:%s" % gname)
    # the matcher is alive: alloc_utils.c itself must show the references (positive control), and out-of-scope units are listed
    ctl = sum(1 for (unit, gname), g in pdb.uglobals.items() if unit == AU and isinstance(g.get("init"), dict) and g["init"].get("ref") in LIBC)
    ctx.floor("C18.R1", ctl, 3)
    # inside the wrapper unit the libc allocators are only the initial values of the three pointers: a direct call would hand out
    # (or take back) memory behind the configured allocator's back
    direct = [(f, i) for f in pdb.all_functions() if f.unit == AU for i in f.calls() if i.callee in LIBC]
    ctx.check(not direct, "C18.R1", "alloc_utils:no-direct-libc-call", (direct[0][1].loc() if direct else AU),
              ("%s calls libc %s directly" % (direct[0][0].name, direct[0][1].callee)) if direct else
              "no function of the wrapper unit calls a libc allocator directly", key="C18.R1:alloc_utils:direct")
    if not any(o["rule"] == "C18.R1" and o["verdict"] != "holds" for o in ctx.obls):
        ctx.ok("C18.R1", "libc-allocators-only-in-alloc_utils", AU, "%d units in scope; positive control: %d function-pointer initialisers found in alloc_utils.c" % (len(SCOPE), ctl))
    for x in info:
        ctx.note("outside the property's scope (information): " + x)
    # tommyds macros resolve to lrtr_* (checked on the IR, not on the header text)
    tf = [f for f in pdb.all_functions() if f.unit == "third-party/tommyds/tommy.c"]
    uses = {c.callee for f in tf for c in f.calls() if c.callee in ALLOC or c.callee == "lrtr_free"}
    ctx.check({"lrtr_malloc", "lrtr_free"} <= uses, "C18.R1", "tommyds-uses-lrtr", "third-party/tommyds/tommy.c", "allocator calls in tommyds as compiled: %s" % sorted(uses), key="C18.R1:tommy")


def alloc_sites(pdb):
    out = []
    for f in pdb.all_functions():
        if f.unit not in SCOPE or f.unit == AU:
            continue
        if f.unit.startswith("third-party") and not ("hashlin" in f.name or f.relfile.endswith("tommyhashlin.c")):
            continue    # only the hash table variant the library uses
        for c in f.calls():
            if c.callee in ALLOC:
                out.append(c)
    return out


# allocation sites whose failure is absorbed by design: (function, allocator) -> reason
TOLERATED = {
}


def r2(ctx, retsets):
    pdb = ctx.pdb
    ctx.rule("C18.R2", "for every allocation call in scope: on the path where it returns NULL the result is not dereferenced, not handed to "
             "a callee that uses it, and not left published by a function that then reports success (or cannot report at all)")
    sites = alloc_sites(pdb)
    ctx.floor("C18.R2", len(sites), 20)
    SAFE_SINK = {"lrtr_free", "lrtr_realloc", "free"}
    for c in sites:
        fn = c.fn
        ctx.touch(fn)
        me = vf.expr(fn, c.ref)
        problems = []

        def derived(e):
            return vf.root_of(e) == me

        def classify(inst, E, st, c=c):
            if inst.op == "call" and inst is c:
                return [(["=null:1"], {inst.ref: flow.av_in(0)})]
            if st.get("null") != "1":
                return None
            if inst.op in ("load", "store"):
                pe = vf.expr(fn, inst["ptr"])
                if derived(pe) and pe != me or (pe == me):
                    if flow.av_single(E.val(c.ref)) == 0:
                        problems.append((inst, "dereferenced although the allocation failed"))
            if inst.op == "store":
                ve = vf.expr(fn, inst["val"])
                pe = vf.expr(fn, inst["ptr"])
                r = vf.root_of(pe)
                if (ve == me or (ve[0] in ("ptradd", "idx", "fld") and vf.root_of(ve) == me)) and not (isinstance(r, tuple) and r[0] == "alloca"):
                    return ["=pub:%s" % vf.show(pe)[:40].replace(":", ";")]
                if st.get("pub") and vf.show(pe)[:40].replace(":", ";") == st.get("pub") and ve != me:
                    return ["=pub:"]
            if inst.op == "call" and inst.callee and not inst.callee.startswith("llvm.dbg") and inst is not c:
                for a in inst.args:
                    if vf.expr(fn, a) == me and inst.callee not in SAFE_SINK and flow.av_single(E.val(c.ref)) == 0:
                        problems.append((inst, "NULL result handed to %s" % inst.callee))
            return None
        outs, fl = es.count_effects(fn, pdb, classify, retsets, cap=64)
        # published NULL and success / void return
        for o in outs:
            if o["counts"].get("null") == "1" and o["counts"].get("pub"):
                rv = o["ret"]
                void = fn.d["ret"] == "void"
                succ = (flow.av_single(rv) == 0) if not fn.d["ret"].endswith("*") else (rv is not None and rv != flow.av_in(0))
                if void or succ:
                    problems.append((o["inst"], "NULL stored in %s and the function %s" % (o["counts"]["pub"], "returns nothing" if void else "reports success")))
        # ... and a function that reports a status reports the failure: no success code on a path on which its own allocation failed
        rs = retsets.get((fn.unit, fn.name))
        if fn.d["ret"] == "i32" and rs and rs != "TOP" and 0 in rs and any(v < 0 for v in rs) and (fn.name, c.callee) not in TOLERATED:
            for o in outs:
                if o["counts"].get("null") == "1" and flow.av_single(o["ret"]) == 0:
                    problems.append((o["inst"], "returns the success code although this allocation failed"))
                    break
        key = "C18.R2:%s:%s" % (fn.name, c.callee)
        seen = set()
        if problems:
            for inst, msg in problems:
                if (inst.id, msg) in seen:
                    continue
                seen.add((inst.id, msg))
                ctx.violation("C18.R2", "%s:%s@%d" % (fn.name, c.callee, _ord(fn, c)), inst.loc(), msg, key=key)
        else:
            ctx.ok("C18.R2", "%s:%s@%d" % (fn.name, c.callee, _ord(fn, c)), c.loc(), "result tested before use; failure reported")


def _ord(fn, inst):
    k = 0
    for c in fn.calls():
        if c.callee in ALLOC:
            k += 1
            if c is inst:
                return k
    return 0


def del_elem_shape(pdb):
    """the rules on pfx_table_del_elem (gap closed in ascending order, element put back at index len on failure, elements and length
    change together) are written for the removal that shifts the tail down by one; a removal that fills the gap another way (last
    element moved into it) keeps the set but not the order, and is not recognised by matching"""
    fn = pdb.fn("pfx_table_del_elem")
    if not fn.loops() and not [c for c in fn.calls() if "memmove" in (c.callee or "")]:
        raise AnalysisBroken("pfx_table_del_elem: the tail is no longer shifted down to close the gap (no loop, no memmove): the rules on the "
                             "order of the remaining elements and on what a failed shrink puts back are written for the shifting form")


def r3(ctx, retsets):
    pdb = ctx.pdb
    ctx.rule("C18.R3", "failure edge, element level: append leaves the node untouched; delete restores the removed element and the length; "
             "node creation releases what it had allocated; validation clears the reasons; all report an error. Table level: see the "
             "shared rules C18.R6-R10")
    E_ = pdb.enum("pfx_rtvals")
    # append
    fn = pdb.fn("pfx_table_append_elem")
    ctx.touch(fn)

    def cl(inst, E, st):
        if inst.op == "call" and inst.callee == "lrtr_realloc":
            return [(["=a:fail"], {inst.ref: flow.av_in(0)}), (["=a:ok"], {inst.ref: ("nin", frozenset([0]))})]
        if inst.op == "store" and (vf.store_field(inst) or "").startswith(("node_data.", "data_elem.")):
            return ["write:" + vf.store_field(inst).split(".")[1]]
        return None
    outs, fl = es.count_effects(fn, pdb, cl, retsets)
    fail = [o for o in outs if o["counts"].get("a") == "fail"]
    ok = [o for o in outs if o["counts"].get("a") == "ok"]
    ctx.check(bool(fail) and all(set(o["counts"]) == {"a"} and flow.av_single(o["ret"]) == E_["PFX_ERROR"] for o in fail), "C18.R3", "append_elem[realloc fails]",
              "%s:%d" % (fn.relfile, fn.line), "effects %s" % [o["counts"] for o in fail], key="C18.R3:append")
    ctx.check(bool(ok) and all({"write:len", "write:ary", "write:asn", "write:max_len", "write:socket"} <= set(o["counts"]) for o in ok), "C18.R3", "append_elem[ok]",
              "%s:%d" % (fn.relfile, fn.line), "length, array pointer and the three element fields are written", key="C18.R3:append-ok")
    # delete: restoring pair
    del_elem_shape(pdb)
    fn = pdb.fn("pfx_table_del_elem")
    ctx.touch(fn)
    LEN = ("fld", ("arg", 0), "node_data.len")

    def cl2(inst, E, st):
        if inst.op == "call" and inst.callee == "lrtr_realloc":
            return [(["=a:fail"], {inst.ref: flow.av_in(0)}), (["=a:ok"], {inst.ref: ("nin", frozenset([0]))})]
        if inst.op == "call" and inst.callee == "lrtr_free":
            return ["free"]
        if inst.op == "store" and vf.expr(fn, inst["ptr"]) == LEN:
            v = vf.expr(fn, inst["val"])
            if v[0] == "bin" and v[1] == "add" and v[2] == ("load", LEN):
                return ["len+1" if v[3] == ("c", 1) else ("len-1" if v[3] == ("c", -1) else "len?")]
            return ["len?"]
        if (inst.op == "call" and (inst.callee or "").startswith("llvm.memcpy") and st.get("a") == "fail") or (inst.op == "store" and st.get("a") == "fail"):
            pe = vf.expr(fn, inst.args[0] if inst.op == "call" else inst["ptr"])
            while pe[0] == "fld":
                pe = pe[1]
            if pe[0] in ("idx", "ptradd") and pe[2] == ("load", LEN):
                return ["restore_at_len"]
        return None
    outs, fl = es.count_effects(fn, pdb, cl2, retsets)
    fail = [o for o in outs if o["counts"].get("a") == "fail"]
    good = bool(fail) and all(o["counts"].get("len-1") == 1 and o["counts"].get("len+1") == 1 and o["counts"].get("restore_at_len", 0) >= 1 and
                              flow.av_single(o["ret"]) == E_["PFX_ERROR"] and not o["counts"].get("free") for o in fail)
    ctx.check(good, "C18.R3", "del_elem[realloc fails]", "%s:%d" % (fn.relfile, fn.line), "effects %s (expected: element put back at index len, len incremented again, PFX_ERROR)" % [o["counts"] for o in fail],
              key="C18.R3:del")
    # router-key container: a failed segment allocation leaves the size bookkeeping as it was (the table keeps working with longer chains)
    fn = pdb.fn_flat("hashlin_grow_step")
    ctx.touch(fn)
    HARMLESS = {"tommy_hashlin_struct.low_max", "tommy_hashlin_struct.low_mask"}     # copies of the live values, read only while growing

    def clg(inst, E, st):
        if inst.op == "call" and inst.callee in ("lrtr_malloc", "lrtr_calloc", "lrtr_realloc"):
            return [(["=a:fail"], {inst.ref: flow.av_in(0)}), (["=a:ok"], {inst.ref: ("nin", frozenset([0]))})]
        if inst.op == "store" and vf.root_of(vf.expr(fn, inst["ptr"])) == ("arg", 0):
            f = vf.store_field(inst) or vf.show(vf.expr(fn, inst["ptr"]))
            if f not in HARMLESS:
                return ["write:" + f.split(".")[-1]]
        return None
    outs, fl = es.count_effects(fn, pdb, clg, retsets, cap=96)
    fail = [o for o in outs if o["counts"].get("a") == "fail"]
    wrote = sorted({k for o in fail for k in o["counts"] if k.startswith("write:")})
    ctx.check(bool(fail) and not wrote, "C18.R3", "hashlin_grow_step[segment allocation fails]", "%s:%d" % (fn.relfile, fn.line),
              "fields of the table written on the failure paths: %s (expected none: bucket_bit / bucket_max / bucket_mask / state / split describe "
              "segments that exist)" % (wrote or "none"), key="C18.R3:hashlin_grow")
    # create_node
    fn = pdb.fn("pfx_table_create_node")
    ctx.touch(fn)
    ms = fn.calls("lrtr_malloc")
    ctx.floor("C18.R3", len(ms), 2)
    for which in (1, 2, 3):
        def cl3(inst, E, st):
            if inst.op == "call" and inst.callee == "lrtr_malloc":
                k = st.get("m", 0) + 1
                return [(["m"], {inst.ref: flow.av_in(0) if k == which else ("nin", frozenset([0]))})]
            if inst.op == "call" and inst.callee == "pfx_table_append_elem":
                return [([], {inst.ref: flow.av_in(-1 if which == 3 else 0)})]
            if inst.op == "call" and inst.callee == "lrtr_free":
                return ["free"]
            return None
        outs, fl = es.count_effects(fn, pdb, cl3, retsets)
        want_free = which - 1
        good = bool(outs) and all(o["counts"].get("free", 0) == want_free and flow.av_single(o["ret"]) == E_["PFX_ERROR"] for o in outs)
        ctx.check(good, "C18.R3", "create_node[allocation %d fails]" % which, "%s:%d" % (fn.relfile, fn.line),
                  "frees %s, returns %s (expected %d frees, PFX_ERROR)" % (sorted({o["counts"].get("free", 0) for o in outs}), sorted({str(flow.av_single(o["ret"])) for o in outs}), want_free),
                  key="C18.R3:create_node:%d" % which)
    # validate_r
    fn = pdb.fn("pfx_table_validate_r")
    ctx.touch(fn)

    def cl4(inst, E, st):
        if inst.op == "call" and inst.callee == "lrtr_realloc":
            if st.get("f"):
                return [([], {inst.ref: ("nin", frozenset([0]))})]
            return [(["=f:1"], {inst.ref: flow.av_in(0)}), ([], {inst.ref: ("nin", frozenset([0]))})]
        if inst.op == "call" and inst.callee == "pfx_table_free_reason":
            return ["cleared"]
        if inst.op == "call" and inst.callee in ("pthread_rwlock_rdlock",):
            return ["=lk:R"]
        if inst.op == "call" and inst.callee == "pthread_rwlock_unlock":
            return ["=lk:U"]
        if inst.op == "call" and inst.callee == "pfx_table_elem_matches":
            if st.get("it", 0) >= 2:
                return flow.KILL
            return ["it"]
        return None
    outs, fl = es.count_effects(fn, pdb, cl4, retsets, cell={1: ("nin", frozenset([0])), 2: ("nin", frozenset([0]))}, cap=96)
    fail = [o for o in outs if o["counts"].get("f") == "1"]
    good = bool(fail) and all(o["counts"].get("cleared", 0) >= 1 and flow.av_single(o["ret"]) == E_["PFX_ERROR"] and o["counts"].get("lk") == "U" for o in fail)
    ctx.check(good, "C18.R3", "validate_r[reason realloc fails]", "%s:%d" % (fn.relfile, fn.line),
              "outcomes %s" % sorted({(o["counts"].get("cleared", 0), str(flow.av_single(o["ret"])), o["counts"].get("lk")) for o in fail}), key="C18.R3:validate_r")


def r3_array_and_length(ctx, retsets):
    """set semantics on the failure exits: a function that moves or writes elements inside a node's live element array and then
    fails has also written the node's length on that path (an early error return between a compaction and its length update
    - for instance when the shrinking realloc fails - leaves duplicates behind the new end or hides live records)"""
    pdb = ctx.pdb

    def live_elem(fn, ref):
        e = vf.expr(fn, ref)
        return vf.mentions(e, lambda x: isinstance(x, tuple) and len(x) == 2 and x[0] == "load" and vf.last_field(x[1]) == "node_data.ary")
    n = 0
    for fn in pdb.all_functions():
        sites = []
        for i in fn.all_insts():
            if i.op == "call" and (i.callee or "").startswith(("llvm.memcpy", "llvm.memmove", "memcpy", "memmove")) and live_elem(fn, i.args[0]):
                sites.append(i)
            elif i.op == "store" and live_elem(fn, i["ptr"]):
                sites.append(i)
        if not sites:
            continue
        ctx.touch(fn)
        n += 1
        ids = {id(x) for x in sites}

        def cl(inst, E, st, ids=ids):
            if id(inst) in ids:
                return ["=ew:%d" % inst.line]
            if inst.op == "store" and vf.store_field(inst) == "node_data.len":
                return ["=lw:1"]
            if inst.op == "call" and inst.callee in (fn.name, "trie_remove"):
                return ["=ew:", "=lw:"]     # this node's array has been dealt with; what follows concerns another node
            return None
        outs, fl = es.count_effects(fn, pdb, cl, retsets, cap=64)
        # judged on the failure exits (the property's subject); a success exit that wrote elements without touching the length is the
        # 'nothing had to go' case of a one-pass compaction (every element copied onto itself)
        bad = [o for o in outs if o["counts"].get("ew") and not o["counts"].get("lw") and
               flow.av_single(o["ret"]) is not None and flow.av_single(o["ret"]) < 0]
        ctx.check(not bad, "C18.R3", "%s:elements-and-length-change-together" % fn.name, sites[0].loc(),
                  "every failing path that wrote into the node's element array also wrote its length" if not bad else
                  "a path returns %s after the element write at line %s without updating the length (lines %s)" % (
                      flow.av_single(bad[0]["ret"]), bad[0]["counts"].get("ew"), flow.trace_lines(fn, bad[0]["trace"])[-8:]),
                  key="C18.R3:array-length:%s" % fn.name)
    ctx.floor("C18.R3", n, 2)


def r4(ctx, retsets):
    pdb = ctx.pdb
    ctx.rule("C18.R4", "release coverage: del_elem frees the element array when the last element goes; the node-removing paths free the "
             "node's data block and the node; table destruction frees array, data block and node of every node; the receive "
             "function frees its three temporary arrays on every exit; entries are freed where they leave the containers")
    fn = pdb.fn("pfx_table_del_elem")
    LEN = ("fld", ("arg", 0), "node_data.len")

    def is_len0(e):
        return e[0] == "load" and e[1] == LEN
    for last in (True, False):
        def oracle(inst, pred, a, b, E):
            if pred in ("eq", "ne") and is_len0(a) and b == ("c", 0):
                return last if pred == "eq" else not last
            return None

        def cl(inst, E, st):
            if inst.op == "call" and inst.callee == "lrtr_free":
                return ["free_ary" if vf.expr(fn, inst.args[0]) == ("load", ("fld", ("arg", 0), "node_data.ary")) else "free_other"]
            if inst.op == "call" and inst.callee == "lrtr_realloc":
                return [(["shrink"], {inst.ref: ("nin", frozenset([0]))})]
            if inst.op == "store" and vf.store_field(inst) == "node_data.ary":
                return ["ary<-%s" % ("NULL" if flow.av_single(E.val(inst["val"])) == 0 else "new")]
            return None
        # tobool on len: trunc/icmp ne 0
        outs, fl = es.count_effects(fn, pdb, cl, retsets, oracle=oracle)
        # the test is written as !data->len : covered by oracle on (len == 0) or decided through facts otherwise
        sel = outs
        if last:
            good = any(o["counts"].get("free_ary") == 1 and o["counts"].get("ary<-NULL") == 1 for o in sel) and not any(o["counts"].get("shrink") and o["counts"].get("free_ary") for o in sel)
        else:
            good = all(not o["counts"].get("free_ary") for o in sel if o["counts"].get("shrink"))
        ctx.check(good, "C18.R4", "del_elem[%s]" % ("last element" if last else "others remain"), "%s:%d" % (fn.relfile, fn.line),
                  "outcomes %s" % sorted({tuple(sorted(o["counts"].items())) for o in sel})[:4], key="C18.R4:del_elem:%s" % last)
    for fname, want in (("pfx_table_remove", 2), ("pfx_table_remove_id", 2), ("pfx_table_free", 3)):
        f = pdb.fn(fname)
        ctx.touch(f)
        tr = f.calls("trie_remove")
        ctx.floor("C18.R4", len(tr), 1)
        t = tr[0]
        frees = [c for c in f.calls("lrtr_free") if f.dom(t, c) and (c.block.id == t.block.id or f.bpdom(c.block.id, t.block.id) or _same_chain(f, t, c))]
        objs = set()
        for c in frees:
            e = vf.expr(f, c.args[0])
            if e[0] == "call" and e[1] == "trie_remove":
                objs.add("node")
            elif e[0] == "load" and vf.last_field(e[1]) == "trie_node.data":
                objs.add("data")
            elif e[0] == "load" and vf.last_field(e[1]) == "node_data.ary":
                objs.add("ary")
        need = {"node", "data"} | ({"ary"} if want == 3 else set())
        ctx.check(need <= objs, "C18.R4", "%s:node-release" % fname, t.loc(), "after trie_remove: frees %s (needs %s)" % (sorted(objs), sorted(need)), key="C18.R4:%s" % fname)
    rv = pdb.fn("rtr_sync_receive_and_store_pdus")
    ctx.touch(rv)
    temps = set()
    for c in rv.calls(("rtr_store_prefix_pdu", "rtr_store_router_key_pdu")):
        al = vf.alloca_of(rv, c.args[3])
        if al is not None:
            temps.add(("alloca", al.id, al.get("name", "")))
    ctx.floor("C18.R4", len(temps), 3)

    def cl5(inst, E, st):
        if inst.op == "call" and inst.callee == "lrtr_free":
            e = vf.expr(rv, inst.args[0])
            r = vf.root_of(e)
            if r in temps:
                return ["free_tmp:%d" % r[1]]
        return None
    outs, fl = es.count_effects(rv, pdb, cl5, retsets, cap=64)
    good = bool(outs) and all(sum(1 for k, v in o["counts"].items() if k.startswith("free_tmp") and v == 1) == len(temps) for o in outs)
    ctx.check(good, "C18.R4", "receive:temporary-arrays-freed", "%s:%d" % (rv.relfile, rv.line), "%d return states, each frees all %d temporary arrays exactly once" % (len(outs), len(temps)),
              key="C18.R4:receive:temps")


def _same_chain(f, a, b):
    return f.reaches(a, b) and not f.reaches(b, a)


def r5(ctx, retsets):
    pdb = ctx.pdb
    ctx.rule("C18.R5", "a block released through an out-parameter (*param) is not left there: before the function returns the out-parameter "
             "is overwritten (NULL or a new block)")
    n = 0
    for f in pdb.all_functions():
        if f.unit not in SCOPE or f.unit.startswith("third-party"):
            continue
        if not f.name.startswith(("pfx_table_", "spki_table_", "rtr_")) or f.linkage == "internal":
            continue   # out-parameters of the API; static helpers' out-parameters never leave their single caller
        frees = []
        for c in f.calls(("lrtr_free", "pfx_table_free_reason")):
            e = vf.expr(f, c.args[0])
            if c.callee == "lrtr_free" and e[0] == "load" and e[1][0] == "arg":
                frees.append((c, e[1]))
        if not frees:
            continue
        ctx.touch(f)
        for c, P in frees:
            n += 1

            def cl(inst, E, st, c=c, P=P):
                if inst.op == "call" and inst is c:
                    return ["=dangling:1"]
                if inst.op == "store" and vf.expr(f, inst["ptr"]) == P:
                    return ["=dangling:0"]
                return None
            outs, fl = es.count_effects(f, pdb, cl, retsets, cap=64)
            bad = [o for o in outs if o["counts"].get("dangling") == "1"]
            ctx.check(not bad, "C18.R5", "%s:*arg%d" % (f.name, P[1]), c.loc(),
                      "the freed block's address is overwritten on every path to a return" if not bad else "returns with *arg%d still holding the freed address" % P[1],
                      key="C18.R5:%s:result" % f.name, path=(flow.trace_lines(f, bad[0]["trace"]) if bad else None))
    ctx.floor("C18.R5", n, 2)


def check(ctx):
    retsets = flow.return_sets(ctx.pdb)
    r1(ctx)
    r2(ctx, retsets)
    r3(ctx, retsets)
    r3_array_and_length(ctx, retsets)
    r4(ctx, retsets)
    r5(ctx, retsets)
    from specs import C02, C03, C04, C10
    with ctx.shared({"C02.R2": ("C18.R6", "prefix table operations: an error return (allocation failure) leaves the trie untouched — no insert, no root store, no node released"),
                     "C10.R5": ("C18.R7", "router-key table: a failed entry allocation is reported as SPKI_ERROR without any container call")}):
        C02.r2(ctx, retsets)
        C10.r3_r5_r6(ctx, retsets)
    with ctx.shared({"C04.R9": ("C18.R8", "temporary PDU stores: a failed growth keeps the old array and fails the call after an error report"),
                     "C03.R4": ("C18.R9", "synchronisation: shadow tables are released on every path and the live tables stay untouched when their creation fails")}):
        C04.r9(ctx, retsets)
        C03.r2_r3_r4(ctx, retsets)
    from specs import C06
    with ctx.shared({"C06.R4": ("C18.R10", "copying the other sockets' records into a shadow table: a record that cannot be added (allocation failure) "
                                "fails the whole copy - the walk's error flag is a latch that later successful adds do not lower")}):
        C06.r4(ctx, retsets)
        C06.r4_spki_latch(ctx, retsets)
    ctx.not_decided("set semantics after the k-th allocation failure for every k over whole operation histories (C02 composed with R2/R3)")
    ctx.not_decided("allocation behaviour inside OpenSSL / libssh and in the transports (outside the property's anchors)")


TP = "rtrlib/pfx/trie/trie-pfx.c"
HT = "rtrlib/spki/hashtable/ht-spkitable.c"
PK = "rtrlib/rtr/packets.c"
TH = "third-party/tommyds/tommyhashlin.c"
WITNESSES = [
    {"id": "C18.w1-libc-free-in-pfx_table_remove", "rule": "C18.R1", "file": TP,
     "old": "\t\tlrtr_free(node->data);\n\t\tlrtr_free(node);\n\t}\n\tpthread_rwlock_unlock(&pfx_table->lock);\n\n\tpfx_table_notify_clients(pfx_table, record, false);", "new": "\t\tlrtr_free(node->data);\n\t\tfree(node);\n\t}\n\tpthread_rwlock_unlock(&pfx_table->lock);\n\n\tpfx_table_notify_clients(pfx_table, record, false);"},
    {"id": "C18.w2-undo-F11-libc-free-as-callback", "rule": "C18.R1", "file": HT,
     "old": "\tspki_table->update_fp = NULL;\n\ttommy_list_foreach(&spki_table->list, lrtr_free);", "new": "\tspki_table->update_fp = NULL;\n\ttommy_list_foreach(&spki_table->list, free);"},
    {"id": "C18.w3-append-without-null-test", "rule": "C18.R2", "file": TP,
     "old": "\tif (!tmp)\n\t\treturn PFX_ERROR;\n\tdata->len++;", "new": "\tdata->len++;"},
    {"id": "C18.w4-del_elem-restore-forgets-len", "rule": "C18.R3", "file": TP,
     "old": "\t\tdata->ary[data->len] = deleted_elem;\n\t\tdata->len++;\n\t\treturn PFX_ERROR;", "new": "\t\tdata->ary[data->len] = deleted_elem;\n\t\treturn PFX_ERROR;"},
    {"id": "C18.w5-create_node-leaks-node", "rule": "C18.R3", "file": TP,
     "old": "\tif (!(*node)->data) {\n\t\terr = PFX_ERROR;\n\t\tgoto free_node;\n\t}", "new": "\tif (!(*node)->data)\n\t\treturn PFX_ERROR;"},
    {"id": "C18.w6-table-free-forgets-array", "rule": "C18.R4", "file": TP,
     "old": "\t\t\t\tlrtr_free(((struct node_data *)rm_node->data)->ary);\n", "new": ""},
    {"id": "C18.w7-undo-F19-result-left-dangling", "rule": "C18.R5", "file": HT,
     "old": "\t\t\t\tlrtr_free(*result);\n\t\t\t\t*result = NULL;\n\t\t\t\t*result_size = 0;\n\t\t\t\tpthread_rwlock_unlock(&spki_table->lock);\n\t\t\t\treturn SPKI_ERROR;\n\t\t\t}\n\t\t\t*result = tmp;\n\t\t\tkey_entry_to_spki_record(element,",
     "new": "\t\t\t\tlrtr_free(*result);\n\t\t\t\tpthread_rwlock_unlock(&spki_table->lock);\n\t\t\t\treturn SPKI_ERROR;\n\t\t\t}\n\t\t\t*result = tmp;\n\t\t\tkey_entry_to_spki_record(element,"},
    {"id": "C18.w8-undo-F12-grow-unchecked", "rule": "C18.R2", "file": TH,
     "old": "\t\t\tif (!segment)\n\t\t\t\treturn;\n", "new": ""},
    {"id": "C18.w9-store-overwrites-array-with-null", "rule": "C18.R8", "also": ("C18.R2",), "file": PK,
     "old": "\t\tvoid *tmp = lrtr_realloc(*ary, *size * pdu_size);\n\n\t\tif (!tmp) {\n\t\t\tconst char txt[] = \"Realloc failed\";\n\n\t\t\tRTR_DBG(\"%s\", txt);\n\t\t\trtr_send_error_pdu_from_host(rtr_socket, NULL, 0, INTERNAL_ERROR, txt, sizeof(txt));\n\t\t\trtr_change_socket_state(rtr_socket, RTR_ERROR_FATAL);\n\t\t\treturn RTR_ERROR;\n\t\t}\n\t\t*ary = tmp;\n\t}\n\tif (type == IPV4_PREFIX) {",
     "new": "\t\t*ary = lrtr_realloc(*ary, *size * pdu_size);\n\n\t\tif (!*ary) {\n\t\t\tconst char txt[] = \"Realloc failed\";\n\n\t\t\tRTR_DBG(\"%s\", txt);\n\t\t\trtr_send_error_pdu_from_host(rtr_socket, NULL, 0, INTERNAL_ERROR, txt, sizeof(txt));\n\t\t\trtr_change_socket_state(rtr_socket, RTR_ERROR_FATAL);\n\t\t\treturn RTR_ERROR;\n\t\t}\n\t}\n\tif (type == IPV4_PREFIX) {"},
    {"id": "C18.w10-add-entry-uses-entry-before-test", "rule": "C18.R2", "file": HT,
     "old": "\tentry = lrtr_malloc(sizeof(*entry));\n\tif (!entry)\n\t\treturn SPKI_ERROR;\n\n\tspki_record_to_key_entry(spki_record, entry);", "new": "\tentry = lrtr_malloc(sizeof(*entry));\n\tspki_record_to_key_entry(spki_record, entry);\n\tif (!entry)\n\t\treturn SPKI_ERROR;\n"},
    {"id": "C18.w11-receive-leaks-ipv6-array-on-error", "rule": "C18.R4", "file": PK,
     "old": "\tlrtr_free(router_key_pdus);\n\tlrtr_free(ipv6_pdus);\n\tlrtr_free(ipv4_pdus);\n\treturn retval;", "new": "\tlrtr_free(router_key_pdus);\n\tif (retval == RTR_SUCCESS)\n\t\tlrtr_free(ipv6_pdus);\n\tlrtr_free(ipv4_pdus);\n\treturn retval;"},
    {"id": "C18.w12-copy-error-flag-overwritten", "rule": "C18.R10", "file": TP,
     "old": "\t\tif (pfx_table_add(args->pfx_table, record) != PFX_SUCCESS)\n\t\t\targs->error = true;", "new": "\t\targs->error = pfx_table_add(args->pfx_table, record) != PFX_SUCCESS;"},
    {"id": "C18.w13-grow-bookkeeping-before-allocation-test", "rule": "C18.R3", "file": TH,
     "old": "\t\t\tif (!segment)\n\t\t\t\treturn;", "new": "\t\t\t++hashlin->bucket_bit;\n\t\t\tif (!segment)\n\t\t\t\treturn;\n\t\t\t--hashlin->bucket_bit;"},
    {"id": "C18.w14-calloc-straight-from-libc", "rule": "C18.R1", "file": "rtrlib/lib/alloc_utils.c",
     "old": "\tvoid *p = lrtr_malloc(bytes);\n\n\tif (!p)\n\t\treturn p;\n\n\treturn memset(p, 0, bytes);", "new": "\treturn calloc(1, bytes);"},
    {"id": "C18.w15-undo-F20-add_group-reports-success", "rule": "C18.R2", "file": "rtrlib/rtr_mgr.c",
     "old": "\tif (!new_group_node) {\n\t\terr_code = RTR_ERROR;\n\t\tgoto err;\n\t}", "new": "\tif (!new_group_node)\n\t\tgoto err;"},
    {"id": "C18.w-compaction-without-length-on-failure", "rule": "C18.R3", "edits": [
        (TP, "\tdata->len--;\n\tif (!data->len) {\n\t\tlrtr_free(data->ary);", "\tif (data->len == 1) {\n\t\tdata->len = 0;\n\t\tlrtr_free(data->ary);"),
        (TP, "\ttmp = lrtr_realloc(data->ary, sizeof(struct data_elem) * data->len);\n\tif (!tmp) {\n\t\tdata->ary[data->len] = deleted_elem;\n\t\tdata->len++;\n\t\treturn PFX_ERROR;\n\t}\n\n\tdata->ary = tmp;",
         "\ttmp = lrtr_realloc(data->ary, sizeof(struct data_elem) * (data->len - 1));\n\tif (!tmp)\n\t\treturn PFX_ERROR;\n\n\tdata->len--;\n\tdata->ary = tmp;")]},
]
