"""C10 — the router-key table is an exact set keyed by AS, SKI, key and source.

R1 identity: key_entry_cmp is equality on (asn, ski[20], spki[91], socket)
R2 lookup filters: get_all selects asn == asn && ski equal, search_by_ski selects ski equal; results are full copies
R3 twin containers: hash table and list are updated together on every path, inside the critical section
R4 one hash: every hash-table call uses tommy_inthash_u32(asn of the record / query)
R5 return codes: duplicate and unknown are reported without touching the containers
R6 notifications mirror every addition and removal (add, remove, removal by source, diff after a reload)
"""
from engine import es, flow, ls, vf
from engine.pdb import AnalysisBroken

U = "rtrlib/spki/hashtable/ht-spkitable.c"
NOTIFY = "spki_table_notify_clients"
TAB = ("arg", 0)
HASHT = ("fld", TAB, "spki_table.hashtable")
LIST = ("fld", TAB, "spki_table.list")


def r1(ctx):
    pdb = ctx.pdb
    ctx.rule("C10.R1", "key_entry_cmp returns 0 exactly when AS number, all 20 SKI bytes, all 91 key bytes and the source socket "
             "are equal (16 cells)")
    fn = pdb.fn("key_entry_cmp", U)
    ctx.touch(fn)
    sizes = {"ski": pdb.field("key_entry", "ski")["sizebits"] // 8, "spki": pdb.field("key_entry", "spki")["sizebits"] // 8}
    ctx.check(sizes == {"ski": 20, "spki": 91}, "C10.R1", "field-sizes", "%s:%d" % (fn.relfile, fn.line), "ski %d bytes, spki %d bytes" % (sizes["ski"], sizes["spki"]),
              key="C10.R1:sizes")
    mem = fn.calls("memcmp")
    seen = {}
    for c in mem:
        a, b, n = vf.expr(fn, c.args[0]), vf.expr(fn, c.args[1]), vf.expr(fn, c.args[2])
        fa, fb = vf.last_field(a), vf.last_field(b)
        roots = {vf.root_of(a), vf.root_of(b)}
        if fa == fb and fa in ("key_entry.ski", "key_entry.spki") and roots == {("arg", 0), ("arg", 1)}:
            seen[fa.split(".")[1]] = (n, c)
    for f in ("ski", "spki"):
        got = seen.get(f)
        ctx.check(got is not None and got[0] == ("c", sizes[f]), "C10.R1", "memcmp:%s" % f, got[1].loc() if got else "%s:%d" % (fn.relfile, fn.line),
                  "compares %s bytes of %s of both entries (field has %d)" % (vf.show(got[0]) if got else "no", f, sizes[f]), key="C10.R1:memcmp:%s" % f)

    def fld_of(e):
        return vf.last_field(e[1]) if e[0] == "load" else None
    ncell = 0
    for asn_eq in (True, False):
        for ski_eq in (True, False):
            for spki_eq in (True, False):
                for sock_eq in (True, False):
                    ncell += 1

                    def oracle(inst, pred, a, b, E):
                        fa, fb = fld_of(a), fld_of(b)
                        if pred in ("eq", "ne") and fa == fb and fa in ("key_entry.asn", "key_entry.socket"):
                            eq = asn_eq if fa == "key_entry.asn" else sock_eq
                            return eq if pred == "eq" else not eq
                        return None

                    def classify(inst, E, st):
                        if inst.op == "call" and inst.callee == "memcmp":
                            f = (vf.last_field(vf.expr(fn, inst.args[0])) or "").split(".")[-1]
                            eq = ski_eq if f == "ski" else spki_eq
                            return [([], {inst.ref: flow.av_in(0) if eq else ("nin", frozenset([0]))})]
                        return None
                    outs, fl = es.count_effects(fn, pdb, classify, None, oracle=oracle)
                    rets = {flow.av_single(o["ret"]) if o["ret"] and o["ret"][0] == "in" else "nonzero" for o in outs}
                    alleq = asn_eq and ski_eq and spki_eq and sock_eq
                    good = rets == {0} if alleq else (bool(rets) and 0 not in rets)
                    if not good:
                        ctx.violation("C10.R1", "cmp[asn%s,ski%s,spki%s,socket%s]" % tuple("=" if x else "!=" for x in (asn_eq, ski_eq, spki_eq, sock_eq)),
                                      "%s:%d" % (fn.relfile, fn.line), "returns %s, expected %s" % (sorted(rets, key=str), "0" if alleq else "non-zero"),
                                      key="C10.R1:cmp")
    ctx.ok("C10.R1", "cmp-table", "%s:%d" % (fn.relfile, fn.line), "%d cells evaluated" % ncell)
    ini = pdb.fn("spki_table_init")
    st = [i for i in ini.all_insts() if i.op == "store" and vf.store_field(i) == "spki_table.cmp_fp"]
    ctx.check(len(st) == 1 and vf.expr(ini, st[0]["val"]) == ("g", "key_entry_cmp"), "C10.R1", "comparator-installed", st[0].loc() if st else "%s:%d" % (ini.relfile, ini.line),
              "spki_table_init installs key_entry_cmp", key="C10.R1:installed")
    others = [i for i in vf.stores_to_field(pdb, "spki_table.cmp_fp") if i.fn.name != "spki_table_init"]
    ctx.check(not others, "C10.R1", "comparator-writers", U, "cmp_fp written only at init", key="C10.R1:writers")


def lookup_shape(pdb):
    """the lookup rules (which entries are copied, the walk sees every entry, the result under allocation failure) are written for
    lookups that grow the result by one record per match while walking once; a lookup that counts first and fills a pre-sized
    array in a second walk is another algorithm and is not recognised by matching"""
    for name in ("spki_table_get_all", "spki_table_search_by_ski"):
        f = pdb.fn(name)
        if not f.calls("lrtr_realloc") and len(f.calls("key_entry_to_spki_record")) >= 1:
            raise AnalysisBroken("%s: the result is no longer grown with lrtr_realloc per matching entry (pre-sized result, filled in a "
                                 "second walk?): the rules on which entries are copied and on a failed allocation are written for the "
                                 "one-walk form" % name)


def r2(ctx, retsets):
    pdb = ctx.pdb
    lookup_shape(pdb)
    ctx.rule("C10.R2", "spki_table_get_all copies an entry iff its AS equals the queried AS and its SKI equals the queried SKI; "
             "spki_table_search_by_ski iff the SKI is equal; the copy carries asn, ski, spki and socket")
    conv = pdb.fn("key_entry_to_spki_record", U)
    ctx.touch(conv)
    got = set()
    for i in conv.all_insts():
        if i.op == "store" and vf.root_of(vf.expr(conv, i["ptr"])) == ("arg", 1):
            v = vf.expr(conv, i["val"])
            if v[0] == "load" and vf.root_of(v[1]) == ("arg", 0):
                got.add((vf.store_field(i).split(".")[1], vf.last_field(v[1]).split(".")[1], i["size"]))
        if i.op == "call" and (i.callee or "").startswith("llvm.memcpy"):
            d, s_, n = vf.expr(conv, i.args[0]), vf.expr(conv, i.args[1]), vf.expr(conv, i.args[2])
            if vf.root_of(d) == ("arg", 1) and vf.root_of(s_) == ("arg", 0) and n[0] == "c":
                got.add((vf.last_field(d).split(".")[1], vf.last_field(s_).split(".")[1], n[1]))
    want = {("asn", "asn", 4), ("socket", "socket", 8), ("ski", "ski", 20), ("spki", "spki", 91)}
    ctx.check(got == want, "C10.R2", "copy-all-fields", "%s:%d" % (conv.relfile, conv.line), "copies %s" % sorted(got), key="C10.R2:copy")
    for fname, use_asn in (("spki_table_get_all", True), ("spki_table_search_by_ski", False)):
        fn = pdb.fn(fname)
        ctx.touch(fn)
        for asn_eq in ((True, False) if use_asn else (True,)):
            for ski_eq in (True, False):
                def oracle(inst, pred, a, b, E):
                    if pred in ("eq", "ne"):
                        for x, y in ((a, b), (b, a)):
                            if x[0] == "load" and vf.last_field(x[1]) == "key_entry.asn" and y == ("arg", 1) and use_asn:
                                return asn_eq if pred == "eq" else not asn_eq
                    return None
                seen_mem = []

                def classify(inst, E, st):
                    if inst.op == "call" and inst.callee == "memcmp":
                        a, b, n = (vf.expr(fn, x) for x in inst.args[:3])
                        okargs = {vf.last_field(a), vf.last_field(b)} >= {"key_entry.ski"} and (("arg", 2 if use_asn else 1) in (a, b)) and n == ("c", 20)
                        seen_mem.append(okargs)
                        return [([], {inst.ref: flow.av_in(0) if ski_eq else ("nin", frozenset([0]))})]
                    if inst.op == "call" and inst.callee == "lrtr_realloc":
                        return [([], {inst.ref: ("nin", frozenset([0]))})]
                    if inst.op == "call" and inst.callee == "key_entry_to_spki_record":
                        if st.get("copied", 0) >= 1:
                            return flow.KILL
                        return ["copied"]
                    if inst.op == "call" and inst.callee in ("tommy_hashlin_bucket", "tommy_list_head"):
                        return [([], {inst.ref: ("nin", frozenset([0]))})]
                    if inst.op == "load" and vf.last_field(vf.expr(fn, inst["ptr"])) == "tommy_node_struct.next":
                        # one element in the walk
                        return None
                    return None

                class H(es.CountHooks):
                    def on_inst(self, inst, prop, E):
                        r = es.CountHooks.on_inst(self, inst, prop, E)
                        return r
                cell = {}
                outs, fl = es.count_effects(fn, pdb, classify, retsets, oracle=oracle)
                sel = asn_eq and ski_eq
                copied = {o["counts"].get("copied", 0) for o in outs if o["ret"] == flow.av_in(0)}
                good = bool(outs) and bool(seen_mem or not sel) and all(seen_mem) and ((max(copied) >= 1) if sel else copied == {0})
                ctx.check(good, "C10.R2", "%s[asn%s,ski%s]" % (fname, "=" if asn_eq else "!=", "=" if ski_eq else "!="), "%s:%d" % (fn.relfile, fn.line),
                          "entries copied on successful returns: %s; memcmp on the 20 SKI bytes of entry and query: %s" % (sorted(copied), all(seen_mem) if seen_mem else "not reached"),
                          key="C10.R2:%s:%s:%s" % (fname, asn_eq, ski_eq))


def r3_r5_r6(ctx, retsets):
    pdb = ctx.pdb
    ctx.rule("C10.R3", "hash table and list always change together: add inserts into both, remove and removal-by-source delete "
             "from both, all between wrlock and unlock; destruction releases every entry once and the table once")
    ctx.rule("C10.R5", "a duplicate is reported as SPKI_DUPLICATE_RECORD with the temporary entry freed and no container call; an "
             "unknown key as SPKI_RECORD_NOT_FOUND with no removal")
    ctx.rule("C10.R6", "notifications: exactly one 'added' for a successful add, one 'removed' for a successful remove and for "
             "every entry deleted by source, none otherwise; the reload diff reports added/removed per own-socket entry")
    succ, dup, nf = pdb.enum_value("SPKI_SUCCESS"), pdb.enum_value("SPKI_DUPLICATE_RECORD"), pdb.enum_value("SPKI_RECORD_NOT_FOUND")

    def mk(fn):
        def classify(inst, E, st):
            if inst.op != "call" or not inst.callee:
                return None
            cal = inst.callee
            locked = st.get("lk") == "W"
            tag = "" if locked else "_unlocked"
            if cal == "pthread_rwlock_wrlock":
                return ["=lk:W"]
            if cal == "pthread_rwlock_rdlock":
                return ["=lk:R"]
            if cal == "pthread_rwlock_unlock":
                return ["=lk:U"]
            if cal == "tommy_hashlin_search":
                return [(["=found:1"], {inst.ref: ("nin", frozenset([0]))}), (["=found:0"], {inst.ref: flow.av_in(0)})]
            if cal == "tommy_hashlin_insert":
                return ["h_ins" + tag]
            if cal == "tommy_list_insert_tail":
                return ["l_ins" + tag]
            if cal in ("tommy_hashlin_remove", "tommy_hashlin_remove_existing"):
                # by construction the element just found / just walked is present: the call cannot return NULL
                return [(["h_rm" + tag], {inst.ref: ("nin", frozenset([0]))})]
            if cal == "tommy_list_remove_existing":
                return [(["l_rm" + tag], {inst.ref: ("nin", frozenset([0]))})]
            if cal == "lrtr_malloc":
                return [(["=alloc:ok"], {inst.ref: ("nin", frozenset([0]))}), (["=alloc:fail"], {inst.ref: flow.av_in(0)})]
            if cal == "lrtr_free":
                return ["free"]
            if cal == NOTIFY:
                v = flow.av_single(E.val(inst.args[2]))
                own = vf.expr(fn, inst.args[0]) == TAB
                return ["notify_%s%s" % ("add" if v == 1 else "del" if v == 0 else "any", "" if own else "_othertable")]
            return None
        return classify
    # add
    fn = pdb.fn("spki_table_add_entry")
    ctx.touch(fn)
    outs, fl = es.count_effects(fn, pdb, mk(fn), retsets)
    for o in outs:
        c = {k: v for k, v in o["counts"].items() if k not in ("lk", "found", "alloc")}
        r = flow.av_single(o["ret"])
        if o["counts"].get("alloc") == "fail":
            exp, er, rule = {}, pdb.enum_value("SPKI_ERROR"), "C10.R5"
        elif o["counts"].get("found") == "1":
            exp, er, rule = {"free": 1}, dup, "C10.R5"
        else:
            exp, er, rule = {"h_ins": 1, "l_ins": 1, "notify_add": 1}, succ, "C10.R3"
        ctx.check(c == exp and r == er and o["counts"].get("lk") in ("U", None), rule, "add_entry[%s]" % ("alloc fails" if er == pdb.enum_value("SPKI_ERROR") else "duplicate" if er == dup else "new"),
                  o["inst"].loc(), "effects %s returns %s (expected %s, %s), lock state at return %s" % (c, r, exp, er, o["counts"].get("lk")),
                  key="%s:add_entry:%s" % (rule, er))
    nrec = [c for c in fn.calls(NOTIFY)]
    ctx.check(bool(nrec) and all(vf.expr(fn, c.args[1]) == ("arg", 1) for c in nrec), "C10.R6", "add_entry:notified-record", nrec[0].loc() if nrec else "%s:%d" % (fn.relfile, fn.line),
              "the record reported is the function's own argument", key="C10.R6:add_entry:record")
    # any other place that puts an entry into a table's containers (a copy that clones entries itself) owes the table's
    # callback the same 'added': every insertion is followed by its notification before the next insertion or the return
    for g in [x for x in pdb.all_functions() if x.unit == U and x.name != "spki_table_add_entry" and x.calls("tommy_hashlin_insert")]:
        ctx.touch(g)
        late = []

        def cl_ins(inst, E, st, g=g, late=late):
            if inst.op == "call" and inst.callee == "tommy_hashlin_insert":
                if st.get("pend") == "1":
                    late.append(inst)
                return ["=pend:1"]
            if inst.op == "call" and inst.callee == NOTIFY and flow.av_single(E.val(inst.args[2])) == 1:
                return ["=pend:0"]
            if inst.op == "call" and inst.callee == "lrtr_malloc":
                return [([], {inst.ref: ("nin", frozenset([0]))})]
            return None
        outs_i, _f = es.count_effects(g, pdb, cl_ins, retsets, cap=96)
        owing = [o for o in outs_i if o["counts"].get("pend") == "1"]
        ctx.check(not late and not owing, "C10.R6", "%s:insert-is-notified" % g.name, (late[0].loc() if late else (owing[0]["inst"].loc() if owing else "%s:%d" % (g.relfile, g.line))),
                  "every entry inserted here is reported 'added' to the table's callback" if not late and not owing else
                  "an entry is inserted into the table's containers and the function goes on (or returns) without the 'added' notification",
                  key="C10.R6:%s:insert-notified" % g.name)
    # remove
    fn = pdb.fn("spki_table_remove_entry")
    ctx.touch(fn)
    outs, fl = es.count_effects(fn, pdb, mk(fn), retsets)
    for o in outs:
        c = {k: v for k, v in o["counts"].items() if k not in ("lk", "found", "alloc")}
        r = flow.av_single(o["ret"])
        if o["counts"].get("found") == "0":
            exp, er, rule = {}, nf, "C10.R5"
        else:
            exp, er, rule = {"h_rm": 1, "l_rm": 1, "free": 1, "notify_del": 1}, succ, "C10.R3"
        ctx.check(c == exp and r == er and o["counts"].get("lk") == "U", rule, "remove_entry[%s]" % ("unknown" if er == nf else "present"), o["inst"].loc(),
                  "effects %s returns %s (expected %s, %s)" % (c, r, exp, er), key="%s:remove_entry:%s" % (rule, er))
    # removal by source: typestate per entry
    fn = pdb.fn("spki_table_src_remove")
    ctx.touch(fn)
    problems = []
    base = mk(fn)

    def classify(inst, E, st):
        r = base(inst, E, st)
        if inst.op == "call" and inst.callee in ("tommy_list_remove_existing", "tommy_hashlin_remove_existing", NOTIFY, "lrtr_free"):
            stage = st.get("stage", "0")
            order = {"tommy_list_remove_existing": ("0", "L"), "tommy_hashlin_remove_existing": ("L", "H")}
            if inst.callee in order:
                frm, to = order[inst.callee]
                if stage != frm and not (stage == "0" and inst.callee == "tommy_hashlin_remove_existing"):
                    problems.append((inst, "container removals out of step (stage %s)" % stage))
                nxt = {"0L": "L", "LH": "LH", "0H": "H", "HL": "LH"}.get(stage + to[0], "LH") if stage in ("0", "L", "H") else "LH"
                st2 = "LH" if (stage in ("L", "H") and to != stage) else to
                rr = list(r) if isinstance(r, list) else []
                return [(rr[0][0] + ["=stage:%s" % st2], rr[0][1])] if rr else ["=stage:%s" % st2]
            if inst.callee == NOTIFY:
                if stage != "LH":
                    problems.append((inst, "removal reported although the entry was not taken out of both containers"))
                v = flow.av_single(E.val(inst.args[2]))
                if v != 0:
                    problems.append((inst, "removal by source reported with polarity %s" % v))
                return ["=stage:0", "notified"]
        if inst.op == "load" and vf.last_field(vf.expr(fn, inst["ptr"])) == "tommy_node_struct.data" and st.get("stage", "0") != "0":
            problems.append((inst, "next entry examined although the previous removal was not reported to the callback"))
        if inst.op == "ret" and st.get("stage", "0") not in ("0",) and flow.av_single(E.val(inst["val"])) == succ:
            problems.append((inst, "returns success with a removed entry not reported"))
        return r
    outs, fl = es.count_effects(fn, pdb, classify, retsets, init=[("stage", "0")])
    seen = set()
    for inst, msg in problems:
        if (inst.id, msg) in seen:
            continue
        seen.add((inst.id, msg))
        ctx.violation("C10.R6" if "report" in msg else "C10.R3", "src_remove:%s" % msg.split()[0], inst.loc(), msg, key="C10.R6:src_remove:notify" if "report" in msg else "C10.R3:src_remove")
    if not problems:
        ctx.ok("C10.R3", "src_remove:both-containers", "%s:%d" % (fn.relfile, fn.line), "each own-socket entry leaves list and hash table before the next entry is examined")
        ctx.ok("C10.R6", "src_remove:one-removed-per-entry", "%s:%d" % (fn.relfile, fn.line), "exactly one 'removed' notification per deleted entry, after both removals")
    reached = any(o["counts"].get("notified") for o in outs)
    ctx.check(reached, "C10.R6", "src_remove:notifies", "%s:%d" % (fn.relfile, fn.line), "the notification is reachable", key="C10.R6:src_remove:notify")
    # filter of removal by source
    cmp_ok = any(i.op == "icmp" and i["pred"] in ("eq", "ne") and {vf.expr(fn, i["a"]), vf.expr(fn, i["b"])} >= {("arg", 1)} and
                 any(vf.last_field(x[1]) == "key_entry.socket" for x in (vf.expr(fn, i["a"]), vf.expr(fn, i["b"])) if x[0] == "load") for i in fn.all_insts())
    ctx.check(cmp_ok, "C10.R3", "src_remove:filter", "%s:%d" % (fn.relfile, fn.line), "entries are selected by entry.socket == socket argument", key="C10.R3:src_remove:filter")
    # destruction
    for fname in ("spki_table_free", "spki_table_free_without_notify"):
        f = pdb.fn(fname)
        ctx.touch(f)
        fe = f.calls("tommy_list_foreach")
        dn = f.calls("tommy_hashlin_done")
        good = len(fe) == 1 and len(dn) == 1 and vf.expr(f, fe[0].args[0]) == LIST and vf.expr(f, fe[0].args[1]) == ("g", "lrtr_free") and \
            vf.expr(f, dn[0].args[0]) == HASHT and f.dom(fe[0], dn[0])
        ctx.check(good, "C10.R3", "%s:release" % fname, "%s:%d" % (f.relfile, f.line),
                  "every list element released once with lrtr_free, then the hash table's own storage", key="C10.R3:%s" % fname)


def r4(ctx):
    pdb = ctx.pdb
    ctx.rule("C10.R4", "every hash-table insert/search/remove/bucket call hashes the AS number of the record or query with tommy_inthash_u32")
    n = 0
    for f in [x for x in pdb.all_functions() if x.unit == U and x.relfile == U]:
        for c in f.calls(("tommy_hashlin_insert", "tommy_hashlin_search", "tommy_hashlin_remove", "tommy_hashlin_bucket")):
            n += 1
            h = vf.expr(f, c.args[-1])
            good = h[0] == "call" and h[1] == "tommy_inthash_u32"
            src = h[3][0] if good else None
            own = good and src[0] == "load" and vf.last_field(src[1]) == "key_entry.asn" and \
                any(vf.root_of(vf.expr(f, a)) == vf.root_of(src[1]) for a in c.args[1:-1])     # the AS number of the very entry handed to the call
            # the hash stored in the hash node of an entry that is in a table is the hash it was inserted with
            stored = h[0] == "load" and vf.last_field(h[1]).endswith(".key") and "key_entry.hash_node" in str(h[1])
            good = stored or good and (own or src == ("arg", 1) or (src[0] == "load" and vf.last_field(src[1]) == "spki_record.asn" and vf.root_of(src[1]) == ("arg", 1)))
            ctx.check(good, "C10.R4", "%s:%s" % (f.name, c.callee), c.loc(), "hash argument %s" % vf.show(h), key="C10.R4:%s:%s" % (f.name, c.callee))
    ctx.floor("C10.R4", n, 3)


def r6_diff(ctx, retsets):
    pdb = ctx.pdb
    fn = pdb.fn("spki_table_notify_diff")
    ctx.touch(fn)
    NEW, OLD, SOCK = ("arg", 0), ("arg", 1), ("arg", 2)
    rm = fn.calls("spki_table_remove_entry")
    ns = fn.calls(NOTIFY)
    ctx.floor("C10.R6", len(ns), 2)
    # structure: loop over new list: own socket -> remove from old; not found there -> notify added; loop over old: own -> notify removed
    heads = fn.calls("tommy_list_head")
    walks = {vf.root_of(vf.expr(fn, h.args[0])) for h in heads}
    ctx.check(walks == {NEW, OLD}, "C10.R6", "diff:walks-both-tables", "%s:%d" % (fn.relfile, fn.line), "walks the lists of %s" % sorted(vf.show(w) for w in walks),
              key="C10.R6:diff:walks")
    # evaluated with one entry in each list (so that the two walks may be two copies of one helper, switched by constants): the entry
    # belongs to the reloading socket or not; taking it out of the old table succeeds / says 'not there' / fails
    OWNV, OTHERV = 1000, 2000
    succ_, nf_, err_ = pdb.enum_value("SPKI_SUCCESS"), pdb.enum_value("SPKI_RECORD_NOT_FOUND"), pdb.enum_value("SPKI_ERROR")
    bad_d = []
    ncell = 0
    for own in (True, False):
        for code in (succ_, nf_, err_):
            ncell += 1

            def values(pe, own=own):
                f = vf.last_field(pe)
                if f == "key_entry.socket":
                    return OWNV if own else OTHERV
                if f == "tommy_node_struct.next":
                    return 0
                return None

            def cl(inst, E, st, code=code):
                if inst.op != "call" or not inst.callee:
                    return None
                if inst.callee == "tommy_list_head":
                    return [(["=walk:%s" % ("new" if vf.root_of(E.path_expr(inst.args[0])) == NEW else "old" if vf.root_of(E.path_expr(inst.args[0])) == OLD else "?")],
                             {inst.ref: ("nin", frozenset([0]))})]
                if inst.callee == "spki_table_remove_entry":
                    t = E.path_expr(inst.args[0])
                    return [(["rm" if t == OLD and st.get("walk") == "new" else "rm_wrong"], {inst.ref: flow.av_in(code)})]
                if inst.callee == NOTIFY:
                    pol = flow.av_single(E.val(inst.args[2]))
                    t = E.path_expr(inst.args[0])
                    ok = t == NEW and ((pol == 1 and st.get("walk") == "new") or (pol == 0 and st.get("walk") == "old"))
                    return ["notify_%s%s" % ({1: "add", 0: "del"}.get(pol, "any"), "" if ok else "_wrong")]
                return None
            outs_d, _f = es.count_effects(fn, pdb, cl, retsets, cell={0: ("nin", frozenset([0])), 1: ("nin", frozenset([0])), 2: OWNV}, values=values, cap=96)
            for o in outs_d:
                c_ = {k: v for k, v in o["counts"].items() if k != "walk"}
                if not own:
                    exp_ok = c_ == {}
                elif code == succ_:
                    exp_ok = c_ == {"rm": 1, "notify_del": 1}
                elif code == nf_:
                    exp_ok = c_ == {"rm": 1, "notify_add": 1, "notify_del": 1}
                else:
                    exp_ok = c_ in ({"rm": 1, "notify_del": 1}, {"rm": 1, "notify_add": 1, "notify_del": 1})
                if not exp_ok:
                    bad_d.append("entry of %s socket, removal from the old table returns %d: %s" % ("the reloading" if own else "another", code, c_))
            if not outs_d:
                bad_d.append("no outcome for own=%s code=%d" % (own, code))
    ctx.check(not bad_d, "C10.R6", "diff:added", ns[0].loc(), bad_d[0] if bad_d else
              "%d cells (own socket? x result of taking the entry out of the old table): own entries of the new table are taken out of the old one, "
              "reported 'added' when they were not there; own entries left in the old table are reported 'removed'; all through the new table's callback" % ncell,
              key="C10.R6:diff:added")
    old_fp = ("fld", OLD, "spki_table.update_fp")
    stores = [i for i in fn.all_insts() if i.op == "store" and vf.expr(fn, i["ptr"]) == old_fp]
    nulls = [s for s in stores if vf.expr(fn, s["val"]) == ("c", 0)]
    rest = [s for s in stores if vf.expr(fn, s["val"]) != ("c", 0)]
    ctx.check(bool(nulls) and bool(rest) and all(fn.dom(nulls[0], r) for r in rm) and
              all(fn.reaches(r, rest[-1]) and not fn.reaches(rest[-1], r) for r in rm) and fn.bpdom(rest[-1].block.id, 0), "C10.R6", "diff:old-table-silenced",
              "%s:%d" % (fn.relfile, fn.line), "the old table's callback is NULL while its entries are removed and is restored afterwards", key="C10.R6:diff:silence")


# walks that have to see every entry of the list / bucket: the cursor moves one entry at a time and the walk ends only when the
# cursor runs off the end (or the operation fails)
COMPLETE_WALKS = ["spki_table_get_all", "spki_table_search_by_ski", "spki_table_src_remove", "spki_table_copy_except_socket", "spki_table_notify_diff"]


def r_walks(ctx, only=None):
    pdb = ctx.pdb
    n = 0
    if only:
        ctx.rule("C10.R3", "list walks that must see every entry move one entry at a time and end only at the end of the list or on failure")
    for fname in COMPLETE_WALKS:
        if only and fname not in only:
            continue
        fn = pdb.fn(fname, U)
        ctx.touch(fn)
        loops = es.walk_loops(fn, "tommy_node_struct.next")
        if not loops:
            raise AnalysisBroken("%s: no list walk found" % fname)
        for k, L in enumerate(loops):
            n += 1
            cur = L["cur"]
            one = ("load", ("fld", cur, "tommy_node_struct.next"))
            badstep = [x for x in L["steps"] if x != one]
            badexit = []
            for br, truth, tgt in L["exits"]:
                if es.edge_facts(fn, br, truth).eq(cur, ("c", 0)) or es.edge_facts(fn, br, truth).zero(cur):
                    continue
                if es.fails_only(fn, tgt) or es.fails_on_edge(fn, br, truth):
                    continue
                badexit.append(br)
            det = []
            if badstep:
                det.append("the cursor continues with %s (not the entry after the current one)" % vf.show(badstep[0]))
            if badexit:
                det.append("the walk is left at line %d although entries remain and nothing failed" % badexit[0].line)
            rid = "C10.R2" if fname in ("spki_table_get_all", "spki_table_search_by_ski") else "C10.R3"
            ctx.check(not badstep and not badexit, rid,
                      "%s:walk#%d-sees-every-entry" % (fname, k + 1), (badexit[0].loc() if badexit else "%s:%d" % (fn.relfile, fn.line)),
                      "; ".join(det) if det else "one step per iteration, left only at the end of the list or on failure", key="%s:%s:walk%d" % (rid, fname, k + 1))
    ctx.floor("C10.R3", n, 1 if only else 6)


def r6_reload(ctx, retsets):
    """reload: the shadow table is silent, and after the swap the difference is reported whenever a callback is installed - also when the
    new set holds no key at all (then every old key of the socket is a removal)"""
    pdb = ctx.pdb
    fn = pdb.fn("rtr_sync_receive_and_store_pdus")
    ctx.touch(fn)
    inits = fn.calls("spki_table_init")
    ctx.floor("C10.R6", len(inits), 1)
    for c in inits:
        ctx.check(vf.expr(fn, c.args[1]) == ("c", 0), "C10.R6", "shadow-init-callback", c.loc(),
                  "spki_table_init(shadow, %s)" % vf.show(vf.expr(fn, c.args[1])), key="C10.R6:shadow-init")
    live = ("load", ("fld", ("arg", 0), "rtr_socket.spki_table"))
    UFP = ("fld", live, "spki_table.update_fp")
    bad, good = [], []

    def classify(inst, E, counts):
        if inst.op == "call":
            if inst.callee == "spki_table_swap":
                return ["=sw:1"]
            if inst.callee == "spki_table_notify_diff":
                a = [vf.expr(fn, x) for x in inst.args]
                if counts.get("sw") != "1":
                    bad.append((inst, "spki_table_notify_diff before the swap"))
                if a[0] != live or a[2] != ("arg", 0):
                    bad.append((inst, "diff arguments (%s, %s, %s): expected (live table, shadow, own socket)" % tuple(vf.show(x) for x in a)))
                return ["=df:1"]
            return None
        if inst.op == "store" and vf.store_field(inst) == "rtr_socket.serial_number":
            if counts.get("sw") == "1" and counts.get("df") != "1":
                if E.facts.get(("M", UFP)) != flow.av_in(0):
                    bad.append((inst, "commit after the swap without spki_table_notify_diff although a callback may be installed"))
                else:
                    good.append(inst)
            elif counts.get("sw") == "1":
                good.append(inst)
        return None
    es.count_effects(fn, pdb, classify, retsets, init=[("sw", "0"), ("df", "0")], pinned=lambda pe: vf.last_field(pe) == "spki_table.update_fp", cap=96)
    seen = set()
    for inst, msg in bad:
        if (inst.id, msg) not in seen:
            seen.add((inst.id, msg))
            ctx.violation("C10.R6", "swap-then-diff", inst.loc(), msg, key="C10.R6:swap-then-diff")
    if not bad:
        if not good:
            raise AnalysisBroken("C10.R6: no commit after the router-key table swap found")
        ctx.ok("C10.R6", "swap-then-diff", good[0].loc(), "every path from spki_table_swap to the serial store passes spki_table_notify_diff(live, shadow, socket) "
               "or has update_fp == NULL")


def r6_writers(ctx):
    """the callback is configuration of the table object: set at creation, cleared at silent destruction, silenced and restored around
    the reload diff - nothing else may write it (a swap or a copy that touched it would redirect or suppress notifications)"""
    pdb = ctx.pdb
    def executed(i):
        # the copy of a shared helper inside a caller that switches this store off with a constant argument is never executed
        hit = []

        def cl(inst, E, st):
            if inst is i:
                hit.append(1)
            return None
        es.count_effects(i.fn, pdb, cl, None, cap=48)
        return bool(hit)
    writers = sorted({i.fn.name for i in vf.stores_to_field(pdb, "spki_table.update_fp") if executed(i)})
    ctx.check(set(writers) <= {"spki_table_init", "spki_table_free_without_notify", "spki_table_notify_diff"} and "spki_table_init" in writers,
              "C10.R6", "callback-writers", "rtrlib/spki/hashtable/ht-spkitable.c", "update_fp written in %s" % writers, key="C10.R6:callback-writers")


def check(ctx):
    retsets = flow.return_sets(ctx.pdb)
    r1(ctx)
    r2(ctx, retsets)
    r3_r5_r6(ctx, retsets)
    r_walks(ctx)
    r6_reload(ctx, retsets)
    r6_writers(ctx)
    r4(ctx)
    r6_diff(ctx, retsets)
    ctx.not_decided("tommyds internals: correctness of the linear hash table's split/merge and of the list primitives")
    ctx.assume("tommy_hashlin_remove / remove_existing / tommy_list_remove_existing return non-NULL for an element that is present")


HT = "rtrlib/spki/hashtable/ht-spkitable.c"
WITNESSES = [
    {"id": "C10.w1-cmp-skips-spki", "rule": "C10.R1", "file": HT,
     "old": "\tif (memcmp(param->spki, entry->spki, sizeof(entry->spki)))\n\t\treturn 1;\n", "new": ""},
    {"id": "C10.w2-cmp-ski-short", "rule": "C10.R1", "file": HT,
     "old": "\tif (memcmp(param->ski, entry->ski, sizeof(entry->ski)))", "new": "\tif (memcmp(param->ski, entry->ski, sizeof(entry->ski) - 4))"},
    {"id": "C10.w3-get_all-drops-asn-test", "rule": "C10.R2", "file": HT,
     "old": "\t\tif (element->asn == asn && memcmp(element->ski, ski, sizeof(element->ski)) == 0) {", "new": "\t\tif (memcmp(element->ski, ski, sizeof(element->ski)) == 0) {"},
    {"id": "C10.w4-remove-from-hash-only", "rule": "C10.R3", "file": HT,
     "old": "\t\tif (rmv_elem && tommy_list_remove_existing(&spki_table->list, &rmv_elem->list_node)) {", "new": "\t\tif (rmv_elem) {"},
    {"id": "C10.w5-search-uses-constant-hash", "rule": "C10.R4", "file": HT,
     "old": "\thash = tommy_inthash_u32(spki_record->asn);\n\n\tpthread_rwlock_wrlock(&spki_table->lock);\n\n\tif (!tommy_hashlin_search",
     "new": "\thash = tommy_inthash_u32(0);\n\n\tpthread_rwlock_wrlock(&spki_table->lock);\n\n\tif (!tommy_hashlin_search"},
    {"id": "C10.w6-duplicate-leaks-entry", "rule": "C10.R5", "file": HT,
     "old": "\t\tlrtr_free(entry);\n\t\tpthread_rwlock_unlock(&spki_table->lock);\n\t\treturn SPKI_DUPLICATE_RECORD;", "new": "\t\tpthread_rwlock_unlock(&spki_table->lock);\n\t\treturn SPKI_DUPLICATE_RECORD;"},
    {"id": "C10.w7-undo-F4-src_remove-silent", "rule": "C10.R6", "file": HT,
     "old": "\t\t\tlrtr_free(entry);\n\t\t\tspki_table_notify_clients(spki_table, &record, false);", "new": "\t\t\tlrtr_free(entry);"},
    {"id": "C10.w8-add-notifies-on-duplicate", "rule": "C10.R5", "also": ("C10.R6",), "file": HT,
     "old": "\t\tlrtr_free(entry);\n\t\tpthread_rwlock_unlock(&spki_table->lock);\n\t\treturn SPKI_DUPLICATE_RECORD;",
     "new": "\t\tlrtr_free(entry);\n\t\tpthread_rwlock_unlock(&spki_table->lock);\n\t\tspki_table_notify_clients(spki_table, spki_record, true);\n\t\treturn SPKI_DUPLICATE_RECORD;"},
    {"id": "C10.w9-diff-added-for-every-entry", "rule": "C10.R6", "file": HT,
     "old": "\t\t\tif (spki_table_remove_entry(old_table, &record) == SPKI_RECORD_NOT_FOUND)\n\t\t\t\tspki_table_notify_clients(new_table, &record, true);",
     "new": "\t\t\tspki_table_remove_entry(old_table, &record);\n\t\t\tspki_table_notify_clients(new_table, &record, true);"},
    {"id": "C10.w10-search_by_ski-compares-with-asn-bytes", "rule": "C10.R2", "file": HT,
     "old": "\t\tif (memcmp(current_entry->ski, ski, sizeof(current_entry->ski)) == 0) {", "new": "\t\tif (memcmp(current_entry->spki, ski, sizeof(current_entry->ski)) == 0) {"},
    {"id": "C10.w11-add-inserts-list-only-when-no-callback", "rule": "C10.R3", "file": HT,
     "old": "\ttommy_list_insert_tail(&spki_table->list, &entry->list_node, entry);\n\tpthread_rwlock_unlock(&spki_table->lock);\n\tspki_table_notify_clients(spki_table, spki_record, true);",
     "new": "\tif (spki_table->update_fp)\n\t\ttommy_list_insert_tail(&spki_table->list, &entry->list_node, entry);\n\tpthread_rwlock_unlock(&spki_table->lock);\n\tspki_table_notify_clients(spki_table, spki_record, true);"},
    {"id": "C10.w12-copy-omits-socket", "rule": "C10.R2", "file": HT,
     "old": "\tspki_r->asn = key_e->asn;\n\tspki_r->socket = key_e->socket;", "new": "\tspki_r->asn = key_e->asn;"},
    {"id": "C10.w-swap-copies-the-callback", "rule": "C10.R6", "file": HT,
     "old": "\tmemcpy(&b->list, &tmp_list, sizeof(tmp_list));\n", "new": "\tmemcpy(&b->list, &tmp_list, sizeof(tmp_list));\n\tb->update_fp = a->update_fp;\n"},
    {"id": "C10.w-get_all-stops-at-a-foreign-entry", "rule": "C10.R2", "file": HT,
     "old": "\t/* Build the result array */\n\twhile (result_bucket) {", "new": "\t/* Build the result array */\n\twhile (result_bucket && result_bucket->key == hash) {"},
    {"id": "C10.w-src_remove-steps-twice-after-a-removal", "rule": "C10.R3", "file": HT,
     "old": "\t\t\tlrtr_free(entry);\n\t\t\tspki_table_notify_clients(spki_table, &record, false);\n\t\t} else {",
     "new": "\t\t\tlrtr_free(entry);\n\t\t\tspki_table_notify_clients(spki_table, &record, false);\n\t\t\tif (current_node)\n\t\t\t\tcurrent_node = current_node->next;\n\t\t} else {"},
    {"id": "C10.w-no-diff-for-a-reload-without-keys", "rule": "C10.R6", "file": "rtrlib/rtr/packets.c",
     "old": "\t\t\t\tif (rtr_socket->spki_table->update_fp) {", "new": "\t\t\t\tif (rtr_socket->spki_table->update_fp && router_key_pdus_nindex > 0) {"},
]
