"""C03.R3 'each arm undoes all families applied so far', decided by evaluating the apply phase on a small concrete response
instead of matching the roll-back loops: two records per family (IPv4 PDUs at 10000, IPv6 PDUs at 20000, Router Key PDUs at 30000),
every update succeeds except the one chosen by the scenario; the undo calls that follow must be exactly the records applied before
it - every record of the earlier families and the records in front of the failing one - each once, whatever way the code keeps
track of how far it got (nested loops per arm, one shared block driven by counters, a helper)."""
from engine import es, flow, vf
from engine.pdb import AnalysisBroken

NREC = 3


def families(fn, apply_loops):
    """[(update callee, pointer expression of the PDU array, element size, bound expression)] from the three apply loops"""
    fams = []
    for L, up in apply_loops:
        e = vf.expr(fn, up.args[2])
        if e[0] != "ptradd" or len(e) < 4 or e[1][0] != "load" or L["bound"][0] != "load":
            return None
        fams.append((up.callee, e[1], e[3], L["bound"]))
    return fams


def evaluate(ctx, pdb, fn, apply_loops, retsets, UPDATE, UNDO):
    fams = families(fn, apply_loops)
    if fams is None or len(fams) != 3:
        return None
    BASE = {k: 10000 * (k + 1) for k in range(3)}
    first = apply_loops[0][0]
    pre = [p for p in fn.blocks[first["header"]].preds if p not in first["body"]]
    if len(pre) != 1:
        return None

    def values(pe):
        for k, (cal, base, size, bound) in enumerate(fams):
            if ("load", pe) == base:
                return BASE[k]
            if ("load", pe) == bound:
                return NREC
        return None

    def rec_of(addr):
        if addr is None:
            return None
        for k, (cal, base, size, bound) in enumerate(fams):
            off = addr - BASE[k]
            if 0 <= off < size * 64 and off % size == 0:
                return (k, off // size)
        return None
    tabs = {}
    for L, up in apply_loops:
        tabs.setdefault(up.callee.replace("rtr_update_", ""), vf.expr(fn, up.args[1]))
    results = []
    for k in range(3):
        for i in range(NREC):
            lost = []

            def classify(inst, E, st, k=k, i=i):
                if inst.op == "call" and inst.callee in UPDATE:
                    r = rec_of(flow.av_single(E.val(inst.args[2])))
                    if r is None or st.get("failed") == "1":
                        lost.append(inst)      # a record that cannot be named, or an update after the failure
                        return flow.KILL
                    if r == (k, i):
                        return [(["=failed:1"], {inst.ref: flow.av_in(-1)})]
                    return [(["applied:%d:%d" % r], {inst.ref: flow.av_in(0)})]
                if inst.op == "call" and inst.callee in UNDO:
                    r = rec_of(flow.av_single(E.val(inst.args[2])))
                    syms = ["undo:%s" % ("%d:%d" % r if r else "?")]
                    if vf.expr(fn, inst.args[1]) != tabs.get(inst.callee.replace("rtr_undo_update_", "")):
                        syms.append("wrongtab:%d" % inst.line)
                    return [(syms, {inst.ref: flow.av_in(0)})]
                return None
            outs, fl = es.count_effects(fn, pdb, classify, retsets, values=values, start_block=pre[0], cap=96)
            if lost:
                return None
            want = sorted(["%d:%d" % (j, x) for j in range(k) for x in range(NREC)] + ["%d:%d" % (k, x) for x in range(i)])
            paths = []
            for o in outs:
                c = o["counts"]
                if c.get("failed") != "1":
                    continue
                paths.append((sorted(n[5:] for n, v in c.items() if n.startswith("undo:") for _ in range(v if isinstance(v, int) else 2)),
                              sorted(n[8:] for n in c if n.startswith("applied:")), o, sorted(n[9:] for n in c if n.startswith("wrongtab:"))))
            results.append((k, i, want, paths))
    return results
