"""C14 — every PDU sent is well-formed; error reports echo the offending PDU exactly.

R1 single exit to the transport: copy, convert, send exactly len bytes
R2 the length field equals the bytes handed to rtr_send_pdu; version from the socket (error report constructor;
   the two queries are decided under C05.R1)
R3 error-report assembly: size arithmetic, field placement, every byte written
R4 encapsulated length at every report site: 0, a header, the struct of the type just handled, or the received length
   field — never a buffer capacity; total report <= maximum PDU size
R5 byte-order typestate of the echoed buffer (from_network needs network order, from_host host order)
R6 the report is really sent for every length the sites use; every protocol-violation exit is preceded by a report;
   nothing is sent in reply to an Error Report
R7 constructed PDU structs have no padding
R8 byte-order conversion table per PDU type equals the multi-byte fields of the RFC layout
R9 the error code at each report site is the RFC 8210 code of the violation class that guards the site
"""
from engine import dt, es, flow, fsm, vf
from engine.pdb import AnalysisBroken
from specs import rfc8210

SOCK = ("arg", 0)
REPORTERS = ("rtr_send_error_pdu_from_host", "rtr_send_error_pdu_from_network", "rtr_send_error_pdu")
MAXPDU = 3248
HDR = rfc8210.HEADER_LEN


def r1(ctx):
    pdb = ctx.pdb
    ctx.rule("C14.R1", "all sends of the protocol code go through rtr_send_pdu, which copies the PDU to a private buffer of "
             "exactly len bytes, converts the copy to network byte order and hands exactly len bytes of it to tr_send_all")
    callers = {c.fn.name for c in pdb.callers("tr_send_all")}
    ctx.check(callers == {"rtr_send_pdu"}, "C14.R1", "tr_send_all-callers", "rtrlib/rtr/packets.c", "tr_send_all called from %s" % sorted(callers),
              key="C14.R1:callers")
    # a single send attempt (tr_send, or socket->send_fp written out) is made only by tr_send and the tr_send_all loop
    def is_raw(f, inst):
        if inst.op != "call":
            return False
        if inst.callee == "tr_send":
            return True
        if inst.callee is None and inst.d.get("fptr"):
            e = vf.expr(f, inst["fptr"])
            return e[0] == "load" and vf.last_field(e[1]) == "tr_socket.send_fp"
        return False
    raw = {f.name for f in pdb.all_functions() for i in f.all_insts() if is_raw(f, i)}
    ctx.check(raw <= {"tr_send", "tr_send_all"} and "tr_send_all" in raw, "C14.R1", "tr_send-callers", "rtrlib/transport/transport.c",
              "single send attempts made in %s" % sorted(raw), key="C14.R1:raw")
    fn = pdb.fn("rtr_send_pdu")
    ctx.touch(fn)
    sends = fn.calls("tr_send_all")
    ctx.floor("C14.R1", len(sends), 1)
    for s in sends:
        buf = vf.alloca_of(fn, s.args[1])
        good = buf is not None and vf.expr(fn, buf["count"]) == vf.expr(fn, s.args[2]) == ("arg", 2) and buf["elsize"] == 1
        cps = [c for c in fn.calls() if (c.callee or "").startswith("llvm.memcpy") and vf.alloca_of(fn, c.args[0]) is buf and fn.dom(c, s)]
        good = good and bool(cps) and vf.expr(fn, cps[0].args[1]) == ("arg", 1) and vf.expr(fn, cps[0].args[2]) == ("arg", 2)
        conv = [c for c in fn.calls("rtr_pdu_to_network_byte_order") if vf.alloca_of(fn, c.args[0]) is buf and fn.dom(c, s) and cps and fn.dom(cps[0], c)]
        good = good and len(conv) == 1
        ctx.check(good, "C14.R1", "rtr_send_pdu:copy-convert-send", s.loc(),
                  "private buffer of len bytes <- memcpy(pdu, len); converted once; tr_send_all(buffer, len)", key="C14.R1:rtr_send_pdu")
    # one PDU, one transfer: a retry of tr_send_all would start again at byte 0 after an unknown number of bytes went out
    outs1, _f = es.count_effects(fn, pdb, lambda i, E, st: (["send"] if i.op == "call" and i.callee == "tr_send_all" else None), None)
    worst = max((o["counts"].get("send", 0) for o in outs1), default=0)
    ctx.check(bool(outs1) and worst <= 1, "C14.R1", "rtr_send_pdu:one-transfer-per-pdu", sends[0].loc(),
              "tr_send_all calls on one path: at most %s" % ("1" if worst <= 1 else "many (the send is repeated)"), key="C14.R1:rtr_send_pdu:once")
    conv = pdb.fn("rtr_pdu_to_network_byte_order")
    order = [rfc8210.conv_kind(pdb, conv, c) or c.callee for c in conv.calls() if c.callee]
    ctx.check(order == [("footer", "net"), ("header", "net")], "C14.R1", "footer-before-header",
              "%s:%d" % (conv.relfile, conv.line), "conversion order %s (the footer conversion still reads type/version/lengths in host order)" % order,
              key="C14.R1:order")


def _chain_consts(e):
    """flatten an add-chain: (sum of constants, list of non-constant terms)"""
    if e[0] == "c":
        return e[1], []
    if e[0] == "bin" and e[1] == "add":
        c1, t1 = _chain_consts(e[2])
        c2, t2 = _chain_consts(e[3])
        return c1 + c2, t1 + t2
    return 0, [e]


def r2_r3(ctx):
    pdb = ctx.pdb
    ctx.rule("C14.R2", "rtr_send_error_pdu: version byte from the socket, type 10, length field == bytes sent == size of the buffer")
    ctx.rule("C14.R3", "error-report assembly: size = 16 + encapsulated + text; code, encapsulated length, encapsulated bytes, "
             "text length at rest+encapsulated and text at rest+encapsulated+4: every byte of the message is written")
    fn = pdb.fn("rtr_send_error_pdu")
    ctx.touch(fn)
    sends = fn.calls("rtr_send_pdu")
    ctx.floor("C14.R2", len(sends), 1)
    s = sends[0]
    buf = vf.alloca_of(fn, s.args[1])
    if buf is None:
        raise AnalysisBroken("rtr_send_error_pdu: message buffer is not a local array")
    size = vf.expr(fn, buf["count"])
    c, terms = _chain_consts(size)
    ENC, TXT = ("arg", 2), ("arg", 5)
    ctx.check(c == 16 and sorted(terms, key=str) == sorted([ENC, TXT], key=str) and buf["elsize"] == 1, "C14.R3", "message-size", buf.loc(),
              "buffer size = %s (expected 16 + erroneous_pdu_len + err_text_len)" % vf.show(size), key="C14.R3:size")
    ctx.check(vf.expr(fn, s.args[2]) == size and vf.expr(fn, s.args[0]) == SOCK, "C14.R2", "bytes-sent==buffer-size", s.loc(),
              "rtr_send_pdu(socket, msg, %s)" % vf.show(vf.expr(fn, s.args[2])), key="C14.R2:sent")
    base = ("alloca", buf.id, buf.get("name", ""))
    stores = {}
    for i in fn.all_insts():
        if i.op == "store" and vf.root_of(vf.expr(fn, i["ptr"])) == base and fn.dom(i, s):
            pe = vf.expr(fn, i["ptr"])
            stores[_place(pdb, pe, base)] = (vf.expr(fn, i["val"]), i["size"], i)
    want = {
        ("off", 0): (("load", ("fld", SOCK, "rtr_socket.version")), 1, "C14.R2", "version"),
        ("off", 1): (("c", 10), 1, "C14.R2", "type"),
        ("off", 2): (("arg", 3), 2, "C14.R3", "error code"),
        ("off", 4): (size, 4, "C14.R2", "length field"),
        ("off", 8): (ENC, 4, "C14.R3", "encapsulated length"),
        ("rest+", ENC): (TXT, 4, "C14.R3", "text length"),
    }
    for place, (exp, sz, rule, name) in want.items():
        got = stores.get(place)
        good = got is not None and got[0] == exp and got[1] == sz
        ctx.check(good, rule, "field:%s" % name, got[2].loc() if got else s.loc(),
                  "%s <- %s, %s bytes (expected %s, %d bytes)" % (place, vf.show(got[0]) if got else "nothing", got[1] if got else 0, vf.show(exp), sz),
                  key="%s:field:%s" % (rule, name))
    extra = [p for p in stores if p not in want]
    ctx.check(not extra, "C14.R3", "no-stray-stores", s.loc(), "other stores into the message: %s" % extra, key="C14.R3:stray")
    cps = [c for c in fn.calls() if (c.callee or "").startswith("llvm.memcpy") and vf.root_of(vf.expr(fn, c.args[0])) == base and fn.dom(c, s) or
           ((c.callee or "").startswith("llvm.memcpy") and vf.root_of(vf.expr(fn, c.args[0])) == base)]
    got = {}
    for c in cps:
        got[_place(pdb, vf.expr(fn, c.args[0]), base)] = (vf.expr(fn, c.args[1]), vf.expr(fn, c.args[2]), c)
    e1 = got.get(("off", 12))
    ok1 = e1 is not None and e1[0] == ("arg", 1) and e1[1] == ENC
    if ok1:
        ok1 = es.Guards(fn, e1[2]).nonzero(ENC)
    ctx.check(ok1, "C14.R3", "copy:encapsulated-pdu", e1[2].loc() if e1 else s.loc(), "memcpy(rest, erroneous_pdu, erroneous_pdu_len) when the length is > 0",
              key="C14.R3:copy-enc")
    e2 = None
    for place, v in got.items():
        if place[0] == "rest+" and _chain_consts(place[1]) == (4, [ENC]):
            e2 = v
    ok2 = e2 is not None and e2[0] == ("arg", 4) and e2[1] == TXT
    ctx.check(ok2, "C14.R3", "copy:text", e2[2].loc() if e2 else s.loc(), "memcpy(rest + erroneous_pdu_len + 4, err_text, err_text_len)", key="C14.R3:copy-text")
    # no reply to an Error Report
    err_t = pdb.enum_value("ERROR")

    def classify(inst, E, st):
        if inst.op == "call" and inst.callee == "rtr_send_pdu":
            return ["sent"]
        if inst.op == "call" and inst.callee == "rtr_get_pdu_type":
            return [(["=t:err"], {inst.ref: flow.av_in(err_t)}), (["=t:other"], {inst.ref: flow.av_in(4)})]
        return None
    outs, fl = es.count_effects(fn, pdb, classify, None, cell={2: 8})
    errs = [o for o in outs if o["counts"].get("t") == "err"]
    oth = [o for o in outs if o["counts"].get("t") == "other"]
    ctx.check(bool(errs) and all(not o["counts"].get("sent") for o in errs) and bool(oth) and all(o["counts"].get("sent") == 1 for o in oth),
              "C14.R6", "no-report-for-error-report", "%s:%d" % (fn.relfile, fn.line),
              "offending PDU of type Error Report: nothing sent; any other type: sent once", key="C14.R6:no-reply-to-error")


def _place(pdb, pe, base):
    """where inside the message a pointer expression points: ('off', n) or ('rest+', expr)"""
    # walk down: fld pdu_error.X of base, or ptradd on rest
    e = pe
    add = None
    while isinstance(e, tuple):
        if e[0] == "ptradd":
            add = e[2] if add is None else ("bin", "add", e[2], add)
            e = e[1]
        elif e[0] == "idx":
            if e[2] != ("c", 0):
                add = e[2] if add is None else ("bin", "add", e[2], add)
            e = e[1]
        elif e[0] == "fld":
            sname, fname = e[2].split(".", 1)
            off = pdb.field(sname, fname)["off"]
            if fname == "rest" and add is not None:
                c, terms = _chain_consts(add)
                return ("rest+", add if terms else ("c", c)) if terms else ("off", off + c)
            if add is not None:
                c, terms = _chain_consts(add)
                if not terms:
                    return ("off", off + c)
                return ("?", vf.show(pe))
            return ("off", off)
        else:
            break
    return ("?", vf.show(pe))


# struct sizes of the PDU types a report may encapsulate completely
def _type_sizes():
    out = set()
    for t, (name, total, fields) in rfc8210.PDU.items():
        if isinstance(total, int):
            out.add(total)
        elif isinstance(total, dict):
            out |= set(total.values())
    return out


def r4(ctx):
    pdb = ctx.pdb
    ctx.rule("C14.R4", "at every error-report site the encapsulated length is 0, the header size, the wire size of the PDU type "
             "just handled, or the length field of the received PDU — never the capacity of a buffer; with its text the "
             "report fits the maximum PDU size")
    sizes = _type_sizes()
    n = 0
    for callee in REPORTERS[:2] + ("interval_send_error_pdu",):
        for c in pdb.callers(callee):
            fn = c.fn
            ctx.touch(fn)
            if callee == "interval_send_error_pdu":
                continue
            n += 1
            le = vf.expr(fn, c.args[2])
            pe = vf.expr(fn, c.args[1])
            kind = None
            encmax = None
            if le == ("c", 0):
                kind, encmax = "none", 0
                good = pe == ("c", 0)
            elif le == ("c", HDR):
                kind, encmax = "header", HDR
                good = pe != ("c", 0)
            elif le[0] == "c" and le[1] in sizes:
                kind, encmax = "whole PDU of its type", le[1]
                good = True
            elif le[0] == "select" and all(x[0] == "c" and x[1] in sizes for x in (le[2], le[3])):
                kind, encmax = "whole PDU of its type", max(le[2][1], le[3][1])
                good = True
            elif le[0] == "load" and (vf.last_field(le[1]) or "").endswith(".len") and vf.root_of(le[1]) == vf.root_of(pe):
                kind, encmax = "received length field", max(sizes)
                good = True
            elif le[0] == "arg" and fn.name in ("rtr_send_error_pdu_from_host", "rtr_send_error_pdu_from_network"):
                kind, encmax, good = "forwarded", None, True
            else:
                good = False
            te = vf.expr(fn, c.args[5])
            if te[0] == "phi" or vf.expr(fn, c.args[4])[0] == "phi":
                raise AnalysisBroken("%s: a report site is fed by a choice of texts (several sites merged into one call): the per-site rules on text and "
                                     "lengths are written for one text per site" % fn.name)
            tmax = None
            if te[0] == "c":
                tmax = te[1]
            elif te[0] == "bin" and te[1] == "add" and te[2][0] == "call" and te[2][1] == "strlen":
                al = vf.alloca_of(fn, c.args[4])
                if al is not None and vf.expr(fn, al["count"])[0] == "c":
                    tmax = al["elsize"] * vf.expr(fn, al["count"])[1]
            elif te[0] == "arg":
                tmax = -1
            fits = encmax is None or tmax == -1 or (tmax is not None and 16 + encmax + tmax <= MAXPDU)
            ctx.check(good and fits, "C14.R4", "%s@%s#%d" % (callee.replace("rtr_send_error_pdu", "report"), fn.name, _ord(fn, c)), c.loc(),
                      "encapsulated length %s (%s), text length %s => report <= %s bytes" % (
                          vf.show(le), kind or "NOT a PDU length", vf.show(te), (16 + encmax + tmax) if (encmax is not None and tmax not in (None, -1)) else "n/a"),
                      key="C14.R4:%s:%s" % (fn.name, _ord(fn, c)))
    ctx.floor("C14.R4", n, 10)   # sites may be merged (one call fed by a switch); far fewer means the idiom is no longer recognised


def _ord(fn, inst):
    k = 0
    for c in fn.calls():
        if c.callee in REPORTERS:
            k += 1
            if c is inst:
                return k
    return 0


def r5(ctx, retsets):
    pdb = ctx.pdb
    ctx.rule("C14.R5", "byte order of the echoed bytes: rtr_send_error_pdu_from_network only where the first 8 bytes of the "
             "receive buffer are still (or again) in network order; rtr_send_error_pdu_from_host only on buffers that "
             "rtr_receive_pdu returned successfully (host order)")
    fn = pdb.fn("rtr_receive_pdu")
    ctx.touch(fn)
    bad = []
    nsites = set()

    def classify(inst, E, st):
        if inst.op != "call" or not inst.callee:
            return None
        cal = inst.callee
        if cal.startswith("llvm.memcpy") and vf.expr(fn, inst.args[0]) == ("arg", 1):
            src = vf.root_of(vf.expr(fn, inst.args[1]))
            if isinstance(src, tuple) and src[0] == "alloca":
                return ["=hdr:HOST"]
        ck = rfc8210.conv_kind(pdb, fn, inst)
        if ck == ("header", "net") and vf.expr(fn, inst.args[0]) == ("arg", 1):
            if st.get("hdr") != "HOST":
                bad.append((inst, "header converted to network order although it already is"))
            return ["=hdr:NET"]
        if ck == ("header", "host") and vf.expr(fn, inst.args[0]) == ("arg", 1):
            return ["=hdr:HOST"]
        if ck == ("footer", "host") and vf.expr(fn, inst.args[0]) == ("arg", 1):
            return ["=ftr:HOST"]
        if cal == "rtr_send_error_pdu_from_network":
            nsites.add(inst.id)
            n = flow.av_single(E.val(inst.args[2]))
            if st.get("hdr") != "NET":
                bad.append((inst, "echoes the header 'from network' but the buffer's header is in host order on this path"))
            if n is None or n > HDR and st.get("ftr") != "NET":
                bad.append((inst, "echoes %s bytes 'from network' but the payload has been converted to host order" % n))
        if cal == "rtr_send_error_pdu_from_host":
            nsites.add(inst.id)
            if st.get("hdr") != "HOST":
                bad.append((inst, "echoes the header 'from host' but the buffer's header is in network order on this path"))
        return None
    es.count_effects(fn, pdb, classify, retsets, init=[("hdr", "NET"), ("ftr", "NET")])
    seen = set()
    for inst, msg in bad:
        if (inst.id, msg) in seen:
            continue
        seen.add((inst.id, msg))
        ctx.violation("C14.R5", "rtr_receive_pdu:%s" % inst.callee, inst.loc(), msg, key="C14.R5:rtr_receive_pdu:%s" % msg.split()[3])
    if not bad:
        ctx.ok("C14.R5", "rtr_receive_pdu:typestate", "%s:%d" % (fn.relfile, fn.line), "%d report sites, header in network order at each of them" % len(nsites))
    ctx.floor("C14.R5", len(nsites), 1)
    # the receive function changes the received bytes only by byte-order conversion: what is echoed later is what arrived
    writes = []
    for i in fn.all_insts():
        if i.op == "store" and vf.root_of(vf.expr(fn, i["ptr"])) == ("arg", 1):
            writes.append(i)
        if i.op == "call" and (i.callee or "").startswith(("llvm.memcpy", "llvm.memset", "llvm.memmove", "memset")) and vf.root_of(vf.expr(fn, i.args[0])) == ("arg", 1):
            src = vf.root_of(vf.expr(fn, i.args[1])) if len(i.args) > 1 else None
            whole_header = vf.expr(fn, i.args[0]) == ("arg", 1) and isinstance(src, tuple) and src[0] == "alloca" and vf.expr(fn, i.args[2]) == ("c", HDR)
            if not whole_header:
                writes.append(i)
    ctx.check(not writes, "C14.R5", "rtr_receive_pdu:no-edit-of-the-received-bytes", (writes[0].loc() if writes else "%s:%d" % (fn.relfile, fn.line)),
              ("the receive buffer is written at line %d outside the byte-order conversion: the PDU stored and echoed later is no longer the PDU received" % writes[0].line)
              if writes else "the buffer is written only by the transport, the converted-header copy and the conversion functions", key="C14.R5:rtr_receive_pdu:edit")
    # elsewhere: only from_host, and only on buffers filled by a successful rtr_receive_pdu (or records copied from them)
    for c in pdb.callers("rtr_send_error_pdu_from_network"):
        ctx.check(c.fn.name == "rtr_receive_pdu", "C14.R5", "from_network-only-in-receive:%s" % c.fn.name, c.loc(),
                  "buffers outside rtr_receive_pdu are in host byte order", key="C14.R5:from_network:%s" % c.fn.name)
    # success exit of rtr_receive_pdu leaves header and footer in host order

    def classify2(inst, E, st):
        if inst.op == "call" and inst.callee:
            if inst.callee.startswith("llvm.memcpy") and vf.expr(fn, inst.args[0]) == ("arg", 1) and vf.root_of(vf.expr(fn, inst.args[1]))[0] == "alloca":
                return ["=hdr:HOST"]
            if rfc8210.conv_kind(pdb, fn, inst) == ("header", "net"):
                return ["=hdr:NET"]
            if rfc8210.conv_kind(pdb, fn, inst) == ("footer", "host"):
                return ["=ftr:HOST"]
        return None
    outs, fl = es.count_effects(fn, pdb, classify2, retsets, init=[("hdr", "NET"), ("ftr", "NET")])
    succ = [o for o in outs if o["ret"] == flow.av_in(0)]
    ctx.check(bool(succ) and all(o["counts"].get("hdr") == "HOST" and o["counts"].get("ftr") == "HOST" for o in succ), "C14.R5",
              "receive-success=>host-order", "%s:%d" % (fn.relfile, fn.line), "on success the whole PDU is in host byte order", key="C14.R5:success-host")


def r6(ctx, retsets):
    pdb = ctx.pdb
    ctx.rule("C14.R6", "rtr_send_error_pdu_from_host forwards the report for every length the sites pass (0, 8, whole PDUs); "
             "every change to RTR_ERROR_FATAL for a protocol violation is preceded by an error report on every path; "
             "nothing is sent in reply to an Error Report")
    fn = pdb.fn("rtr_send_error_pdu_from_host")
    ctx.touch(fn)
    fw = fn.calls("rtr_send_error_pdu")
    if not fw or any(len(c.args) != 6 for c in fw):
        raise AnalysisBroken("the Error Report helpers were rearranged: rtr_send_error_pdu_from_host no longer hands (socket, copy, length, code, text, "
                             "text length) to rtr_send_error_pdu - the rules on what is converted and forwarded are written for that interface")
    for ln in (0, HDR, 12, 20, 24, 32, 123):
        def classify(inst, E, st):
            if inst.op == "call" and inst.callee == "rtr_send_error_pdu":
                ok = vf.expr(fn, inst.args[3]) == ("arg", 3) and vf.expr(fn, inst.args[4]) == ("arg", 4) and vf.expr(fn, inst.args[5]) == ("arg", 5) \
                    and flow.av_single(E.val(inst.args[2])) == ln
                return ["forward" if ok else "forward_changed"]
            ck = rfc8210.conv_kind(pdb, fn, inst)
            if ck == ("footer", "net"):
                # the whole-PDU conversion written out: the footer first (it reads type and length from the header, which must still
                # be in host order), then the header
                return ["conv:footer-after-header"] if st.get("hdr") == "1" else ["=ftr:1"]
            if ck == ("header", "net"):
                return ["=hdr:1", "conv:all" if st.get("ftr") == "1" else "conv:header"]
            if ck == ("all", "net"):
                return ["conv:all"]
            return None
        outs, fl = es.count_effects(fn, pdb, classify, retsets, cell={2: ln})
        for o in outs:
            o["counts"].pop("hdr", None)
            o["counts"].pop("ftr", None)
        exp = {"forward": 1}
        if ln == HDR:
            exp["conv:header"] = 1
        elif ln > HDR:
            exp["conv:all"] = 1
        found = [o["counts"] for o in outs]
        ctx.check(bool(outs) and all(c == exp for c in found), "C14.R6", "from_host[len=%d]" % ln, "%s:%d" % (fn.relfile, fn.line),
                  "effects %s, expected %s" % (found, exp), key="C14.R6:from_host:%d" % ln)
    # FATAL sites
    fatal = pdb.enum_value("RTR_ERROR_FATAL")
    EXEMPT = {
        "rtr_handle_error_pdu": "reaction to an Error Report: no report is sent in reply",
        "rtr_set_last_update": "clock failure, not a protocol violation",
    }
    CALLEE_REPORTED = {"rtr_store_prefix_pdu", "rtr_store_router_key_pdu", "rtr_update_pfx_table", "rtr_update_spki_table"}
    INTERNAL = {"pfx_table_copy_except_socket", "spki_table_copy_except_socket"}
    n = 0
    for f in [x for x in pdb.all_functions() if x.unit == "rtrlib/rtr/packets.c"]:
        sites = [c for c in f.calls(fsm.CHANGE) if vf.expr(f, c.args[1]) == ("c", fatal)]
        if not sites:
            continue
        ctx.touch(f)
        if f.name in EXEMPT:
            ctx.ok("C14.R6", "fatal-sites:%s" % f.name, "%s:%d" % (f.relfile, f.line), "%d sites exempt: %s" % (len(sites), EXEMPT[f.name]))
            n += len(sites)
            continue
        status = {}

        def classify(inst, E, st):
            if inst.op == "call" and inst.callee:
                if inst.callee in REPORTERS or inst.callee == "interval_send_error_pdu":
                    return ["=rep:1"]
                if inst.callee in CALLEE_REPORTED:
                    return [(["=rep:1"], {inst.ref: flow.av_in(-1)}), ([], {inst.ref: flow.av_in(0)})]
                if inst.callee in INTERNAL:
                    return [(["=rep:internal"], {inst.ref: flow.av_in(-1)}), ([], {inst.ref: flow.av_in(0)})]
                if inst.callee == "rtr_receive_pdu":
                    return ["=rep:0"]
                if inst.callee == "tr_recv_all":
                    # a transport failure is not a protocol violation: no report is owed for it
                    return [(["=rep:transport-failure"], {inst.ref: flow.av_in(-99)}), ([], {inst.ref: flow.av_in(8)})]
                if inst.callee == fsm.CHANGE and flow.av_single(E.val(inst.args[1])) == fatal:
                    status.setdefault(inst.id, set()).add(st.get("rep", "0"))
            return None
        es.count_effects(f, pdb, classify, retsets, init=[("rep", "0")], cap=96)
        for s in sites:
            stt = status.get(s.id, set())
            if not stt:
                # no evaluated path reaches this copy of the call (e.g. an inlined error handler entered with a fixed code)
                continue
            n += 1
            good = "0" not in stt
            ctx.check(good, "C14.R6", "fatal-after-report:%s@%d" % (f.name, [x.id for x in sites].index(s.id) + 1), s.loc(),
                      "report status on the paths reaching this RTR_ERROR_FATAL: %s (1 = report sent, internal = allocation failure)" % sorted(stt),
                      key="C14.R6:fatal:%s:%d" % (f.name, [x.id for x in sites].index(s.id) + 1))
    ctx.floor("C14.R6", n, 15)


def r7b(ctx):
    pdb = ctx.pdb
    ctx.rule("C14.R10", "the error text handed to a report is initialised memory for its whole stated length: a constant array "
             "initialised from a literal of the same size, or a formatted buffer whose length is taken with strlen()+1")
    n = 0
    for callee in REPORTERS[:2]:
        for c in pdb.callers(callee):
            fn = c.fn
            te = vf.expr(fn, c.args[4])
            le = vf.expr(fn, c.args[5])
            if te == ("c", 0):
                n += 1
                ctx.check(le == ("c", 0), "C14.R10", "text:%s#%d" % (fn.name, _ord(fn, c)), c.loc(), "no text, length %s" % vf.show(le),
                          key="C14.R10:%s:%d" % (fn.name, _ord(fn, c)))
                continue
            if te[0] == "arg":
                continue   # forwarded
            al = vf.alloca_of(fn, c.args[4])
            if al is None:
                n += 1
                ctx.violation("C14.R10", "text:%s#%d" % (fn.name, _ord(fn, c)), c.loc(), "text is %s: not a local buffer" % vf.show(te),
                              key="C14.R10:%s:%d" % (fn.name, _ord(fn, c)))
                continue
            n += 1
            cnt = vf.expr(fn, al["count"])
            size = al["elsize"] * cnt[1] if cnt[0] == "c" else None
            inits = [m for m in fn.calls() if (m.callee or "").startswith("llvm.memcpy") and vf.alloca_of(fn, m.args[0]) is al and fn.dom(m, c)]
            full = any(vf.expr(fn, m.args[1])[0] == "g" and vf.expr(fn, m.args[2]) == ("c", size) for m in inits)
            def strlen_plus1(e):
                return e[0] == "bin" and e[1] == "add" and e[3] == ("c", 1) and e[2][0] == "call" and e[2][1] == "strlen" and \
                    vf.root_of(e[2][3][0]) == ("alloca", al.id, al.get("name", ""))
            # snprintf with a constant format and constant integer arguments writes a computable number of bytes
            written = None
            for sp in fn.calls("snprintf"):
                if vf.alloca_of(fn, sp.args[0]) is al and fn.dom(sp, c):
                    fe = vf.expr(fn, sp.args[2])
                    g = pdb.glob_in(fn.unit, fe[1]) if fe[0] == "g" else None
                    fmt = g["init"]["str"] if g and isinstance(g.get("init"), dict) else None
                    vals = [vf.expr(fn, a) for a in sp.args[3:]]
                    if fmt is not None and all(v[0] == "c" for v in vals):
                        try:
                            out = fmt.replace("%u", "%d") % tuple(v[1] for v in vals)
                            lim = vf.expr(fn, sp.args[1])
                            written = min(len(out) + 1, lim[1]) if lim[0] == "c" else None
                        except (TypeError, ValueError):
                            written = None
            if full:
                good = (le[0] == "c" and le[1] <= size) or strlen_plus1(le)
                why = "array initialised from a literal of %s bytes, %s sent" % (size, vf.show(le))
            elif written is not None and le[0] == "c":
                good = le[1] <= written
                why = "snprintf of a constant format writes %d bytes, %s sent" % (written, vf.show(le))
            else:
                good = strlen_plus1(le)
                why = "formatted buffer of %s bytes, length %s (must be strlen(buffer)+1)" % (size, vf.show(le))
            ctx.check(good, "C14.R10", "text:%s#%d" % (fn.name, _ord(fn, c)), c.loc(), why, key="C14.R10:%s:%d" % (fn.name, _ord(fn, c)))
    ctx.floor("C14.R10", n, 15)


def r7(ctx):
    pdb = ctx.pdb
    ctx.rule("C14.R7", "the structs the client builds PDUs in (serial query, reset query, error header) have no padding and the "
             "RFC wire size, so no uninitialised byte can be sent once every field is stored")
    for sname, total in (("pdu_serial_query", 12), ("pdu_reset_query", 8), ("pdu_error", 12), ("pdu_header", 8)):
        s = pdb.struct(sname)
        covered = sum(f["sizebits"] for f in s["fields"]) // 8
        ctx.check(s["size"] == total and covered == total, "C14.R7", "layout:%s" % sname, "rtrlib/rtr/packets.c",
                  "size %d, fields cover %d bytes (RFC: %d)" % (s["size"], covered, total), key="C14.R7:%s" % sname)


def r8(ctx):
    pdb = ctx.pdb
    ctx.rule("C14.R8", "byte-order conversion: for every PDU type exactly the multi-byte integer fields of the RFC layout are "
             "converted (header: bytes 2-3 except for Router Key, bytes 4-7; footer per type)")
    fh = pdb.fn("rtr_pdu_convert_header_byte_order")
    ff = pdb.fn("rtr_pdu_convert_footer_byte_order")
    ctx.touch(fh, ff)
    HELP = {"lrtr_ipv4_addr_convert_byte_order": 4, "lrtr_ipv6_addr_convert_byte_order": 16}

    def run(fn, t, ver):
        conv = set()

        def off_of(pe):
            pl = _place(pdb, pe, None)
            return pl[1] if pl[0] == "off" else ("var" if pl[0] in ("rest+", "?") else None)

        def classify(inst, E, st):
            if inst.op == "store" and vf.root_of(E.path_expr(inst["ptr"])) == ("arg", 0):      # the address as chosen on this path
                ve = vf.expr(fn, inst["val"])
                if ve[0] == "call" and ve[1] in ("lrtr_convert_long", "lrtr_convert_short"):
                    src = ve[3][1]
                    same = src == ("load", vf.expr(fn, inst["ptr"]))
                    o = off_of(E.path_expr(inst["ptr"]))
                    conv.add((o, inst["size"]) if same else ("mismatch", vf.show(vf.expr(fn, inst["ptr"]))))
            if inst.op == "call" and inst.callee in HELP:
                src = vf.expr(fn, inst.args[0])
                # converts the prefix field in place (ipv4: value in, pointer out; ipv6: via a temporary copied back)
                for a in inst.args:
                    e = vf.expr(fn, a)
                    f = vf.last_field(e[1]) if e[0] == "load" else vf.last_field(e)
                    if f and f.endswith(".prefix") and vf.root_of(e) == ("arg", 0):
                        sname, fname = f.split(".", 1)
                        o = pdb.field(sname, fname)["off"]
                        for k in range(0, HELP[inst.callee], 4):
                            conv.add((o + k, 4))
                        break
            return None

        class H(es.CountHooks):
            def call_value(self, inst, E):
                if inst.callee == "rtr_get_pdu_type":
                    return flow.av_in(t)
                return None
        cell = {("fld", ("arg", 0), "pdu_header.type"): t, ("fld", ("arg", 0), "pdu_header.ver"): ver}
        h = H(fn, pdb, classify, None, None, None, None, None, cell)
        fl = flow.Flow(fn, h)
        fl.run()
        return conv
    n = 0
    for t, fields in sorted(rfc8210.CONVERT.items()):
        for ver in ((0, 1) if t == 7 else (1,)):
            for direction in (0, 1):
                n += 1
                got = run(fh, t, ver) | run(ff, t, ver)
                exp = set(fields)
                if t == 7 and ver == 0:
                    exp = {(o, s) for (o, s) in exp if o < 12}
                if t == 10:
                    exp = exp | {("var", 4)}
                ctx.check(got == exp, "C14.R8", "convert[type=%d,ver=%d]" % (t, ver), "%s:%d" % (ff.relfile, ff.line),
                          "converted (offset,size): %s; RFC: %s" % (sorted(got, key=str), sorted(exp, key=str)), key="C14.R8:type%d:v%d" % (t, ver))
                break
    ctx.floor("C14.R8", n, 10)


def r9(ctx, retsets):
    pdb = ctx.pdb
    ctx.rule("C14.R9", "error code = violation class (RFC 8210 section 12): bad length / inconsistent size / bad flags / session "
             "mismatch / unexpected PDU -> 0; internal failure -> 1; unknown PDU type -> 5; withdrawal of unknown record -> 6; "
             "duplicate announcement -> 7; version mismatch -> 8")
    EC = rfc8210.ERROR_CODES
    # (a) rtr_receive_pdu: one cell per violation class
    fn = pdb.fn("rtr_receive_pdu")
    ctx.touch(fn)

    def is_h(e, fld):
        return e[0] == "load" and vf.last_field(e[1]) == "pdu_header." + fld and vf.root_of(e[1])[0] == "alloca"
    VERSION = ("load", ("fld", SOCK, "rtr_socket.version"))
    cells = [("length below header size", {"len_small": True}, EC["corrupt data"]),
             ("length above maximum", {"len_big": True}, EC["corrupt data"]),
             ("version mismatch", {"ver_differs": True}, EC["unexpected protocol version"]),
             ("unknown PDU type", {"type_unknown": True}, EC["unsupported pdu type"]),
             ("size inconsistent with type", {"size_bad": True}, EC["corrupt data"])]
    for name, cond, code in cells:
        # the cell fixes the decoded header fields (and the negotiated version); every comparison over them is then decided by the
        # evaluator however it is written
        hv = {"len": 7 if cond.get("len_small") else (3249 if cond.get("len_big") else 20),
              "ver": 0 if cond.get("ver_differs") else 1,
              "type": 11 if cond.get("type_unknown") else 4}

        def values(pe, hv=hv):
            f = vf.last_field(pe) or ""
            if f.startswith("pdu_header.") and vf.root_of(pe)[0] == "alloca":
                return hv.get(f.split(".")[1])
            if pe == ("fld", SOCK, "rtr_socket.version"):
                return 1
            return None

        def classify(inst, E, st, cond=cond):
            if inst.op == "call" and inst.callee:
                if inst.callee == "tr_recv_all":
                    return [([], {inst.ref: flow.av_in(8)})]
                if inst.callee == "rtr_pdu_check_size":
                    return [([], {inst.ref: flow.av_in(0 if cond.get("size_bad") else 1)})]
                if inst.callee in REPORTERS:
                    return ["code%s" % flow.av_single(E.val(inst.args[3]))]
            return None
        outs, fl = es.count_effects(fn, pdb, classify, retsets, cell={("fld", SOCK, "rtr_socket.has_received_pdus"): 1, ("fld", SOCK, "rtr_socket.state"): 0},
                                    values=values, pinned=lambda pe: pe in (("fld", SOCK, "rtr_socket.has_received_pdus"), ("fld", SOCK, "rtr_socket.state")))
        codes = [sorted(k for k in o["counts"] if k.startswith("code")) for o in outs]
        good = bool(outs) and all(c == ["code%d" % code] for c in codes) and all(o["ret"] == flow.av_in(-1) for o in outs)
        ctx.check(good, "C14.R9", "receive[%s]" % name, "%s:%d" % (fn.relfile, fn.line), "reports %s, expected code %d" % (codes, code),
                  key="C14.R9:receive:%s" % name.replace(" ", "-"))
    # (b) no dead report handler: every value the local status variable is compared with has a reaching definition
    tail = [i for i in fn.all_insts() if i.op == "icmp" and i["pred"] == "eq" and vf.expr(fn, i["a"])[0] == "phi" and i["b"].startswith("#")]
    phis = {i["a"] for i in tail}
    for ph in phis:
        p = fn.inst(ph)
        if p is None or p.op != "phi":
            continue
        defs = set()
        for v, b in p["inc"]:
            e = vf.expr(fn, v)
            if e[0] == "c":
                defs.add(e[1])
            else:
                defs.add("dyn")
        for i in tail:
            if i["a"] != ph:
                continue
            k = int(i["b"][1:])
            live = k in defs or ("dyn" in defs and k < 0)
            if not live:
                # information only: a handler nobody reaches is dead code, not a wrong report (C13 demands code 8 for
                # every version mismatch, so the unreachable code-4 branch is not a violation of C14)
                ctx.note("rtr_receive_pdu: the error tail handles status %d, which no path assigns (dead branch at %s)" % (k, i.loc()))
    # (c) table/update sites: code follows the table's verdict
    for fname, enum, recs in (("rtr_update_pfx_table", "pfx_rtvals", {"PFX_DUPLICATE_RECORD": 7, "PFX_RECORD_NOT_FOUND": 6, "PFX_ERROR": 1}),
                              ("rtr_update_spki_table", "spki_rtvals", {"SPKI_DUPLICATE_RECORD": 7, "SPKI_RECORD_NOT_FOUND": 6, "SPKI_ERROR": 1})):
        f = pdb.fn(fname)
        ctx.touch(f)
        for verdict, code in recs.items():
            v = pdb.enum_value(verdict)
            for flags in (1, 0):
                def classify(inst, E, st, v=v):
                    if inst.op == "call" and inst.callee in ("pfx_table_add", "pfx_table_remove", "spki_table_add_entry", "spki_table_remove_entry"):
                        return [(["table:" + inst.callee.split("_")[-1].replace("entry", inst.callee.split("_")[-2])], {inst.ref: flow.av_in(v)})]
                    if inst.op == "call" and inst.callee in REPORTERS:
                        return ["code%s" % flow.av_single(E.val(inst.args[3]))]
                    return None
                fl_e = [x for x in vf.loads_of_field(pdb, "pdu_ipv4.flags") + vf.loads_of_field(pdb, "pdu_router_key.flags") if x.fn is f]
                cell = {vf.expr(f, x["ptr"]): flags for x in fl_e}
                outs, fl = es.count_effects(f, pdb, classify, retsets, cell=cell)
                codes = [sorted(k for k in o["counts"] if k.startswith("code")) for o in outs]
                good = bool(outs) and all(c == ["code%d" % code] for c in codes)
                ctx.check(good, "C14.R9", "%s[flags=%d,%s]" % (fname, flags, verdict), "%s:%d" % (f.relfile, f.line),
                          "reports %s, expected code %d" % (codes, code), key="C14.R9:%s:%s" % (fname, verdict))
        # invalid flags
        fl_e = [x for x in vf.loads_of_field(pdb, "pdu_ipv4.flags") + vf.loads_of_field(pdb, "pdu_router_key.flags") if x.fn is f]
        cell = {vf.expr(f, x["ptr"]): 2 for x in fl_e}
        outs, fl = es.count_effects(f, pdb, lambda inst, E, st: (["code%s" % flow.av_single(E.val(inst.args[3]))] if inst.op == "call" and inst.callee in REPORTERS else
                                                              (["table"] if inst.op == "call" and inst.callee in ("pfx_table_add", "pfx_table_remove", "spki_table_add_entry", "spki_table_remove_entry") else None)),
                                     retsets, cell=cell)
        good = bool(outs) and all(o["counts"] == {"code0": 1} and o["ret"] == flow.av_in(-1) for o in outs)
        ctx.check(good, "C14.R9", "%s[invalid flags]" % fname, "%s:%d" % (f.relfile, f.line), "effects %s, expected corrupt-data report, no table call, failure" % [o["counts"] for o in outs],
                  key="C14.R9:%s:flags" % fname)
    # (d) remaining sites with a constant code: frozen classes
    FIXED = {("rtr_sync", 1): 0, ("rtr_handle_cache_response_pdu", 1): 0, ("rtr_sync_receive_and_store_pdus", 1): 0,
             ("rtr_sync_receive_and_store_pdus", 2): 0, ("rtr_store_prefix_pdu", 1): 1, ("rtr_store_router_key_pdu", 1): 1,
             ("interval_send_error_pdu", 1): 0}
    for (fname, k), code in sorted(FIXED.items()):
        f = pdb.fn(fname)
        cs = [c for c in f.calls() if c.callee in REPORTERS]
        if len(cs) < k:
            raise AnalysisBroken("%s: report site #%d vanished" % (fname, k))
        c = cs[k - 1]
        ctx.check(vf.expr(f, c.args[3]) == ("c", code), "C14.R9", "%s#%d" % (fname, k), c.loc(), "code %s (expected %d)" % (vf.show(vf.expr(f, c.args[3])), code),
                  key="C14.R9:%s:%d" % (fname, k))


def report_interface(pdb):
    """the rules on Error Reports are written for rtr_send_error_pdu(socket, erroneous pdu, its length, code, text, text length) and the
    two wrappers that hand exactly these on; with another interface the argument positions no longer mean what the rules assume"""
    f = pdb.fn("rtr_send_error_pdu")
    if len(f.params) != 6:
        raise AnalysisBroken("rtr_send_error_pdu now takes %d parameters: the Error Report rules are written for (socket, erroneous pdu, length, "
                             "code, text, text length)" % len(f.params))
    h = pdb.fn("rtr_send_error_pdu_from_host")
    fw = h.calls("rtr_send_error_pdu")
    if not fw or any(len(c.args) != 6 for c in fw):
        raise AnalysisBroken("the Error Report helpers were rearranged: rtr_send_error_pdu_from_host no longer hands (socket, copy, length, code, text, "
                             "text length) to rtr_send_error_pdu - the rules on what is converted and forwarded are written for that interface")


def check(ctx):
    retsets = flow.return_sets(ctx.pdb)
    report_interface(ctx.pdb)
    r1(ctx)
    r2_r3(ctx)
    r4(ctx)
    r5(ctx, retsets)
    r6(ctx, retsets)
    r7(ctx)
    r7b(ctx)
    r8(ctx)
    r9(ctx, retsets)
    from specs import C04
    with ctx.shared({"C04.R5": ("C14.R11", "however the transport splits the writes, tr_send_all hands the remaining bytes (buffer + done, len - done) "
                                "to the transport until all are out and stops at the first negative result")}):
        C04.r5(ctx, retsets)
    from specs import C08
    with ctx.shared({"C08.R4": ("C14.R12", "a failed send ends the connection (state change on every failure return of the query senders), so no further PDU "
                                "is written behind a fragment")}):
        C08.r4_silent(ctx, retsets)
    ctx.not_decided("partial-write behaviour of user-supplied transports (tr_send_all loops until len bytes are out: C04.R5)")


PK = "rtrlib/rtr/packets.c"
WITNESSES = [
    {"id": "C14.w1-direct-send-bypasses-conversion", "rule": "C14.R1", "file": PK,
     "old": "\tif (rtr_send_pdu(rtr_socket, &pdu, sizeof(pdu)) != RTR_SUCCESS) {\n\t\trtr_change_socket_state(rtr_socket, RTR_ERROR_TRANSPORT);\n\t\treturn RTR_ERROR;\n\t}\n\treturn RTR_SUCCESS;\n}\n\nint rtr_send_reset_query",
     "new": "\tif (tr_send_all(rtr_socket->tr_socket, &pdu, sizeof(pdu), RTR_SEND_TIMEOUT) < 0) {\n\t\trtr_change_socket_state(rtr_socket, RTR_ERROR_TRANSPORT);\n\t\treturn RTR_ERROR;\n\t}\n\treturn RTR_SUCCESS;\n}\n\nint rtr_send_reset_query"},
    {"id": "C14.w2-error-pdu-len-field-short", "rule": "C14.R2", "file": PK,
     "old": "\terr_pdu->len = msg_size;", "new": "\terr_pdu->len = msg_size - err_text_len;"},
    {"id": "C14.w3-text-length-at-rest", "rule": "C14.R3", "file": PK,
     "old": "\t*((uint32_t *)(err_pdu->rest + erroneous_pdu_len)) = err_text_len;", "new": "\t*((uint32_t *)(err_pdu->rest)) = err_text_len;"},
    {"id": "C14.w4-undo-F7-buffer-capacity-as-length", "rule": "C14.R4", "file": PK,
     "old": "rtr_send_error_pdu_from_host(rtr_socket, pdu, eod_pdu->len, CORRUPT_DATA, txt,", "new": "rtr_send_error_pdu_from_host(rtr_socket, pdu, RTR_MAX_PDU_LEN, CORRUPT_DATA, txt,"},
    {"id": "C14.w5-from-host-at-header-error-site", "rule": "C14.R5", "file": PK,
     "old": "\t\trtr_send_error_pdu_from_network(rtr_socket, pdu, sizeof(header), UNEXPECTED_PROTOCOL_VERSION, NULL, 0);",
     "new": "\t\trtr_send_error_pdu_from_host(rtr_socket, pdu, sizeof(header), UNEXPECTED_PROTOCOL_VERSION, NULL, 0);"},
    {"id": "C14.w6-undo-F8-header-not-restored", "rule": "C14.R5", "file": PK,
     "old": "\t\trtr_pdu_header_to_network_byte_order(pdu);\n\t\terror = CORRUPT_DATA;", "new": "\t\terror = CORRUPT_DATA;"},
    {"id": "C14.w7-undo-F17-zero-length-not-sent", "rule": "C14.R6", "file": PK,
     "old": "\tif (erroneous_pdu_len == 0)\n\t\treturn rtr_send_error_pdu(rtr_socket, NULL, 0, error, err_text, err_text_len);\n", "new": "\tif (erroneous_pdu_len == 0)\n\t\treturn RTR_ERROR;\n"},
    {"id": "C14.w8-duplicate-without-report", "rule": "C14.R6", "also": ("C14.R9",), "file": PK,
     "old": "\t\trtr_send_error_pdu_from_host(rtr_socket, pdu, pdu_size, DUPLICATE_ANNOUNCEMENT, NULL, 0);\n\t\trtr_change_socket_state(rtr_socket, RTR_ERROR_FATAL);\n\t\treturn RTR_ERROR;\n\t} else if (rtval == PFX_RECORD_NOT_FOUND) {",
     "new": "\t\trtr_change_socket_state(rtr_socket, RTR_ERROR_FATAL);\n\t\treturn RTR_ERROR;\n\t} else if (rtval == PFX_RECORD_NOT_FOUND) {"},
    {"id": "C14.w9-router-key-asn-not-converted", "rule": "C14.R8", "file": PK,
     "old": "\tcase ROUTER_KEY:\n\t\t((struct pdu_router_key *)pdu)->asn =\n\t\t\tlrtr_convert_long(target_byte_order, ((struct pdu_router_key *)pdu)->asn);\n\t\tbreak;", "new": "\tcase ROUTER_KEY:\n\t\tbreak;"},
    {"id": "C14.w10-duplicate-reported-as-corrupt", "rule": "C14.R9", "file": PK,
     "old": "\t\trtr_send_error_pdu_from_host(rtr_socket, pdu, pdu_size, DUPLICATE_ANNOUNCEMENT, NULL, 0);\n\t\trtr_change_socket_state(rtr_socket, RTR_ERROR_FATAL);\n\t\treturn RTR_ERROR;\n\t} else if (rtval == SPKI_RECORD_NOT_FOUND) {",
     "new": "\t\trtr_send_error_pdu_from_host(rtr_socket, pdu, pdu_size, CORRUPT_DATA, NULL, 0);\n\t\trtr_change_socket_state(rtr_socket, RTR_ERROR_FATAL);\n\t\treturn RTR_ERROR;\n\t} else if (rtval == SPKI_RECORD_NOT_FOUND) {"},
    {"id": "C14.w11-undo-F18-unknown-type-code0", "rule": "C14.R9", "file": PK,
     "old": "\tif (header.type > MAX_SUPPORTED_PDU_TYPE || header.type == RESERVED) {\n\t\terror = UNSUPPORTED_PDU_TYPE;\n\t\tgoto error;\n\t}\n", "new": ""},
    {"id": "C14.w12-header-converted-before-footer", "rule": "C14.R1", "file": PK,
     "old": "\trtr_pdu_footer_to_network_byte_order(pdu);\n\trtr_pdu_header_to_network_byte_order(pdu);", "new": "\trtr_pdu_header_to_network_byte_order(pdu);\n\trtr_pdu_footer_to_network_byte_order(pdu);"},
    {"id": "C14.w13-error-pdu-version-constant", "rule": "C14.R2", "file": PK,
     "old": "\terr_pdu->ver = rtr_socket->version;", "new": "\terr_pdu->ver = RTR_PROTOCOL_VERSION_1;"},
    {"id": "C14.w14-eod-v1-refresh-not-converted", "rule": "C14.R8", "file": PK,
     "old": "\t\t\t((struct pdu_end_of_data_v1 *)pdu)->refresh_interval = lrtr_convert_long(\n\t\t\t\ttarget_byte_order, ((struct pdu_end_of_data_v1 *)pdu)->refresh_interval);\n", "new": ""},
    {"id": "C14.w15-reply-to-error-report", "rule": "C14.R6", "file": PK,
     "old": "\t\tif (rtr_get_pdu_type(erroneous_pdu) == ERROR) {", "new": "\t\tif (rtr_get_pdu_type(erroneous_pdu) == ERROR && error == CORRUPT_DATA) {"},
    {"id": "C14.w-send-retried-after-interruption", "rule": "C14.R1", "file": PK,
     "old": "\tconst int rtval = tr_send_all(rtr_socket->tr_socket, pdu_converted, len, RTR_SEND_TIMEOUT);\n",
     "new": "\tint rtval;\n\n\tdo {\n\t\trtval = tr_send_all(rtr_socket->tr_socket, pdu_converted, len, RTR_SEND_TIMEOUT);\n\t} while (rtval == TR_INTR);\n"},
    {"id": "C14.w-zero-octet-normalised-in-the-buffer", "rule": "C14.R5", "file": PK,
     "old": "\t\t\tRTR_DBG1(\"Warning: Zero field of received Prefix PDU doesn't contain 0\");", "new": "\t\t\t((struct pdu_ipv4 *)pdu)->zero = 0;"},
]
