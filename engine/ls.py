"""LS — lockset / typestate analysis on the flow engine.

lock_pairing(): every acquire of a lock expression is released exactly once on
every path to every return; no double acquire; no release of an unheld lock.

Lockset: guarded memory is declared per class by struct fields; every function
gets a summary need[class] in {None,'R','W'} for accesses it performs while its
own lock state is insufficient; needs propagate through the call graph
(parameter-relative needs are discharged by private actuals) up to entry points.
"""
from . import flow, vf, es
from .pdb import AnalysisBroken

LOCK_FUNCS = {"pthread_rwlock_rdlock": "R", "pthread_rwlock_wrlock": "W", "pthread_rwlock_unlock": "U",
              "pthread_mutex_lock": "W", "pthread_mutex_unlock": "U"}
ORDER = {None: 0, "R": 1, "W": 2}


def lock_name(fn, inst):
    """canonical lock expression of a lock call: (base expr, lock field)"""
    e = vf.expr(fn, inst.args[0])
    f = vf.last_field(e)
    if f is None:
        return (e, "?")
    base = e[1] if e[0] == "fld" else e
    return (base, f)


def lock_pairing(fn, pdb, retsets=None):
    """returns (problems, stats): problems = [(inst, msg)], stats = dict(acquires, releases, ret_states)"""
    problems = []
    stats = {"acquires": 0, "releases": 0, "rets": 0, "order": []}
    acq = [i for i in fn.calls() if i.callee in LOCK_FUNCS and LOCK_FUNCS[i.callee] != "U"]
    rel = [i for i in fn.calls() if i.callee in LOCK_FUNCS and LOCK_FUNCS[i.callee] == "U"]
    stats["acquires"] = len(acq)
    stats["releases"] = len(rel)
    if not acq and not rel:
        return problems, stats
    names = {}

    def nm(inst):
        ln = lock_name(fn, inst)
        if ln not in names:
            names[ln] = "L%d" % len(names)
        return names[ln]

    def classify(inst, E, st):
        if inst.op == "call" and inst.callee in LOCK_FUNCS:
            k = nm(inst)
            mode = LOCK_FUNCS[inst.callee]
            cur = st.get(k, "U")
            if mode == "U":
                if cur == "U":
                    problems.append((inst, "release of a lock that is not held on this path (%s)" % vf.show(lock_name(fn, inst)[0])))
                return ["=%s:U" % k]
            if cur != "U":
                problems.append((inst, "acquire of a lock already held on this path (%s)" % vf.show(lock_name(fn, inst)[0])))
            held = [x for x, v in st.items() if x.startswith("L") and v != "U" and x != k]
            for h in held:
                stats["order"].append((h, k, inst))
            return ["=%s:%s" % (k, mode)]
        if inst.op == "ret":
            held = [x for x, v in st.items() if x.startswith("L") and v != "U"]
            if held:
                inv = {v: k for k, v in names.items()}
                problems.append((inst, "return with lock still held: %s" % ", ".join(
                    vf.show(inv[h][0]) + "." + inv[h][1].split(".")[-1] for h in held)))
        return None
    outs, fl = es.count_effects(fn, pdb, classify, retsets)
    stats["rets"] = len(outs)
    stats["names"] = {v: (vf.show(k[0]), k[1]) for k, v in names.items()}
    # dedupe
    seen = set()
    uniq = []
    for inst, msg in problems:
        if (inst.id, msg) not in seen:
            seen.add((inst.id, msg))
            uniq.append((inst, msg))
    return uniq, stats


class Guard:
    """declaration of one lock class"""

    def __init__(self, name, lock_field, fields, ptr_types, call_needs=None, container_fields=()):
        self.name = name
        self.lock_field = lock_field          # e.g. 'pfx_table.lock'
        self.fields = set(fields)             # guarded 'struct.field' names (prefix 'struct.' means all fields)
        self.structs = {f[:-2] for f in fields if f.endswith(".*")}
        self.ptr_types = ptr_types            # DWARF type strings of pointers into guarded memory
        self.call_needs = call_needs or {}    # external callee -> need when given a guarded container
        self.container_fields = set(container_fields)

    def guards(self, field):
        if field is None:
            return False
        if field in self.fields:
            return True
        return field.split(".")[0] in self.structs


def _private_root(fn, e, fresh_calls=("lrtr_malloc", "lrtr_calloc", "lrtr_realloc", "malloc", "calloc")):
    r = vf.root_of(e)
    if isinstance(r, tuple):
        if r[0] == "alloca":
            return True
        if r[0] == "call" and r[1] in fresh_calls:
            return True
    return False


def _param_root(e):
    """if the object is reached from parameter k without passing through guarded loads: k"""
    r = vf.root_of(e)
    if isinstance(r, tuple) and r[0] == "arg":
        return r[1]
    return None


class LockSet:
    def __init__(self, pdb, guards, units, exempt=None, retsets=None):
        self.pdb = pdb
        self.guards = guards
        self.units = set(units)
        self.exempt = exempt or {}
        self.retsets = retsets
        self.fns = [f for f in pdb.all_functions() if f.unit in self.units]
        self.summ = {}     # (unit,name) -> {cls: [(need, origin_inst, chain, paramrel)]}
        self.accesses = 0

    # -- direct accesses of one instruction: list of (cls, need, object expr)
    def direct(self, fn, inst):
        out = []
        if inst.op in ("load", "store"):
            pe = vf.expr(fn, inst["ptr"])
            fld = vf.last_field(pe)
            for g in self.guards:
                if g.guards(fld):
                    out.append((g.name, "W" if inst.op == "store" else "R", pe))
        elif inst.op == "call" and inst.callee:
            cal = inst.callee
            if cal.startswith("llvm.memcpy") or cal.startswith("llvm.memmove") or cal.startswith("llvm.memset") or cal in ("memcpy", "memmove", "memset", "memcmp"):
                for k, need in ((0, "W" if cal != "memcmp" else "R"), (1, "R")):
                    if k >= len(inst.args) or (k == 1 and "memset" in cal):
                        continue
                    pe = vf.expr(fn, inst.args[k])
                    fld = vf.last_field(pe)
                    for g in self.guards:
                        if g.guards(fld):
                            out.append((g.name, need, pe))
            else:
                for g in self.guards:
                    need = g.call_needs.get(cal)
                    if need:
                        for a in inst.args:
                            pe = vf.expr(fn, a)
                            if vf.last_field(pe) in g.container_fields or any(f in g.container_fields for f in vf.fields_of(pe)):
                                out.append((g.name, need, pe))
                                break
        return out

    def analyse(self):
        """fixed point of needs; returns self"""
        pdb = self.pdb
        changed = True
        rounds = 0
        self.detail = {}
        while changed and rounds < 10:
            changed = False
            rounds += 1
            for f in self.fns:
                new = self._one(f)
                key = (f.unit, f.name)
                sig = {c: sorted({(n, -1 if pr is None else pr) for (n, _, _, pr) in v}) for c, v in new.items()}
                old = self.summ.get(key)
                oldsig = {c: sorted({(n, -1 if pr is None else pr) for (n, _, _, pr) in v}) for c, v in old.items()} if old else None
                if sig != oldsig:
                    self.summ[key] = new
                    changed = True
        return self

    def _one(self, fn):
        """needs of fn not covered by its own critical sections"""
        pdb = self.pdb
        guards = self.guards
        res = {}
        lockfields = {g.lock_field: g.name for g in guards}
        has_events = False
        for i in fn.all_insts():
            if self.direct(fn, i) or (i.op == "call" and i.callee and (i.callee in LOCK_FUNCS or self._callee_needs(fn, i))):
                has_events = True
                break
        if not has_events:
            return res
        found = []

        def classify(inst, E, st):
            if inst.op == "call" and inst.callee in LOCK_FUNCS:
                ln = lock_name(fn, inst)
                cls = lockfields.get(ln[1])
                if cls is None:
                    return None
                mode = LOCK_FUNCS[inst.callee]
                # several instances of one class may be held (swap): count per class by instance label
                k = "H:%s:%s" % (cls, vf.show(ln[0]))
                return ["=%s:%s" % (k, mode)]
            needs = []
            for (cls, need, pe) in self.direct(fn, inst):
                needs.append((cls, need, pe, inst, ()))
            if inst.op == "call" and inst.callee:
                for (cls, need, origin, chain, prel) in self._callee_needs(fn, inst):
                    pe = None
                    if prel is not None:
                        if prel < len(inst.args):
                            pe = vf.expr(fn, inst.args[prel])
                    needs.append((cls, need, pe, origin, chain + (inst,), ) if False else (cls, need, pe, origin, chain + (inst,)))
            for tup in needs:
                cls, need, pe, origin, chain = tup
                self.accesses += 1
                held = None
                for k, v in st.items():
                    if k.startswith("H:%s:" % cls) and v != "U":
                        if ORDER[v] > ORDER[held]:
                            held = v
                if ORDER[held] >= ORDER[need]:
                    continue
                prel = None
                if pe is not None:
                    if _private_root(fn, pe):
                        continue
                    prel = _param_root(pe)
                found.append((cls, need, origin, chain, prel))
            return None
        es.count_effects(fn, pdb, classify, self.retsets)
        seen = set()
        for (cls, need, origin, chain, prel) in found:
            k = (cls, need, origin.fn.name, origin.id, prel)
            if k in seen:
                continue
            seen.add(k)
            res.setdefault(cls, []).append((need, origin, chain, prel))
        return res

    def _callee_needs(self, fn, inst):
        g = self.pdb.resolve(fn, inst.callee)
        if g is None:
            return []
        s = self.summ.get((g.unit, g.name))
        if not s:
            return []
        out = []
        for cls, lst in s.items():
            for (need, origin, chain, prel) in lst:
                out.append((cls, need, origin, chain, prel))
        return out

    def unprotected(self, fname):
        f = self.pdb.fn(fname)
        return self.summ.get((f.unit, f.name), {})


# ---------------------------------------------------------------- lock order
def _held_at_calls(fn, pdb, retsets=None):
    """for every call instruction: set of lock names (base expr, field) held when it executes (may-held, over all states)"""
    held_at = {}

    def classify(inst, E, st):
        if inst.op != "call":
            return None
        if inst.callee in LOCK_FUNCS:
            ln = lock_name(fn, inst)
            mode = LOCK_FUNCS[inst.callee]
            held = frozenset(k for k, v in st.items() if isinstance(k, str) and k.startswith("K|") and v != "U")
            if mode != "U":
                held_at.setdefault(inst.id, set()).update(held)
            return ["=K|%d:%s" % (_intern(ln), mode)]
        held = frozenset(k for k, v in st.items() if isinstance(k, str) and k.startswith("K|") and v != "U")
        held_at.setdefault(inst.id, set()).update(held)
        return None
    es.count_effects(fn, pdb, classify, retsets)
    return {k: {_LOCKS[int(x.split("|")[1])] for x in v} for k, v in held_at.items()}


_LOCKS = []
_LOCKIDX = {}


def _intern(ln):
    if ln not in _LOCKIDX:
        _LOCKIDX[ln] = len(_LOCKS)
        _LOCKS.append(ln)
    return _LOCKIDX[ln]


def _subst(e, fn_args):
    """rewrite ('arg',k) in expression e by the caller's actual expressions"""
    if not isinstance(e, tuple):
        return e
    if e[0] == "arg":
        return fn_args[e[1]] if e[1] < len(fn_args) else ("?",)
    return tuple(_subst(x, fn_args) if isinstance(x, tuple) else x for x in e)


def _resolve_fields(fn, e, at):
    """replace loads of fields of local structs (allocas) by the value stored there that reaches `at`"""
    if not isinstance(e, tuple):
        return e
    if e[0] == "load" and isinstance(e[1], tuple) and e[1][0] == "fld" and isinstance(e[1][1], tuple) and e[1][1][0] == "alloca":
        st = vf.reaching_store(fn, e[1], at)
        if st is None:
            # any store to that field (structs initialised once)
            ss = [i for i in fn.all_insts() if i.op == "store" and vf.expr(fn, i["ptr"]) == e[1]]
            st = ss[0] if len(ss) == 1 else None
        if st is not None:
            return _resolve_fields(fn, vf.expr(fn, st["val"]), at)
        return e
    return tuple(_resolve_fields(fn, x, at) if isinstance(x, tuple) else x for x in e)


class LockOrder:
    """acquisition summaries and order edges, interprocedural, callback-aware"""

    def __init__(self, pdb, units, retsets=None):
        self.pdb = pdb
        self.units = set(units)
        self.retsets = retsets
        self._acq = {}
        self._hof = {}
        self._held = {}
        self._busy = set()

    def held(self, fn):
        k = (fn.unit, fn.name)
        if k not in self._held:
            self._held[k] = _held_at_calls(fn, self.pdb, self.retsets)
        return self._held[k]

    def hof(self, fn):
        """[(fp_param, [arg exprs passed], held locks)] : fn (transitively) calls its function-pointer parameter"""
        k = (fn.unit, fn.name)
        if k in self._hof:
            return self._hof[k]
        if k in self._busy:
            return []
        self._busy.add(k)
        out = []
        held = self.held(fn)
        for c in fn.calls():
            h = held.get(c.id, set())
            if c.callee is None:
                fe = vf.expr(fn, c["fptr"])
                if fe[0] == "arg":
                    out.append((fe[1], [vf.expr(fn, a) for a in c.args], set(h)))
            else:
                g = self.pdb.resolve(fn, c.callee)
                if g is None or g.unit not in self.units:
                    continue
                actual = [vf.expr(fn, a) for a in c.args]
                for (fp, args, gh) in self.hof(g):
                    if fp < len(actual) and actual[fp][0] == "arg":
                        out.append((actual[fp][1], [_subst(a, actual) for a in args],
                                    set(h) | {(_subst(b, actual), f) for (b, f) in gh}))
        self._busy.discard(k)
        self._hof[k] = out
        return out

    def acquisitions(self, fn, depth=0):
        """locks fn acquires (transitively), as (base expr over fn's params, field, mode, held-before set)"""
        k = (fn.unit, fn.name)
        if k in self._acq:
            return self._acq[k]
        if k in self._busy or depth > 8:
            return []
        self._busy.add(k)
        out = []
        held = self.held(fn)
        for c in fn.calls():
            h = held.get(c.id, set())
            if c.callee in LOCK_FUNCS:
                if LOCK_FUNCS[c.callee] != "U":
                    b, f = lock_name(fn, c)
                    b = _resolve_fields(fn, b, c)
                    out.append((b, f, LOCK_FUNCS[c.callee], set(h), c))
                continue
            if c.callee is None:
                continue
            g = self.pdb.resolve(fn, c.callee)
            if g is None or g.unit not in self.units:
                continue
            actual = [_resolve_fields(fn, vf.expr(fn, a), c) for a in c.args]
            for (b, f, mode, gh, site) in self.acquisitions(g, depth + 1):
                out.append((_subst(b, actual), f, mode, set(h) | {(_subst(x, actual), y) for (x, y) in gh}, c))
            # callbacks handed to a higher-order callee
            for (fp, args, gh) in self.hof(g):
                if fp < len(actual) and actual[fp][0] == "g":
                    cb = self.pdb.resolve(fn, actual[fp][1])
                    if cb is None:
                        continue
                    cbargs = [_subst(a, actual) for a in args]
                    hh = set(h) | {(_subst(x, actual), y) for (x, y) in gh}
                    for (b, f, mode, ch, site) in self.acquisitions(cb, depth + 1):
                        b2 = _resolve_fields(fn, _subst(b, cbargs), c)
                        out.append((b2, f, mode, hh | {(_resolve_fields(fn, _subst(x, cbargs), c), y) for (x, y) in ch}, c))
        self._busy.discard(k)
        self._acq[k] = out
        return out

    def edges(self, fn):
        """order edges (held lock -> acquired lock) inside fn, in terms of fn's own expressions"""
        es_ = []
        for (b, f, mode, h, site) in self.acquisitions(fn):
            for (hb, hf) in h:
                if (hb, hf) != (b, f):
                    es_.append(((hb, hf), (b, f), site))
        return es_
