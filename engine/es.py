"""ES — effect summaries on the CFG, built on the flow engine.

count_effects(): per return state, how often each effect symbol occurred on the
paths leading there (0, 1, 2=many), together with the abstract returned value.
Also structural helpers: canonical index loops, must-pass-through, who-may-call.
"""
from . import flow, vf
from .pdb import AnalysisBroken

MANY = 2


def fork(prop, _facts=None, **facts):
    d = {"__facts__": True}
    d.update(facts)
    if _facts:
        d.update(_facts)     # keys may be memory cells ("M", address expression)
    return (prop, d)


class CountHooks(flow.Hooks):
    """prop = tuple of (symbol, count) sorted; classify(inst, E, counts) -> symbol | [symbols] | None"""

    def __init__(self, fn, pdb, classify, retsets=None, init=None, cap=None, pinned=None, oracle=None, cell=None, values=None):
        self.values = values
        self.fn = fn
        self.pdb = pdb
        self.classify = classify
        self.retsets = retsets
        self.init = init or ()
        self.pinned_pred = pinned
        self.oracle = oracle
        self.cell = cell or {}
        if cap:
            self.cap = cap

    def init_prop(self):
        return tuple(sorted(self.init))

    def init_facts(self, fn):
        f = {}
        for k, v in self.cell.items():
            av = v if isinstance(v, tuple) and v and v[0] in ("in", "nin") else flow.av_in(v)
            if isinstance(k, int):
                f["a%d" % k] = av
            elif isinstance(k, str):
                f[k] = av
            else:
                f[("M", k)] = av
        return f

    def pinned(self, pe):
        if self.pinned_pred is not None:
            return self.pinned_pred(pe)
        return ("M", pe) in self.init_facts(self.fn) if self.cell else False

    def decide(self, inst, E):
        if self.oracle is None:
            return None
        return self.oracle(inst, inst["pred"], E.flow.expr(inst["a"]), E.flow.expr(inst["b"]), E)

    def load_value(self, pe, E):
        if self.values is None:
            return None
        v = self.values(pe)
        if v is None:
            return None
        return v if isinstance(v, tuple) else flow.av_in(v)

    def on_inst(self, inst, prop, E):
        r = self.classify(inst, E, dict(prop))
        if r is None:
            return prop
        if r is flow.KILL:
            return r
        if isinstance(r, list) and r and isinstance(r[0], tuple) and len(r[0]) == 2 and isinstance(r[0][1], dict):
            # explicit forks: [(symbols, facts), ...]
            out = []
            for syms, facts in r:
                out.append(fork(self._bump(prop, syms), facts))
            return out
        return self._bump(prop, r)

    @staticmethod
    def _bump(prop, syms):
        if syms is None:
            return prop
        if isinstance(syms, str):
            syms = [syms]
        d = dict(prop)
        for s in syms:
            if s.startswith("="):   # "=name:value" sets a typestate variable
                k, v = s[1:].rsplit(":", 1)
                d[k] = v
            else:
                d[s] = min(MANY, d.get(s, 0) + 1)
        return tuple(sorted(d.items()))

    def call_value(self, inst, E):
        if self.retsets is None or not inst.callee:
            return None
        g = self.pdb.resolve(self.fn, inst.callee)
        if g is None:
            return None
        s = self.retsets.get((g.unit, g.name))
        if s is None or s == "TOP" or not s:
            return None
        return ("in", frozenset(s))


def count_effects(fn, pdb, classify, retsets=None, init=None, cap=None, pinned=None, oracle=None, cell=None, values=None, start_block=None):
    h = CountHooks(fn, pdb, classify, retsets, init, cap, pinned, oracle, cell, values)
    if start_block is not None:
        h.start_block = start_block
    fl = flow.Flow(fn, h)
    fl.run()
    outs = []
    for (inst, prop, av, facts, tr) in fl.ret_states:
        outs.append({"inst": inst, "counts": dict(prop), "ret": av, "facts": facts, "trace": tr})
    return outs, fl


def ret_classes(av, universe=None):
    """possible concrete return values of an abstract value: set, or None if unbounded"""
    if av is None:
        return None
    if av[0] == "in":
        return set(av[1])
    if universe is not None:
        return set(universe) - set(av[1])
    return None


# ---------------------------------------------------------------- loops over arrays
def index_loops(fn):
    """canonical counted loops: header phi idx = [0, +1], exit test (idx <u bound).
    returns list of dict(header, phi, bound_ref, bound_expr, body(set of blocks), cmp)"""
    res = []
    loops = fn.loops()
    for h, body in loops.items():
        H = fn.blocks[h]
        for phi in H.insts:
            if phi.op != "phi":
                break
            inc = phi["inc"]
            init = [v for v, b in inc if b not in body]
            step = [v for v, b in inc if b in body]
            if len(init) != 1 or len(step) != 1:
                continue
            st = fn.inst(step[0])
            if st is None or st.op != "add":
                continue
            ops = {st["a"], st["b"]}
            if phi.ref not in ops or "#1" not in ops:
                continue
            # exit comparison on the phi
            for u in fn.uses(phi.ref):
                if u.op == "icmp" and u["pred"] in ("ult", "slt", "ne") and u["a"] == phi.ref and u.block.id in body:
                    res.append({"header": h, "phi": phi, "init": init[0], "bound_ref": u["b"],
                                "bound": vf.expr(fn, u["b"]), "body": body, "cmp": u})
    return res


def table_rows(fn, call):
    """a call made once per row of a local table (for (i = 0; i < N; i++) f(t[i].a, t[i].b)): the argument expressions of each of the N
    calls this stands for, with t[i].x replaced by what was stored into t[k].x before the loop.  None if the call does not read its
    arguments from such a table; AnalysisBroken-free: the caller decides what an incomplete table means."""
    args = [vf.expr(fn, a) for a in call.args]

    def tab(e):
        if e[0] == "load" and e[1][0] == "fld" and e[1][1][0] == "idx" and e[1][1][1][0] == "alloca" and e[1][1][2][0] == "phi":
            return e[1][1][1], e[1][1][2], e[1][2:]
        return None
    hits = [tab(e) for e in args if tab(e)]
    if not hits or len({(h[0], h[1]) for h in hits}) != 1:
        return None
    A, P = hits[0][0], hits[0][1]
    L = [l for l in index_loops(fn) if ("phi", l["phi"].id) == P and in_loop_body(l, call)]
    if not L or L[0]["init"] != "#0" or L[0]["bound"][0] != "c":
        return None
    nrows = L[0]["bound"][1]
    cells = {}
    for i in fn.all_insts():
        if i.op == "store":
            pe = vf.expr(fn, i["ptr"])
            if pe[0] == "fld" and pe[1][0] == "idx" and pe[1][1] == A:
                if pe[1][2][0] != "c" or not fn.dom(i, call) or i.block.id in L[0]["body"] or (pe[1][2][1], pe[2:]) in cells:
                    return None
                cells[(pe[1][2][1], pe[2:])] = vf.expr(fn, i["val"])
        elif i.op == "call" and (i.callee or "").startswith("llvm.mem") and vf.root_of(vf.expr(fn, i.args[0])) == A:
            return None
    rows = []
    for k in range(nrows):
        row = []
        for e in args:
            t = tab(e)
            if t:
                if (k, t[2]) not in cells:
                    return None
                row.append(cells[(k, t[2])])
            else:
                row.append(e)
        rows.append(row)
    return rows


def in_loop_body(loop, inst):
    return inst.block.id in loop["body"]


# ---------------------------------------------------------------- dominance helpers
def edge_dominates(fn, br, truth, inst):
    """the `truth` edge of conditional branch br dominates inst (i.e. inst only runs after that outcome)"""
    if "cond" not in br.d:
        return False
    tgt = br["t"] if truth else br["f"]
    other = br["f"] if truth else br["t"]
    if tgt == other:
        return False
    T = fn.blocks[tgt]
    # the edge dominates inst if tgt dominates inst's block and every path into tgt comes through this edge
    # (all other preds of tgt are dominated by tgt itself: loop back edges)
    if not fn.bdom(tgt, inst.block.id):
        return False
    for p in T.preds:
        if p == br.block.id:
            continue
        if not fn.bdom(tgt, p):
            return False
    return True


def guards_of(fn, inst):
    """branch conditions known on every path to inst: list of (cond_ref, truth, br).
    Short-circuit conditions (i1 phis of && / ||) are expanded into their conjuncts / disjuncts."""
    out = []
    for b in fn.blocks:
        t = b.term
        if t.op == "br" and "cond" in t.d:
            for truth in (True, False):
                if edge_dominates(fn, t, truth, inst):
                    out.append((t["cond"], truth, t))
    # expand a && b (phi [false, ..., b]) known true, and a || b (phi [true, ..., b]) known false
    seen = set()
    work = list(out)
    while work:
        cond, truth, br = work.pop()
        p = fn.inst(cond)
        if p is None or p.op != "phi" or p.get("ty") != "i1" or (cond, truth) in seen:
            continue
        seen.add((cond, truth))
        consts = [(v, b) for v, b in p["inc"] if v in ("#0", "#1")]
        others = [(v, b) for v, b in p["inc"] if v not in ("#0", "#1")]
        if len(others) != 1:
            continue
        short = "#0" if truth else "#1"
        if all(v == short for v, b in consts):
            v, pb = others[0]
            out.append((v, truth, br))
            work.append((v, truth, br))
            # the edge into the phi from the block that computed the last operand implies the earlier operands too
            for g in guards_of(fn, fn.blocks[pb].insts[-1]):
                if g not in out:
                    out.append(g)
                    work.append(g)
    return out


def callers_outside(pdb, callee, allowed):
    """call sites of `callee` in functions not in `allowed`"""
    return [i for i in pdb.callers(callee) if i.fn.name not in allowed]


# ---------------------------------------------------------------- normalised guards
_NEG = {"eq": "ne", "ne": "eq", "ult": "uge", "uge": "ult", "ule": "ugt", "ugt": "ule", "slt": "sge", "sge": "slt", "sle": "sgt", "sgt": "sle"}


class Guards:
    """what the dominating branch outcomes establish at an instruction, independent of how the condition was written
    (a <= b, !(a > b), b >= a, De Morgan'ed conjunctions ... all normalise to the same relation facts)"""

    def __init__(self, fn, inst):
        self.fn = fn
        self.rel = set()      # ('lt'|'le'|'eq'|'ne', a, b)
        self.truth = []       # (expr, bool) for non-comparison conditions
        for cond, t, br in guards_of(fn, inst):
            self._add(vf.expr(fn, cond), t)

    def _add(self, e, t):
        if e[0] == "icmp":
            pred = e[1] if t else _NEG.get(e[1], e[1])
            a, b = e[2], e[3]
            if pred == "eq":
                self.rel.add(("eq", a, b))
            elif pred == "ne":
                self.rel.add(("ne", a, b))
            elif pred in ("ult", "slt"):
                self.rel.add(("lt", a, b))
            elif pred in ("ule", "sle"):
                self.rel.add(("le", a, b))
            elif pred in ("ugt", "sgt"):
                self.rel.add(("lt", b, a))
            elif pred in ("uge", "sge"):
                self.rel.add(("le", b, a))
            # a comparison of a boolean-valued expression with 0 / 1 is that expression's truth
            for x, y in ((a, b), (b, a)):
                if y == ("c", 0) and pred in ("eq", "ne"):
                    self.truth.append((x, pred == "ne"))
                    if x[0] == "icmp":
                        self._add(x, pred == "ne")
        elif e[0] == "bin" and e[1] == "xor" and ("c", 1) in (e[2], e[3]):
            inner = e[2] if e[3] == ("c", 1) else e[3]
            self._add(inner, not t)
        else:
            self.truth.append((e, t))

    def eq(self, a, b):
        return ("eq", a, b) in self.rel or ("eq", b, a) in self.rel

    def ne(self, a, b):
        return ("ne", a, b) in self.rel or ("ne", b, a) in self.rel or self.lt(a, b) or self.lt(b, a)

    def lt(self, a, b):
        return ("lt", a, b) in self.rel

    def le(self, a, b):
        return ("le", a, b) in self.rel or ("lt", a, b) in self.rel or self.eq(a, b)

    def true(self, pred):
        """some condition expression satisfying pred is known true"""
        return any(t and pred(e) for e, t in self.truth)

    def false(self, pred):
        return any((not t) and pred(e) for e, t in self.truth)

    def find(self, rel, pa, pb):
        """relations (rel, a, b) with pa(a) and pb(b)"""
        return [(r, a, b) for (r, a, b) in self.rel if r == rel and pa(a) and pb(b)]

    def find_eq(self, pa, pb):
        return [(a, b) for (r, a, b) in self.rel if r == "eq" and pa(a) and pb(b)] + [(b, a) for (r, a, b) in self.rel if r == "eq" and pa(b) and pb(a)]

    def find_ne(self, pa, pb):
        return [(a, b) for (r, a, b) in self.rel if r == "ne" and pa(a) and pb(b)] + [(b, a) for (r, a, b) in self.rel if r == "ne" and pa(b) and pb(a)]

    def nonzero(self, x):
        return self.ne(x, ("c", 0)) or any(t and e == x for e, t in self.truth) or self.lt(("c", 0), x)

    def zero(self, x):
        return self.eq(x, ("c", 0)) or any((not t) and e == x for e, t in self.truth)


def ret_expr(fn, out):
    """expression of the value returned on the path of outcome `out` (a phi in the return block is resolved through the
    predecessor the path came from)"""
    ret = out["inst"]
    if "val" not in ret.d:
        return None
    e = vf.expr(fn, ret["val"])
    for _ in range(4):
        if e[0] != "phi":
            break
        tb = flow.trace_blocks(out["trace"])
        phi = fn.insts[e[1]]
        if phi.block.id not in tb:
            break
        k = len(tb) - 1 - tb[::-1].index(phi.block.id)
        pred = tb[k - 1] if k > 0 else None
        inc = [v for v, b in phi["inc"] if b == pred]
        if len(inc) != 1:
            break
        e = vf.expr(fn, inc[0])
    return e


# ---------------------------------------------------------------- list walks
def walk_loops(fn, next_field):
    """loops that walk a linked list through `next_field`: [{'phi', 'body', 'steps': [leaf exprs the cursor continues with],
    'exits': [(branch inst, truth taken, target block id)]}]"""
    out = []
    for h, body in fn.loops().items():
        for phi in fn.blocks[h].insts:
            if phi.op != "phi":
                break
            cur = ("phi", phi.id)

            def expand(e, seen=()):
                """all expressions `e` can stand for when the merge points inside it (phis other than the cursor) are resolved"""
                if not isinstance(e, tuple):
                    return [e]
                if e[0] == "phi" and e != cur:
                    if e[1] in seen or len(seen) > 3:
                        return [e]
                    return [x for vv, bb in fn.insts[e[1]]["inc"] for x in expand(vf.expr(fn, vv), seen + (e[1],))]
                if e == cur or e[0] in ("c", "arg", "alloca", "g", "null"):
                    return [e]
                outs = [()]
                for part in e:
                    alts = expand(part, seen) if isinstance(part, tuple) else [part]
                    outs = [o + (a,) for o in outs for a in alts][:16]
                return outs
            steps = [x for v, b in phi["inc"] if b in body for x in expand(vf.expr(fn, v))]
            if not any(vf.mentions(x, lambda y: y == ("fld", cur, next_field)) for x in steps):
                continue
            exits = []
            for b in sorted(body):
                t = fn.blocks[b].term
                if t.op == "br" and "cond" in t.d:
                    for truth, tgt in ((True, t["t"]), (False, t["f"])):
                        if tgt not in body:
                            exits.append((t, truth, tgt))
                elif t.op == "br":
                    for tgt in fn.blocks[b].succs:
                        if tgt not in body:
                            exits.append((t, None, tgt))
            out.append({"phi": phi, "cur": cur, "body": body, "steps": steps, "exits": exits})
    return out


def edge_facts(fn, br, truth):
    """Guards-style relation facts established by taking one outcome of a conditional branch"""
    g = Guards.__new__(Guards)
    g.fn, g.rel, g.truth = fn, set(), []
    if truth is not None:
        g._add(vf.expr(fn, br["cond"]), truth)
    return g


def fails_on_edge(fn, br, truth, success=0):
    """every way from the edge (br taken with `truth`) to a return hands back something else than the success code - decided with
    what taking the edge implies (if (rc != OK) break; ... return rc;)"""
    fl = flow.Flow(fn, flow.Hooks())
    fl.run(from_edge=(br, truth))
    rets = fl.ret_states
    if not rets:
        return False

    def excluded(av):
        if av is None:
            return False
        if av[0] == "in":
            return success not in av[1]
        return success in av[1]
    return all(excluded(av) for (i, p, av, f, tr) in rets)


def fails_only(fn, start_block):
    """every way from `start_block` to a return hands back a negative constant (an error exit)"""
    rets = fn.rets()
    seen, work, ok = set(), [(start_block, None)], True
    reached = False
    while work:
        b, pred = work.pop()
        B = fn.blocks[b]
        for r in rets:
            if r.block.id == b:
                reached = True
                e = vf.expr(fn, r["val"]) if "val" in r.d else None
                if e is not None and e[0] == "phi" and fn.insts[e[1]].block.id == b and pred is not None:
                    inc = [vf.expr(fn, v) for v, pb in fn.insts[e[1]]["inc"] if pb == pred]
                    e = inc[0] if len(inc) == 1 else None
                if not (e is not None and e[0] == "c" and isinstance(e[1], int) and e[1] < 0):
                    ok = False
        if (b, pred) in seen:
            continue
        seen.add((b, pred))
        for s_ in B.succs:
            if (s_, b) not in seen:
                work.append((s_, b))
    return reached and ok
