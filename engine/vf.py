"""VF — value flow / provenance helpers over the PDB (no execution).

expr(fn, ref): canonical, hashable expression tree of an SSA value:
  ('c', k) | ('arg', i) | ('g', name) | ('undef',)
  ('load', ptr) | ('fld', base, 'struct.field') | ('idx', base, index) | ('ptradd', base, index)
  ('call', callee, inst_id, (args...)) | ('phi', inst_id) | ('alloca', inst_id, name)
  ('bin', op, a, b) | ('icmp', pred, a, b) | ('select', c, a, b) | ('cast', op, a)  (only with keep_casts)
"""
from .pdb import AnalysisBroken

CASTS = {"zext", "sext", "trunc", "bitcast", "ptrtoint", "inttoptr", "addrspacecast", "freeze"}


def expr(fn, ref, depth=12, keep_casts=False, _memo=None):
    if ref.startswith("#"):
        try:
            return ("c", int(ref[1:]))
        except ValueError:
            return ("c", ref)
    if ref == "null":
        return ("c", 0)
    if ref.startswith("a") and ref[1:].isdigit():
        return ("arg", int(ref[1:]))
    if ref.startswith("@"):
        return ("g", ref[1:])
    if ref in ("undef", "zeroinit"):
        return ("undef",) if ref == "undef" else ("c", 0)
    i = fn.inst(ref)
    if i is None:
        return ("?", ref)
    if depth <= 0:
        return ("deep", i.id)
    op = i.op
    d = i.d
    if op == "load":
        p = d["ptr"]
        if p.startswith("@"):
            g = fn.pdb.glob_in(fn.unit, p[1:])
            if g and g.get("const") and isinstance(g.get("init"), int):
                return ("c", g["init"])
        return ("load", expr(fn, p, depth - 1, keep_casts))
    if op == "getelementptr":
        e = expr(fn, d["base"], depth - 1, keep_casts)
        path = d["path"]
        for k, s in enumerate(path):
            if s.startswith("["):
                ix = s[1:-1]
                if k == 0:
                    if ix != "#0":
                        bi = fn.inst(d["base"])
                        ixe = expr(fn, ix, depth - 1, keep_casts)
                        if bi is not None and bi.op == "getelementptr" and e[0] == "idx" and e[2][0] == "c" and ixe[0] == "c" and \
                                isinstance(e[2][1], int) and isinstance(ixe[1], int) and bi.d.get("resty") and bi.d.get("resty") == d.get("srcty"):
                            # &t[j] + n with both of the element type is &t[j + n] (how initialiser lists address their elements)
                            e = ("idx", e[1], ("c", e[2][1] + ixe[1]))
                        else:
                            e = ("ptradd", e, ixe, d.get("elsize", 0))
                else:
                    e = ("idx", e, expr(fn, ix, depth - 1, keep_casts))
            else:
                e = ("fld", e, s)
        return e
    if op in CASTS:
        a = expr(fn, d["a"], depth - 1, keep_casts)
        if keep_casts and op in ("trunc", "zext", "sext"):
            return ("cast", op, a, i.d.get("ty"))
        return a
    if op in ("call", "invoke"):
        return ("call", d.get("callee") or ("*" + str(expr(fn, d.get("fptr", "?"), 3))), i.id,
                tuple(expr(fn, a, min(depth - 1, 8), keep_casts) for a in d["args"]))
    if op == "phi":
        return ("phi", i.id)
    if op == "alloca":
        return ("alloca", i.id, d.get("name", ""))
    if op == "icmp":
        return ("icmp", d["pred"], expr(fn, d["a"], depth - 1, keep_casts), expr(fn, d["b"], depth - 1, keep_casts))
    if op == "select":
        return ("select", expr(fn, d["c"], depth - 1, keep_casts), expr(fn, d["a"], depth - 1, keep_casts),
                expr(fn, d["b"], depth - 1, keep_casts))
    if "a" in d and "b" in d:
        return ("bin", op, expr(fn, d["a"], depth - 1, keep_casts), expr(fn, d["b"], depth - 1, keep_casts))
    return ("op", op, i.id)


def show(e):
    """human-readable rendering of an expression"""
    if not isinstance(e, tuple):
        return str(e)
    k = e[0]
    if k == "c":
        return str(e[1])
    if k == "arg":
        return "arg%d" % e[1]
    if k == "g":
        return "@" + e[1]
    if k == "load":
        return "*" + show(e[1]) if e[1][0] not in ("fld", "idx") else show(e[1])
    if k == "fld":
        b = e[1]
        f = e[2].split(".", 1)[-1]
        if b[0] == "load":
            return show(b) + "->" + f
        return show(b) + "." + f
    if k == "idx":
        return "%s[%s]" % (show(e[1]), show(e[2]))
    if k == "ptradd":
        return "(%s + %s)" % (show(e[1]), show(e[2]))
    if k == "call":
        return "%s(%s)" % (e[1], ", ".join(show(a) for a in e[3]))
    if k == "phi":
        return "phi%d" % e[1]
    if k == "alloca":
        return "&" + (e[2] or "local%d" % e[1])
    if k == "bin":
        return "(%s %s %s)" % (show(e[2]), e[1], show(e[3]))
    if k == "icmp":
        return "(%s %s %s)" % (show(e[2]), e[1], show(e[3]))
    if k == "select":
        return "(%s ? %s : %s)" % (show(e[1]), show(e[2]), show(e[3]))
    if k == "cast":
        return "%s(%s)" % (e[1], show(e[2]))
    return str(e)


def fields_of(e):
    """list of struct.field names on the access path of a pointer/loaded value, outermost last"""
    out = []
    while isinstance(e, tuple):
        if e[0] == "fld":
            out.append(e[2])
            e = e[1]
        elif e[0] in ("load", "idx", "ptradd"):
            e = e[1]
        elif e[0] == "cast":
            e = e[2]
        else:
            break
    out.reverse()
    return out


def root_of(e):
    while isinstance(e, tuple) and e[0] in ("fld", "load", "idx", "ptradd", "cast"):
        e = e[2] if e[0] == "cast" else e[1]
    return e


def last_field(e):
    """for a pointer expression: the struct.field it addresses (through array indexing)"""
    while isinstance(e, tuple):
        if e[0] == "fld":
            return e[2]
        if e[0] in ("idx", "ptradd"):
            e = e[1]
            continue
        if e[0] == "cast":
            e = e[2]
            continue
        return None
    return None


def store_field(i):
    """struct.field written by a store instruction, or None"""
    return last_field(expr(i.fn, i["ptr"]))


def load_field(i):
    return last_field(expr(i.fn, i["ptr"]))


def mentions(e, pred):
    """does any sub-expression satisfy pred"""
    if pred(e):
        return True
    if isinstance(e, tuple):
        for x in e[1:]:
            if isinstance(x, tuple):
                if x and isinstance(x[0], tuple):
                    # an argument list: a tuple of expressions without a tag of its own
                    if any(mentions(y, pred) for y in x if isinstance(y, tuple)):
                        return True
                elif mentions(x, pred):
                    return True
    return False


def stores_to_field(pdb, field, units=None):
    """all store instructions in the program whose address is struct.field"""
    out = []
    for f in pdb.all_functions():
        if units and f.unit not in units:
            continue
        for i in f.all_insts():
            if i.op == "store" and store_field(i) == field:
                out.append(i)
            elif i.op in ("call",) and i.callee and i.callee.startswith("llvm.mem") and i.args:
                pass
    return out


def loads_of_field(pdb, field, units=None):
    out = []
    for f in pdb.all_functions():
        if units and f.unit not in units:
            continue
        for i in f.all_insts():
            if i.op == "load" and load_field(i) == field:
                out.append(i)
    return out


def strip_casts(fn, ref):
    while True:
        i = fn.inst(ref)
        if i is not None and i.op in CASTS:
            ref = i["a"]
        else:
            return ref


def is_const(e):
    return isinstance(e, tuple) and e[0] == "c" and isinstance(e[1], int)


def reaching_store(fn, pexpr, at):
    """the unique store to address `pexpr` that reaches instruction `at` on every path (latest dominating
    store with no other store to the same address in between), or None"""
    stores = [i for i in fn.all_insts() if i.op == "store" and expr(fn, i["ptr"]) == pexpr]
    doms = [s for s in stores if fn.dom(s, at) and s is not at]
    if not doms:
        return None
    latest = doms[0]
    for s in doms[1:]:
        if fn.dom(latest, s):
            latest = s
    for s in stores:
        if s is latest or s is at:
            continue
        if fn.reaches(latest, s) and fn.reaches(s, at) and not fn.dom(s, latest):
            return None
    return latest


def local_struct_stores(fn, pdb, alloca_inst):
    """stores into the fields of a local struct: list of (field name, offset, size, value expr, store inst)"""
    a = ("alloca", alloca_inst.id, alloca_inst.get("name", ""))
    out = []
    for i in fn.all_insts():
        if i.op != "store":
            continue
        pe = expr(fn, i["ptr"])
        if root_of(pe) != a:
            continue
        f = last_field(pe)
        if f is None:
            out.append((None, None, i["size"], expr(fn, i["val"], keep_casts=False), i))
            continue
        sname, fname = f.split(".", 1)
        off = None
        st = pdb.structs.get(sname)
        if st:
            for fl in st["fields"]:
                if fl["name"] == fname:
                    off = fl["off"]
        out.append((fname, off, i["size"], expr(fn, i["val"]), i))
    return out


def alloca_of(fn, ref):
    i = fn.inst(strip_casts(fn, ref))
    while i is not None and i.op == "getelementptr":
        i = fn.inst(strip_casts(fn, i["base"]))
    return i if i is not None and i.op == "alloca" else None
