"""Obligation bookkeeping, known findings, evidence and violation reports."""
import json
import os
import time

VERIF = os.path.dirname(os.path.dirname(os.path.abspath(__file__)))
KNOWN = os.path.join(VERIF, "known_findings.json")


def load_known():
    try:
        with open(KNOWN) as fh:
            return json.load(fh).get("findings", [])
    except FileNotFoundError:
        return []


class Ctx:
    """One run of one property's rules."""

    def __init__(self, prop, tier, seed, pdbs):
        self.prop = prop
        self.tier = tier
        self.seed = seed
        self._pdbs = pdbs
        self.obls = []          # all obligations (dicts)
        self.info = []          # informational notes for the evidence
        self.undecided = []     # clauses explicitly not decided
        self.assumptions = []
        self.rules = {}         # rule id -> description
        self.t0 = time.time()
        self.known = [k for k in load_known() if k.get("property") == prop]
        self.analysed_fns = set()
        self.witness = None
        self.regress = None

    # ---- program databases
    @property
    def pdb(self):
        return self._pdbs("asbuilt")

    @property
    def pdb_assert(self):
        return self._pdbs("assert")

    def pdbcfg(self, name):
        return self._pdbs(name)

    # ---- declaring
    _remap = None

    def shared(self, mapping):
        """context manager: rules of another property's spec run here under this property's rule ids
        (mapping: foreign rule id -> (own rule id, own text or None))"""
        ctx = self

        class _S:
            def __enter__(self_):
                self_.old = ctx._remap
                ctx._remap = dict(mapping)
                return ctx

            def __exit__(self_, *a):
                ctx._remap = self_.old
                return False
        return _S()

    def _rid(self, rid):
        if self._remap and rid in self._remap:
            return self._remap[rid][0]
        return rid

    def _rkey(self, key, rid_old, rid_new):
        if key and rid_old != rid_new and key.startswith(rid_old):
            return rid_new + key[len(rid_old):]
        return key

    def rule(self, rid, text):
        if self._remap and rid in self._remap:
            new, txt = self._remap[rid]
            self.rules[new] = txt or text
            return
        if self._remap is not None:
            return   # foreign rule not mapped: ignored here
        self.rules[rid] = text

    def touch(self, *fns):
        for f in fns:
            self.analysed_fns.add(f if isinstance(f, str) else f.name)

    def ok(self, rule, instance, where="", detail=""):
        if self._remap is not None and rule not in self._remap:
            return
        rule = self._rid(rule)
        self.obls.append({"rule": rule, "instance": instance, "where": where, "verdict": "holds", "detail": detail})

    def violation(self, rule, instance, where, detail, key=None, path=None, expected=None, found=None):
        """key: stable identity of the failing construct (no line numbers) used to match known findings"""
        if self._remap is not None and rule not in self._remap:
            return
        key = key or ("%s:%s" % (rule, instance))
        new_rule = self._rid(rule)
        key = self._rkey(key, rule, new_rule)
        rule = new_rule
        o = {"rule": rule, "instance": instance, "where": where, "verdict": "violation", "detail": detail,
             "key": key}
        if path:
            o["path"] = path
        if expected is not None:
            o["expected"] = expected
        if found is not None:
            o["found"] = found
        for k in self.known:
            if k.get("status") == "known" and k.get("key") == key:
                o["verdict"] = "known-finding"
                o["known"] = k.get("what", "")
        self.obls.append(o)

    def check(self, cond, rule, instance, where="", detail="", **kw):
        if cond:
            self.ok(rule, instance, where, detail)
        else:
            self.violation(rule, instance, where, detail, **kw)
        return cond

    def note(self, text):
        self.info.append(text)

    def not_decided(self, text):
        self.undecided.append(text)

    def assume(self, text):
        self.assumptions.append(text)

    def floor(self, rule, n, floor):
        from .pdb import AnalysisBroken
        if self._remap is not None and rule not in self._remap:
            return
        rule = self._rid(rule)
        if n < floor:
            raise AnalysisBroken("rule %s matched %d instances, fewer than its confirmed floor %d "
                                 "(anchor moved or idiom not recognised)" % (rule, n, floor))

    # ---- finishing
    def finish(self):
        import builtins
        import sys

        def print(*a, **k):   # a closed stdout (e.g. `| head`) must not change the verdict
            try:
                builtins.print(*a, **k)
            except BrokenPipeError:
                try:
                    sys.stdout = open(os.devnull, "w")
                except OSError:
                    pass
        viol = [o for o in self.obls if o["verdict"] == "violation"]
        known = [o for o in self.obls if o["verdict"] == "known-finding"]
        holds = [o for o in self.obls if o["verdict"] == "holds"]
        wall = time.time() - self.t0
        # a run against a scratch copy (tools/seeded.py --scratch) must not touch the reports / evidence of /repo's tree
        scratch = bool(os.environ.get("VERIF_SCRATCH_RUN"))
        rdir = os.path.join(VERIF, "reports", self.prop) if not scratch else os.path.join(os.environ.get("TMPDIR", "/tmp"), "rtrverif.reports.%d" % os.getpid(), self.prop)
        os.makedirs(rdir, exist_ok=True)
        for f in os.listdir(rdir):
            if f.endswith(".json"):
                os.unlink(os.path.join(rdir, f))
        print("[%s] tier=%s rules=%d obligations=%d holds=%d known=%d violations=%d functions=%d wall=%.1fs" % (
            self.prop, self.tier, len(self.rules), len(self.obls), len(holds), len(known), len(viol),
            len(self.analysed_fns), wall))
        for rid in sorted(self.rules):
            rs = [o for o in self.obls if o["rule"] == rid]
            print("  %-8s %3d obligations  %s" % (rid, len(rs), self.rules[rid][:150]))
        for o in known:
            print("KNOWN-FINDING: property=%s %s [%s] %s" % (self.prop, o["key"], o["where"], o.get("known", "")))
        n = 0
        for o in viol:
            n += 1
            p = os.path.join(rdir, "%d.json" % n)
            with open(p, "w") as fh:
                json.dump({"property": self.prop, **o, "rule_text": self.rules.get(o["rule"], "")}, fh, indent=1)
            print("  violation: rule=%s instance=%s at %s: %s" % (o["rule"], o["instance"], o["where"], o["detail"]))
            print("VIOLATION property=%s replay=%s" % (self.prop, p))
        # evidence
        distinct = set((o["rule"], o["instance"]) for o in self.obls)
        samples = []
        seen_rules = set()
        for o in self.obls:
            if o["rule"] not in seen_rules or o["verdict"] != "holds":
                seen_rules.add(o["rule"])
                samples.append({k: o[k] for k in ("rule", "instance", "where", "verdict", "detail") if k in o})
        ev = {
            "property_id": self.prop,
            "tier": self.tier,
            "seed": self.seed,
            "level": "other",
            "coverage": {
                "explanation": "static analysis of /repo's current working tree compiled to LLVM IR (clang -O0 -g + mem2reg, "
                               "every translation unit the build compiles); each obligation is one rule instance decided on "
                               "the IR (CFG dominance, path-sensitive dataflow with finite value sets, decision tables over "
                               "comparison-only inputs, call graph, DWARF layouts). No rtrlib code is executed.",
                "evaluations": len(self.obls),
                "distinct_nontrivial": len(distinct),
                "rule": "one obligation per (rule, construct) pair enumerated from the program database; an obligation is "
                        "counted only if it matched a real construct of the current tree (vacuous instances abort with exit 2)",
                "obligations": len(self.obls),
                "discharged": len(holds),
                "known_findings": len(known),
                "rules": self.rules,
                "per_rule": {r: sum(1 for o in self.obls if o["rule"] == r) for r in self.rules},
                "functions_analysed": sorted(self.analysed_fns),
                "units": self.pdb.units,
                "configurations": sorted(self._pdbs.loaded()),
                "not_decided": self.undecided,
                "notes": self.info,
                "samples": samples[:60],
                "exhaustive": True,
            },
            "assumptions": self.assumptions + [
                "clang-14 front end and mem2reg preserve source semantics; DWARF names and layouts are accurate",
                "user callbacks and user transports are opaque",
            ],
            "wall_s": round(wall, 3),
            "violations": len(viol),
        }
        if self.witness is not None:
            ev["coverage"]["witness"] = self.witness
        if self.regress is not None:
            ev["coverage"]["stored_changes"] = self.regress
        if scratch:
            import shutil
            shutil.rmtree(os.path.dirname(rdir), ignore_errors=True)
            return 1 if viol else 0
        os.makedirs(os.path.join(VERIF, "evidence"), exist_ok=True)
        with open(os.path.join(VERIF, "evidence", self.prop + ".json"), "w") as fh:
            json.dump(ev, fh, indent=1)
        return 1 if viol else 0
