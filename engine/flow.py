"""ESP-style path-sensitive dataflow (Das/Lerner/Seigle 2002) over one function's
CFG: abstract states are (property state, facts); facts map SSA values and
memory cells to small value sets; states are kept apart while they differ
(bounded disjunction), merged per property state beyond a cap.  Branches whose
condition is decided by the facts are followed on one side only.

This is abstract interpretation on the IR: no code of rtrlib runs, no solver.
Rules plug in through a Hooks object (events -> property state).
"""
from . import vf
from .pdb import AnalysisBroken, NORETURN

KILL = object()
MAXSET = 24

PURE = {"memcmp", "strlen", "strcmp", "strncmp", "strchr", "strrchr", "ntohl", "htonl", "ntohs", "htons",
        "llvm.bswap.i32", "llvm.bswap.i16", "llvm.bswap.i64", "lrtr_ip_addr_equal", "lrtr_ip_addr_get_bits",
        "lrtr_ipv4_get_bits", "lrtr_ipv6_get_bits", "lrtr_get_bits", "lrtr_ip_addr_is_zero", "lrtr_ipv4_addr_equal",
        "lrtr_ipv6_addr_equal", "lrtr_convert_long", "lrtr_convert_short", "abs", "llvm.expect.i64",
        "__builtin_expect", "llvm.stacksave", "llvm.stackrestore", "llvm.lifetime.start.p0i8",
        "llvm.lifetime.end.p0i8", "tommy_inthash_u32", "lrtr_dbg", "printf", "fprintf", "snprintf",
        "__errno_location", "strerror", "pthread_self", "llvm.dbg.value", "llvm.dbg.declare", "isdigit", "isxdigit",
        "ECDSA_size", "llvm.umul.with.overflow.i64", "llvm.objectsize.i64.p0i8"}


# ---------------------------------------------------------------- abstract values
def av_in(*ks):
    return ("in", frozenset(ks))


TOP = ("nin", frozenset())   # any value: what a load executed before an intervening write yields


def av_join(a, b):
    if a is None or b is None:
        return None
    if a == b:
        return a
    if a[0] == "in" and b[0] == "in":
        s = a[1] | b[1]
        return ("in", s) if len(s) <= MAXSET else None
    if a[0] == "nin" and b[0] == "nin":
        s = a[1] & b[1]
        return ("nin", s) if s else None
    if a[0] == "in":
        a, b = b, a
    s = a[1] - b[1]
    return ("nin", s) if s else None


def av_eq(a, k):
    """meet with {k}; returns new av or False if infeasible"""
    if a is None:
        return ("in", frozenset([k]))
    if a[0] == "in":
        return ("in", frozenset([k])) if k in a[1] else False
    return False if k in a[1] else ("in", frozenset([k]))


def av_ne(a, k):
    if a is None:
        return ("nin", frozenset([k]))
    if a[0] == "in":
        s = a[1] - {k}
        return ("in", s) if s else False
    return ("nin", a[1] | {k})


def av_single(a):
    if a is not None and a[0] == "in" and len(a[1]) == 1:
        return next(iter(a[1]))
    return None


def _width(ty):
    if ty and ty.startswith("i") and ty[1:].isdigit():
        return int(ty[1:])
    return 64


def _wrap(v, w, signed=True):
    v &= (1 << w) - 1
    if signed and w > 1 and v >= (1 << (w - 1)):
        v -= 1 << w
    return v


def _cmp(pred, a, b, w):
    if pred in ("ult", "ule", "ugt", "uge"):
        a &= (1 << w) - 1
        b &= (1 << w) - 1
    return {"eq": a == b, "ne": a != b, "slt": a < b, "sle": a <= b, "sgt": a > b, "sge": a >= b,
            "ult": a < b, "ule": a <= b, "ugt": a > b, "uge": a >= b}[pred]


class Hooks:
    """Rule interface; override what is needed."""
    cap = 48

    def init_prop(self):
        return ()

    def on_inst(self, inst, prop, E):
        return prop

    def on_ret(self, inst, prop, E):
        pass

    def on_end(self, inst, prop, E):
        """no-return end of a path (unreachable)"""
        pass

    def decide(self, inst, E):
        return None

    def call_value(self, inst, E):
        return None

    def on_edge(self, src, dst, prop, E):
        return prop

    def pure(self, callee):
        return callee in PURE

    def pinned(self, ptrexpr):
        """memory cell whose fact survives calls (declared input of a decision cell)"""
        return False

    def load_override(self, ptrexpr, E):
        """value of a load from `ptrexpr` that the decision cell fixes regardless of what was stored before"""
        return None

    def load_value(self, ptrexpr, E):
        """value of a load from `ptrexpr` fixed by the decision cell (consulted when no memory fact is known)"""
        return None

    def init_facts(self, fn):
        return {}


class Eval:
    """evaluation of SSA values under one state's facts"""

    def __init__(self, flow, facts):
        self.flow = flow
        self.fn = flow.fn
        self.facts = facts

    def expr(self, ref, **kw):
        return self.flow.expr(ref)

    def _has_phi(self, e, depth=0):
        if not isinstance(e, tuple) or depth > 6:
            return False
        if e and e[0] == "phi":
            return True
        return any(self._has_phi(x, depth + 1) for x in e if isinstance(x, tuple))

    def _concretise(self, e, depth=0):
        if not isinstance(e, tuple) or depth > 6:
            return e
        if e and e[0] == "phi" and len(e) == 2:
            k = av_single(self.val("%%%d" % e[1]))
            return ("c", k) if k is not None else e
        if e and e[0] == "bin" and len(e) == 4:
            a, b = self._concretise(e[2], depth + 1), self._concretise(e[3], depth + 1)
            if a[0] == "c" and b[0] == "c" and isinstance(a[1], int) and isinstance(b[1], int) and e[1] in ("add", "sub"):
                return ("c", a[1] + b[1] if e[1] == "add" else a[1] - b[1])
            return (e[0], e[1], a, b)
        if e and e[0] in ("idx", "ptradd") and len(e) >= 3 and isinstance(e[2], tuple) and len(e[2]) == 2 and e[2][0] == "arg":
            # an index that is a parameter with a value given for this evaluation (a table indexed by an enum argument)
            k = av_single(self.facts.get("a%d" % e[2][1]))
            if k is not None:
                return (e[0], self._concretise(e[1], depth + 1), ("c", k)) + tuple(e[3:])
        return tuple(self._concretise(x, depth + 1) if isinstance(x, tuple) else x for x in e)

    def _from_constant_copy(self, pe):
        """value of a cell of a local object whose bytes were copied from constant data (fact ("G", alloca) = (global, path))"""
        r = pe
        while isinstance(r, tuple) and r and r[0] in ("fld", "idx", "ptradd"):
            r = r[1]
        if not (isinstance(r, tuple) and r[0] == "alloca"):
            return None
        g = self.facts.get(("G", r[1]))
        if g is None:
            return None
        path = self.flow._const_path(self.resolve(pe))
        if path is None:
            return None
        gv = self.fn.pdb.glob_in(self.fn.unit, g[0])
        cur = gv.get("init") if gv else None
        for sgm in g[1] + tuple(reversed(path)):
            if cur is None:
                return None
            if isinstance(sgm, tuple):
                k = sgm[1]
            else:
                sname, fname = sgm.split(".", 1) if "." in sgm else (None, sgm)
                st = self.fn.pdb.structs.get(sname) if sname else None
                names = [f_["name"] for f_ in st["fields"]] if st else []
                if fname.startswith("#") and fname[1:].isdigit():
                    k = int(fname[1:])
                elif fname in names:
                    k = names.index(fname)
                else:
                    return None
            if not isinstance(cur, list) or not (0 <= k < len(cur)):
                return None
            cur = cur[k]
        return ("in", frozenset([cur])) if isinstance(cur, int) else None

    def alias_phis(self, e, depth=0):
        """e with every phi replaced by the expression of the value that reached it on this path (a cursor variable that still is
        the function's argument in the first round of a loop)"""
        if not isinstance(e, tuple) or depth > 8:
            return e
        if len(e) == 2 and e[0] == "phi":
            ref = "%%%d" % e[1]
            for _ in range(6):
                al = self.facts.get(("A", ref))
                if al is None:
                    break
                i = self.fn.inst(al)
                if i is not None and i.op == "phi":
                    ref = al
                    continue
                ex = self.flow.expr(al)
                if vf.mentions(ex, lambda x: x == e):
                    return e      # loop-carried: the value is written in terms of the variable's previous value, which is gone
                return self.alias_phis(ex, depth + 1)
            return e
        out = tuple(self.alias_phis(x, depth + 1) if isinstance(x, tuple) else x for x in e)
        return out if out != e else e

    def resolve(self, e):
        """an expression as it reads on this path: running indices by their value, cursor variables by what they stand for"""
        return self.alias_phis(self._concretise(e))

    def deref_locals(self, e, depth=0):
        """e with loads from single-assignment cells of local tables replaced by what was stored there"""
        lc = self.flow._localcells
        if not lc or not isinstance(e, tuple) or depth > 6:
            return e
        if len(e) == 2 and e[0] == "load":
            inner = self.deref_locals(e[1], depth + 1)
            if inner in lc:
                return self.flow.expr(lc[inner])
            return ("load", inner) if inner is not e[1] else e
        out = tuple(self.deref_locals(x, depth + 1) if isinstance(x, tuple) else x for x in e)
        return out if out != e else e

    def path_expr(self, ref):
        """expression of `ref` with phis replaced by the value that reached them on this path"""
        for _ in range(8):
            i = self.fn.inst(ref)
            if i is None:
                break
            if i.op == "phi":
                al = self.facts.get(("A", ref))
                if al is None:
                    break
                ref = al
            elif i.op == "select":
                c = av_single(self.val(i["c"]))
                if c is None:
                    break
                ref = i["a"] if c else i["b"]
            elif i.op == "bitcast":
                ref = i["a"]
            else:
                break
        e = self.flow.expr(ref)
        if self.flow._localcells and self._has_load(e):
            e2 = self.deref_locals(self._concretise(e))
            if e2 != e:
                return e2
        return e

    @staticmethod
    def _has_load(e):
        return vf.mentions(e, lambda x: isinstance(x, tuple) and len(x) == 2 and x[0] == "load")

    def val(self, ref, depth=10):
        if ref.startswith("#"):
            try:
                return ("in", frozenset([int(ref[1:])]))
            except ValueError:
                return None
        if ref == "null" or ref == "zeroinit":
            return ("in", frozenset([0]))
        f = self.facts.get(ref)
        if f is not None:
            return f
        i = self.fn.inst(ref)
        if i is None or depth <= 0:
            return None
        op, d = i.op, i.d
        if op in ("zext", "sext", "bitcast", "ptrtoint", "inttoptr", "freeze"):
            a = self.val(d["a"], depth - 1)
            if a is not None and op == "zext" and a[0] == "in":
                w = _width(d.get("fromty"))
                return ("in", frozenset(x & ((1 << w) - 1) for x in a[1]))
            if a is not None and op == "sext" and a[0] == "in" and _width(d.get("fromty")) == 1:
                return ("in", frozenset(-(x & 1) for x in a[1]))
            return a
        if op == "trunc":
            a = self.val(d["a"], depth - 1)
            w = _width(d.get("ty"))
            if a is None:
                return None
            if a[0] == "in":
                return ("in", frozenset(_wrap(x, w, w > 1) for x in a[1]))
            if w == 1 and 0 in a[1]:
                return ("in", frozenset([1]))  # _Bool storage is 0/1
            return None
        if op == "icmp":
            r = self.flow.hooks.decide(i, self)
            if r is not None:
                return ("in", frozenset([1 if r else 0]))
            a = self.val(d["a"], depth - 1)
            b = self.val(d["b"], depth - 1)
            return self._icmp(d["pred"], a, b, _width(d.get("opty")), d)
        if op == "xor" and d.get("ty") == "i1":
            for x, y in ((d["a"], d["b"]), (d["b"], d["a"])):
                if y in ("#1", "#-1"):
                    a = self.val(x, depth - 1)
                    if a is not None and a[0] == "in":
                        return ("in", frozenset(1 - (v & 1) for v in a[1]))
                    return None
        if op in ("and", "or") and d.get("ty") == "i1":
            a = av_single(self.val(d["a"], depth - 1))
            b = av_single(self.val(d["b"], depth - 1))
            if op == "and":
                if a == 0 or b == 0:
                    return av_in(0)
                if a is not None and b is not None:
                    return av_in(1)
            else:
                if (a is not None and a != 0) or (b is not None and b != 0):
                    return av_in(1)
                if a == 0 and b == 0:
                    return av_in(0)
            return None
        if op in ("add", "sub", "mul", "and", "or", "xor", "shl", "lshr", "ashr", "udiv", "sdiv", "urem", "srem"):
            a = self.val(d["a"], depth - 1)
            b = self.val(d["b"], depth - 1)
            if a is None or b is None or a[0] != "in" or b[0] != "in" or len(a[1]) * len(b[1]) > MAXSET:
                return None
            w = _width(d.get("ty"))
            out = set()
            for x in a[1]:
                for y in b[1]:
                    try:
                        ux, uy = x & ((1 << w) - 1), y & ((1 << w) - 1)
                        r = {"add": x + y, "sub": x - y, "mul": x * y, "and": x & y, "or": x | y, "xor": x ^ y,
                             "shl": x << (uy % w), "lshr": ux >> (uy % w), "ashr": x >> (uy % w),
                             "udiv": ux // uy if uy else None, "sdiv": int(x / y) if y else None,
                             "urem": ux % uy if uy else None, "srem": (abs(x) % abs(y)) * (1 if x >= 0 else -1) if y else None}[op]
                    except Exception:
                        r = None
                    if r is None:
                        return None
                    out.add(_wrap(r, w))
            return ("in", frozenset(out))
        if op == "select":
            c = av_single(self.val(d["c"], depth - 1))
            if c is not None:
                return self.val(d["a"] if c else d["b"], depth - 1)
            return av_join(self.val(d["a"], depth - 1), self.val(d["b"], depth - 1))
        if op == "load":
            if d["ptr"].startswith("@"):
                e = self.flow.expr(ref)
                if e[0] == "c" and isinstance(e[1], int):
                    return ("in", frozenset([e[1]]))
            g = self.fn.inst(d["ptr"])
            if g is not None and g.op == "getelementptr" and g["base"].startswith("@") and len(g["path"]) >= 2 and g["path"][0] == "[#0]":
                # element (or field of an element) of a constant table, indexed by values known on this path
                gv = self.fn.pdb.glob_in(self.fn.unit, g["base"][1:])
                if gv and gv.get("const") and isinstance(gv.get("init"), list):
                    cur = [gv["init"]]
                    ok = True
                    for sgm in g["path"][1:]:
                        nxt = []
                        if sgm.startswith("["):
                            ix = self.val(sgm[1:-1], depth - 1)
                            if ix is None or ix[0] != "in":
                                ok = False
                                break
                            for c in cur:
                                for k in ix[1]:
                                    if not isinstance(c, list) or not (0 <= k < len(c)):
                                        ok = False
                                        break
                                    nxt.append(c[k])
                        else:
                            sname, fname = sgm.split(".", 1) if "." in sgm else (None, sgm)
                            st = self.fn.pdb.structs.get(sname) if sname else None
                            names = [f_["name"] for f_ in st["fields"]] if st else []
                            if fname not in names:
                                ok = False
                                break
                            k = names.index(fname)
                            for c in cur:
                                if not isinstance(c, list) or k >= len(c):
                                    ok = False
                                    break
                                nxt.append(c[k])
                        if not ok:
                            break
                        cur = nxt
                    if ok and cur and all(isinstance(x, int) for x in cur) and len(cur) <= MAXSET:
                        return ("in", frozenset(cur))
            pe = self.flow.expr(d["ptr"])
            v = self._from_constant_copy(pe)
            if v is not None:
                return v
            v = self.flow.hooks.load_override(pe, self)
            if v is None:
                v = self.facts.get(("M", pe))
            if v is None:
                v = self.flow.hooks.load_value(pe, self)
            if v is None and self._has_phi(pe):
                # an index / address component that is a known constant on this path (a loop counter): ary[i] with i == 2 is ary[2]
                pe3 = self._concretise(pe)
                if pe3 != pe:
                    v = self.flow.hooks.load_override(pe3, self)
                    if v is None:
                        v = self.facts.get(("M", pe3))
                    if v is None:
                        v = self.flow.hooks.load_value(pe3, self)
            if v is None and self._has_phi(pe):
                # a cell addressed through a cursor variable: look it up under what the cursor stands for on this path
                pe5 = self.alias_phis(pe)
                if pe5 != pe:
                    v = self.flow.hooks.load_override(pe5, self)
                    if v is None:
                        v = self.facts.get(("M", pe5))
                    if v is None:
                        v = self.flow.hooks.load_value(pe5, self)
            if v is None and self.flow._localcells and self._has_load(pe):
                # the address comes out of a local table of pointers
                pe4 = self.deref_locals(self._concretise(pe))
                if pe4 != pe:
                    v = self.flow.hooks.load_override(pe4, self)
                    if v is None:
                        v = self.facts.get(("M", pe4))
                    if v is None:
                        v = self.flow.hooks.load_value(pe4, self)
            if v is None and pe[0] in ("phi", "select"):
                # the address was chosen on this path (p = c ? &a : &b): look the cell up under the address actually taken
                pe2 = self.path_expr(d["ptr"])
                if pe2 != pe:
                    v = self.flow.hooks.load_override(pe2, self)
                    if v is None:
                        v = self.facts.get(("M", pe2))
                    if v is None:
                        v = self.flow.hooks.load_value(pe2, self)
            return v
        if op in ("call", "invoke"):
            return self.flow.hooks.call_value(i, self) or None
        if op == "alloca" or op == "getelementptr":
            # addresses of objects are never null
            if op == "alloca":
                return ("nin", frozenset([0]))
            if len(d.get("path", ())) == 1 and d["path"][0].startswith("[") and d.get("elsize"):
                # pointer arithmetic on a pointer whose value is given for this evaluation (buf + done)
                b = self.val(d["base"], depth - 1)
                ix = self.val(d["path"][0][1:-1], depth - 1)
                if b is not None and ix is not None and b[0] == "in" and ix[0] == "in" and len(b[1]) * len(ix[1]) <= MAXSET:
                    return ("in", frozenset(x + y * d["elsize"] for x in b[1] for y in ix[1]))
            return None
        return None

    def _icmp(self, pred, a, b, w, d):
        if a is None or b is None:
            # same SSA value on both sides
            if d["a"] == d["b"]:
                return av_in(1 if pred in ("eq", "sle", "sge", "ule", "uge") else 0)
            # unsigned comparisons against zero are decided whatever the other side is
            za = a is not None and a == av_in(0)
            zb = b is not None and b == av_in(0)
            if za and pred in ("ule", "ugt"):
                return av_in(1 if pred == "ule" else 0)
            if zb and pred in ("uge", "ult"):
                return av_in(1 if pred == "uge" else 0)
            return None
        return self._icmp2(pred, a, b, w, d)

    def _icmp2(self, pred, a, b, w, d):
        if a[0] == "in" and b[0] == "in":
            if len(a[1]) * len(b[1]) > 64:
                return None
            rs = set(_cmp(pred, x, y, w) for x in a[1] for y in b[1])
            if len(rs) == 1:
                return av_in(1 if rs.pop() else 0)
            return None
        if pred in ("eq", "ne"):
            # in S vs nin T with S subset of T => definitely different
            if a[0] == "nin":
                a, b = b, a
            if a[0] == "in" and b[0] == "nin" and a[1] <= b[1]:
                return av_in(0 if pred == "eq" else 1)
        return None


class Flow:
    def __init__(self, fn, hooks, pdb=None, max_steps=400000):
        self.fn = fn
        self.pdb = pdb or fn.pdb
        self.hooks = hooks
        self.max_steps = max_steps
        self._expr = {}
        self.ret_states = []   # (inst, prop, av, facts)
        self.end_states = []
        self.steps = 0
        self.merged_blocks = set()
        self._useblocks = None
        self._loadkeys = None
        self._escaped = None
        self._localcells = {}
        self.decisions = 0

    def expr(self, ref):
        e = self._expr.get(ref)
        if e is None:
            e = vf.expr(self.fn, ref)
            self._expr[ref] = e
        return e

    # ---- liveness-ish pruning
    def _prep(self):
        fn = self.fn
        ub = {}
        lk = {}
        self._dynloads = {}
        for b in fn.blocks:
            from .pdb import operands
            for i in b.insts:
                for v in operands(i):
                    if v.startswith("%") or (v.startswith("a") and v[1:].isdigit()):
                        ub.setdefault(v, set()).add(b.id)
                if i.op == "load":
                    pe = self.expr(i["ptr"])
                    lk.setdefault(pe, set()).add(b.id)
                    if vf.mentions(pe, lambda x: isinstance(x, tuple) and x and x[0] in ("phi", "select")):
                        # t[i].f with a running index reads whichever cell of t the index names on the path
                        r = pe
                        while isinstance(r, tuple) and r and r[0] in ("fld", "idx", "ptradd"):
                            r = r[1]
                        self._dynloads.setdefault(r, set()).add(b.id)
        # a fact about r stays useful while anything computed from r (casts, compares, arithmetic, phis) is used
        derived = {}
        for i in fn.all_insts():
            if i.op in ("call", "invoke", "load", "store", "alloca", "br", "switch", "ret"):
                continue
            for v in operands(i):
                if v.startswith("%") or (v.startswith("a") and v[1:].isdigit()):
                    derived.setdefault(v, set()).add(i.ref)
        closed = {}
        for r in list(ub):
            seen = set()
            st = [r]
            acc = set()
            while st:
                x = st.pop()
                if x in seen:
                    continue
                seen.add(x)
                acc |= ub.get(x, set())
                st.extend(derived.get(x, ()))
            closed[r] = acc
        ub = closed
        self._useblocks = ub
        self._loadkeys = lk
        # loads whose value (or something computed from it) may be consumed after a later write to memory: used in another
        # block, or followed in their own block by a store or call.  Values are evaluated lazily from the memory facts, so
        # these loads are tracked: once their cell may have been overwritten they keep the value they had (see _settle)
        ll = set()
        for b in fn.blocks:
            n = len(b.insts)
            for idx, i in enumerate(b.insts):
                if i.op != "load":
                    continue
                if ub.get(i.ref, set()) - {b.id} or any(j.op in ("store", "call", "invoke") for j in b.insts[idx + 1:n]):
                    ll.add(i.ref)
        self._longlived = ll
        esc = set()
        for i in fn.all_insts():
            if i.op == "store":
                r = vf.root_of(vf.expr(fn, i["val"]))
                if isinstance(r, tuple) and r[0] == "alloca":
                    esc.add(r[1])
        self._escaped = esc
        # local tables of pointers (struct x **roots[] = {&a, &b}): cells of a local object that is only ever indexed, each
        # written by exactly one store - a load from such a cell is the value stored there
        def addr_root(e):
            # the object an address expression points into (not followed through loads)
            while isinstance(e, tuple) and e and e[0] in ("fld", "idx", "ptradd"):
                e = e[1]
            return e

        def canon(pe):
            # {&a, &b} is initialised through &t[0], &t[0] + 1, ...
            if pe[0] == "ptradd" and isinstance(pe[1], tuple) and pe[1][0] == "idx" and pe[1][2][0] == "c" and pe[2][0] == "c":
                return ("idx", pe[1][1], ("c", pe[1][2][1] + pe[2][1]))
            return pe
        touched = set()
        for i in fn.all_insts():
            if i.op in ("call", "invoke"):
                for a in i.args:
                    r = addr_root(self.expr(a))
                    if isinstance(r, tuple) and r[0] == "alloca":
                        touched.add(r[1])
        cells = {}
        for i in fn.all_insts():
            if i.op == "store":
                pe = canon(self.expr(i["ptr"]))
                r = addr_root(pe)
                if isinstance(r, tuple) and r[0] == "alloca" and r[1] not in esc and r[1] not in touched:
                    cells.setdefault(r[1], {}).setdefault(pe, []).append(i["val"])
        self._localcells = {}
        for aid, m in cells.items():
            if all(len(v) == 1 and not vf.mentions(pe, lambda x: isinstance(x, tuple) and x[0] in ("phi", "load", "call")) for pe, v in m.items()):
                for pe, v in m.items():
                    if pe[0] in ("idx", "ptradd"):
                        self._localcells[pe] = v[0]
        self._reach = {}
        for b in fn.blocks:
            self._reach[b.id] = fn.reachable_blocks(b.id) | {b.id}

    def _prune(self, facts, blk):
        reach = self._reach[blk]
        out = {}
        for k, v in facts.items():
            if isinstance(k, str):
                if self._useblocks.get(k, set()) & reach:
                    out[k] = v
            elif k[0] == "M":
                if self._loadkeys.get(k[1], set()) & reach or self.hooks.pinned(k[1]):
                    out[k] = v
                elif self._dynloads:
                    r = k[1]
                    while isinstance(r, tuple) and r and r[0] in ("fld", "idx", "ptradd"):
                        r = r[1]
                    if self._dynloads.get(r, set()) & reach:
                        out[k] = v
            elif k[0] in ("A", "U", "S"):
                if self._useblocks.get(k[1], set()) & reach:
                    out[k] = v
            else:
                out[k] = v
        return out

    # ---- loads executed before a write
    def _probe(self, facts):
        """facts plus a placeholder memory fact for the cell of every tracked load, so that the kill routines tell us which of
        those cells the coming write may change"""
        pr = None
        for k, pe in facts.items():
            if isinstance(k, tuple) and k[0] == "U" and ("M", pe) not in facts:
                if pr is None:
                    pr = {}
                pr[("M", pe)] = TOP
        if pr is None:
            return facts, None
        f2 = dict(facts)
        f2.update(pr)
        return f2, pr

    def _settle(self, before, after, probes):
        """after a write: `before` are the facts before it, `after` what the kill routine left of before + probes.  Every
        tracked load whose cell fact (real or placeholder) did not survive keeps the value it had before the write and is
        marked stale (a later refinement of its value no longer says anything about memory)"""
        stale = [k for k, pe in before.items() if isinstance(k, tuple) and k[0] == "U" and ("M", pe) not in after]
        if probes:
            for k in probes:
                after.pop(k, None)
        if stale:
            E = Eval(self, before)
            for k in stale:
                ref = k[1]
                if ref not in after:
                    v = E.val(ref)
                    after[ref] = v if v is not None else TOP
                after.pop(k, None)
                after[("S", ref)] = 1
        return after

    @staticmethod
    def _freeze(facts):
        return frozenset(facts.items())

    # ---- refinement
    def constrain(self, facts, ref, rel, k, depth=6):
        """facts with (ref rel k); returns False if infeasible.  rel in eq/ne"""
        E = Eval(self, facts)
        cur = E.val(ref)
        new = av_eq(cur, k) if rel == "eq" else av_ne(cur, k)
        if new is False:
            return False
        if ref.startswith("#") or ref == "null":
            return facts
        facts = dict(facts)
        facts[ref] = new
        i = self.fn.inst(ref)
        if i is None or depth <= 0:
            return facts
        if i.op in ("zext", "sext", "bitcast", "ptrtoint", "inttoptr", "freeze"):
            return self.constrain(facts, i["a"], rel, k, depth - 1)
        if i.op == "trunc" and _width(i.get("ty")) == 1:
            # i1 from a _Bool byte
            if (rel == "eq" and k == 0) or (rel == "ne" and k != 0):
                return self.constrain(facts, i["a"], "eq" if rel == "eq" else "ne", 0, depth - 1) if rel == "eq" else \
                    self.constrain(facts, i["a"], "eq", 0, depth - 1)
            return self.constrain(facts, i["a"], "ne", 0, depth - 1)
        if i.op == "load":
            if ("S", ref) not in facts:
                key = ("M", self.expr(i["ptr"]))
                facts[key] = new
            return facts
        if i.op == "phi":
            al = facts.get(("A", ref))
            if al is not None:
                return self.constrain(facts, al, rel, k, depth - 1)
            return facts
        if i.op == "icmp" and rel in ("eq", "ne") and k in (0, 1):
            truth = (k == 1) if rel == "eq" else (k == 0)
            return self.assume(facts, ref, truth, depth - 1)
        if i.op == "xor" and i.get("ty") == "i1" and rel in ("eq", "ne"):
            truth = (k == 1) if rel == "eq" else (k == 0)
            return self.assume(facts, ref, truth, depth - 1)
        return facts

    def _restrict(self, facts, ref, av, depth=4):
        """facts with the value of ref narrowed to av (through value-preserving casts, phi aliases and fresh loads)"""
        if not ref.startswith("%"):
            return facts
        facts = dict(facts)
        facts[ref] = av
        i = self.fn.inst(ref)
        if i is None or depth <= 0:
            return facts
        if i.op in ("sext", "bitcast", "freeze") or (i.op == "zext" and all(x >= 0 for x in av[1])):
            return self._restrict(facts, i["a"], av, depth - 1)
        if i.op == "load" and ("S", ref) not in facts and not i["ptr"].startswith("@"):
            facts[("M", self.expr(i["ptr"]))] = av
        elif i.op == "phi":
            al = facts.get(("A", ref))
            if al is not None and al.startswith("%"):
                return self._restrict(facts, al, av, depth - 1)
        return facts

    def assume(self, facts, ref, truth, depth=6):
        """facts refined with (ref is truth) for an i1 value; False if infeasible"""
        E = Eval(self, facts)
        cur = av_single(E.val(ref))
        if cur is not None:
            if bool(cur) != truth:
                return False
        i = self.fn.inst(ref)
        facts = dict(facts)
        if ref.startswith("%"):
            facts[ref] = av_in(1 if truth else 0)
        if i is None or depth <= 0:
            return facts
        op = i.op
        if op == "icmp":
            pred = i["pred"]
            if pred in ("eq", "ne"):
                a, b = i["a"], i["b"]
                ka, kb = av_single(E.val(a)), av_single(E.val(b))
                rel = "eq" if (pred == "eq") == truth else "ne"
                if kb is not None:
                    return self.constrain(facts, a, rel, kb, depth - 1)
                if ka is not None:
                    return self.constrain(facts, b, rel, ka, depth - 1)
            elif pred in ("slt", "sle", "sgt", "sge", "ult", "ule", "ugt", "uge"):
                # ordered test against a constant: a finite value set is filtered (retval in {0,-1,-3}, not (retval < 0) => {0})
                a, b = i["a"], i["b"]
                va, vb = E.val(a), E.val(b)
                ka, kb = av_single(va), av_single(vb)
                p = pred if truth else {"slt": "sge", "sle": "sgt", "sgt": "sle", "sge": "slt", "ult": "uge", "ule": "ugt", "ugt": "ule", "uge": "ult"}[pred]
                var, vs, k, swap = (a, va, kb, False) if kb is not None else (b, vb, ka, True)
                if k is not None and vs is not None and vs[0] == "in" and (p[0] == "s" or (k >= 0 and all(x >= 0 for x in vs[1]))):
                    if swap:
                        p = {"slt": "sgt", "sle": "sge", "sgt": "slt", "sge": "sle", "ult": "ugt", "ule": "uge", "ugt": "ult", "uge": "ule"}[p]
                    keep = {"lt": lambda x: x < k, "le": lambda x: x <= k, "gt": lambda x: x > k, "ge": lambda x: x >= k}[p[1:]]
                    sel = frozenset(x for x in vs[1] if keep(x))
                    if not sel:
                        return False
                    if sel != vs[1]:
                        return self._restrict(facts, var, ("in", sel))
            return facts
        if op == "xor" and i.get("ty") == "i1":
            for x, y in ((i["a"], i["b"]), (i["b"], i["a"])):
                if y in ("#1", "#-1"):
                    return self.assume(facts, x, not truth, depth - 1)
            return facts
        if op == "trunc":
            return self.constrain(facts, i["a"], "ne" if truth else "eq", 0, depth - 1)
        if op in ("zext", "freeze"):
            return self.assume(facts, i["a"], truth, depth - 1)
        if op == "and" and truth:
            f = self.assume(facts, i["a"], True, depth - 1)
            return self.assume(f, i["b"], True, depth - 1) if f is not False else False
        if op == "or" and not truth:
            f = self.assume(facts, i["a"], False, depth - 1)
            return self.assume(f, i["b"], False, depth - 1) if f is not False else False
        if op == "phi":
            al = facts.get(("A", ref))
            if al is not None and al.startswith("%"):
                return self.assume(facts, al, truth, depth - 1)
            return facts
        if op == "load":
            if ("S", ref) not in facts:
                facts[("M", self.expr(i["ptr"]))] = av_in(1 if truth else 0)
            return facts
        return facts

    @staticmethod
    def _const_path(e):
        """the access path of an address below its root when every index on it is a constant, else None"""
        out = []
        while isinstance(e, tuple) and e and e[0] in ("fld", "idx", "ptradd"):
            if e[0] == "fld":
                out.append(e[2])
            else:
                if not (isinstance(e[2], tuple) and e[2][0] == "c"):
                    return None
                out.append((e[0], e[2][1]))
            e = e[1]
        return tuple(out)

    # ---- memory kill
    def _kill_store(self, facts, pexpr):
        fld = vf.last_field(pexpr)
        root = vf.root_of(pexpr)
        out = {}
        for k, v in facts.items():
            if isinstance(k, tuple) and k[0] == "M":
                if k[1] == pexpr:
                    continue
                kroot = vf.root_of(k[1])
                kfld = vf.last_field(k[1])
                k_alloca = isinstance(kroot, tuple) and kroot[0] == "alloca"
                r_alloca = isinstance(root, tuple) and root[0] == "alloca"
                if k_alloca and r_alloca:
                    if kroot[1] != root[1]:
                        out[k] = v
                        continue
                    # same local object: distinct fields do not alias, nor do elements with different constant indices
                    if fld and kfld and fld != kfld:
                        out[k] = v
                    elif self._const_path(k[1]) is not None and self._const_path(pexpr) is not None and self._const_path(k[1]) != self._const_path(pexpr):
                        out[k] = v
                    continue
                if r_alloca and not k_alloca:
                    out[k] = v      # a store into a local object never changes other memory
                    continue
                if k_alloca and not r_alloca:
                    if kroot[1] not in self._escaped:
                        out[k] = v  # an unknown pointer can only reach locals whose address escaped
                    continue
                if fld and kfld and fld != kfld:
                    out[k] = v
                    continue
                # also facts whose address depends on the stored cell
                continue
            out[k] = v
        # facts about cells addressed through the overwritten cell are stale too
        dead = [k for k in out if isinstance(k, tuple) and k[0] == "M" and vf.mentions(k[1], lambda e: e == ("load", pexpr))]
        for k in dead:
            del out[k]
        return out

    def _kill_call(self, facts, inst):
        argroots = set()
        for a in inst.args:
            # the local object an argument points into - not the object a passed *value* was loaded from
            r = self.expr(a)
            while isinstance(r, tuple) and r and r[0] in ("fld", "idx", "ptradd"):
                r = r[1]
            if isinstance(r, tuple) and r[0] == "alloca":
                argroots.add(r[1])
        out = {}
        for k, v in facts.items():
            if isinstance(k, tuple) and k[0] == "M":
                kroot = vf.root_of(k[1])
                if isinstance(kroot, tuple) and kroot[0] == "alloca" and kroot[1] not in argroots \
                        and kroot[1] not in self._escaped:
                    out[k] = v
                elif self.hooks.pinned(k[1]):
                    out[k] = v
                continue
            if isinstance(k, tuple) and k[0] == "G" and (k[1] in argroots or k[1] in self._escaped):
                continue
            out[k] = v
        return out

    # ---- main loop
    def run(self, from_edge=None):
        """from_edge = (branch inst, truth): start on that edge with what taking it implies, instead of at the entry"""
        fn = self.fn
        self._prep()
        hooks = self.hooks
        entry_facts = dict(hooks.init_facts(fn))
        seen = {}    # block -> {prop -> set(frozen facts)}
        merged = {}  # (block, prop) -> facts dict (joined)
        # a decision cell may be evaluated from a block in the middle of the function: values defined before it are simply unknown
        work = [(getattr(hooks, "start_block", 0) or 0, hooks.init_prop(), entry_facts, None)]
        if from_edge is not None:
            br, truth = from_edge
            f0 = self.assume(entry_facts, br["cond"], truth)
            work = []
            if f0 is not False:
                self._edge(br.block, br["t"] if truth else br["f"], hooks.init_prop(), f0, None, work)
        while work:
            blk, prop, facts, trace = work.pop()
            self.steps += 1
            if self.steps > self.max_steps:
                raise AnalysisBroken("flow analysis of %s did not converge (%d steps)" % (fn.name, self.steps))
            facts = self._prune(facts, blk)
            key = (blk, prop)
            if key in merged:
                old = merged[key]
                new = self._joinfacts(old, facts)
                if new == old:
                    continue
                merged[key] = new
                facts = new
            else:
                sp = seen.setdefault(blk, {}).setdefault(prop, set())
                fz = self._freeze(facts)
                if fz in sp:
                    continue
                sp.add(fz)
                if len(sp) > hooks.cap:
                    j = None
                    for z in sp:
                        j = dict(z) if j is None else self._joinfacts(j, dict(z))
                    merged[key] = j
                    self.merged_blocks.add(blk)
                    facts = j
            trace = (trace, blk)
            self._run_block(fn.blocks[blk], prop, facts, trace, work)
        return self

    @staticmethod
    def _joinfacts(a, b):
        out = {}
        for k, v in a.items():
            w = b.get(k)
            if w is None:
                continue
            if isinstance(k, tuple) and k[0] in ("A", "U", "S", "G"):
                if v == w:
                    out[k] = v
                continue
            j = av_join(v, w)
            if j is not None:
                out[k] = j
        # a load that is tracked or stale on one side only is stale in the join, with whatever both sides agree on
        for x, y in ((a, b), (b, a)):
            for k in x:
                if isinstance(k, tuple) and k[0] in ("U", "S") and k not in out:
                    out.pop(("U", k[1]), None)
                    out[("S", k[1])] = 1
                    if k[1] not in out:
                        out[k[1]] = TOP
        return out

    def _run_block(self, B, prop, facts, trace, work):
        hooks = self.hooks
        fn = self.fn
        for inst in B.insts:
            op = inst.op
            if op == "phi":
                continue  # assigned on the edge
            # a re-executed definition (loop iteration) invalidates what was known about the old value
            r0 = inst.ref
            if r0 in facts or ("U", r0) in facts or ("S", r0) in facts or \
                    any(v == r0 for k, v in facts.items() if isinstance(k, tuple) and k[0] == "A"):
                facts = {k: v for k, v in facts.items() if k != r0 and not (isinstance(k, tuple) and (
                    (k[0] == "A" and v == r0) or (k[0] in ("U", "S") and k[1] == r0)))}
            E = Eval(self, facts)
            if op == "store":
                r = hooks.on_inst(inst, prop, E)
                if r is KILL:
                    return
                prop = r
                pe = self.expr(inst["ptr"])
                v = E.val(inst["val"])
                fp, probes = self._probe(facts)
                facts = self._settle(facts, self._kill_store(fp, pe), probes)
                if v is not None:
                    facts[("M", pe)] = v
                sr = pe
                while isinstance(sr, tuple) and sr and sr[0] in ("fld", "idx", "ptradd"):
                    sr = sr[1]
                if isinstance(sr, tuple) and sr[0] == "alloca" and ("G", sr[1]) in facts:
                    del facts[("G", sr[1])]
                continue
            if op in ("call", "invoke"):
                r = hooks.on_inst(inst, prop, E)
                if r is KILL:
                    return
                forks = None
                extra = None
                if isinstance(r, list):
                    # property state forks (e.g. callee succeeded / failed), optionally with the
                    # correlated facts: elements are prop or (prop, {ref: av})
                    forks = r[1:]
                    r = r[0]
                if isinstance(r, tuple) and len(r) == 2 and isinstance(r[1], dict) and r[1].get("__facts__"):
                    extra = r[1]
                    r = r[0]
                prop = r
                cal = inst.callee
                if cal and (cal.startswith("llvm.memcpy") or cal.startswith("llvm.memset") or cal.startswith("llvm.memmove") or cal in ("memcpy", "memset", "memmove")):
                    pe = self.expr(inst.args[0])
                    root = vf.root_of(pe)
                    r_alloca = isinstance(root, tuple) and root[0] == "alloca"
                    out = {}
                    before = facts
                    fp, probes = self._probe(facts)
                    for k, v in fp.items():
                        if isinstance(k, tuple) and k[0] == "M":
                            kr = vf.root_of(k[1])
                            k_alloca = isinstance(kr, tuple) and kr[0] == "alloca"
                            if r_alloca:
                                # writes a local object: only facts about that object die
                                if not (k_alloca and kr[1] == root[1]):
                                    out[k] = v
                            else:
                                if (k_alloca and kr[1] not in self._escaped) or hooks.pinned(k[1]):
                                    out[k] = v
                            continue
                        out[k] = v
                    facts = self._settle(before, out, probes)
                    # a local object filled from constant data (a const table declared inside the function is copied from a private
                    # global; an element of it copied into another local): remember where its bytes come from
                    if r_alloca:
                        facts = {k: v for k, v in facts.items() if not (isinstance(k, tuple) and k[0] == "G" and k[1] == root[1])}
                        if cal.startswith(("llvm.memcpy", "llvm.memmove", "memcpy", "memmove")) and pe == root and len(inst.args) > 2:
                            E0 = Eval(self, before)
                            se = E0.resolve(self.expr(inst.args[1]))
                            sroot = se
                            while isinstance(sroot, tuple) and sroot and sroot[0] in ("fld", "idx", "ptradd"):
                                sroot = sroot[1]
                            spath = self._const_path(se)
                            origin = None
                            if isinstance(sroot, tuple) and sroot[0] == "g" and spath is not None:
                                gv = self.fn.pdb.glob_in(self.fn.unit, sroot[1])
                                if gv and gv.get("const") and isinstance(gv.get("init"), list):
                                    origin = (sroot[1], tuple(reversed(spath)))
                            elif isinstance(sroot, tuple) and sroot[0] == "alloca" and spath is not None and ("G", sroot[1]) in before:
                                g0, p0 = before[("G", sroot[1])]
                                origin = (g0, p0 + tuple(reversed(spath)))
                            if origin is not None:
                                facts[("G", root[1])] = origin
                elif not (cal and hooks.pure(cal)):
                    fp, probes = self._probe(facts)
                    facts = self._settle(facts, self._kill_call(fp, inst), probes)
                if (cal in NORETURN) or inst.get("noreturn"):
                    hooks.on_end(inst, prop, Eval(self, facts))
                    self.end_states.append((inst, prop, facts, trace))
                    return
                base_facts = facts
                v = hooks.call_value(inst, Eval(self, facts))
                if v is False:
                    return  # callee never returns (bottom summary)
                if v is not None:
                    facts = dict(facts)
                    facts[inst.ref] = v
                if extra:
                    facts = self._apply_extra(facts, extra)
                if forks:
                    for fk in forks:
                        f2 = dict(base_facts)
                        if v is not None:
                            f2[inst.ref] = v
                        p2 = fk
                        if isinstance(fk, tuple) and len(fk) == 2 and isinstance(fk[1], dict) and fk[1].get("__facts__"):
                            p2 = fk[0]
                            f2 = self._apply_extra(f2, fk[1])
                        self._continue(B, inst, p2, f2, trace, work)
                continue
            if op == "ret":
                r = hooks.on_inst(inst, prop, E)
                if r is KILL:
                    return
                prop = r
                av = E.val(inst["val"]) if "val" in inst.d else None
                self.ret_states.append((inst, prop, av, facts, trace))
                hooks.on_ret(inst, prop, E)
                return
            if op == "unreachable":
                hooks.on_end(inst, prop, E)
                self.end_states.append((inst, prop, facts, trace))
                return
            if op == "br":
                r = hooks.on_inst(inst, prop, E)
                if r is KILL:
                    return
                prop = r
                if "cond" not in inst.d:
                    self._edge(B, inst["dest"], prop, facts, trace, work)
                    return
                c = av_single(E.val(inst["cond"]))
                if c is not None:
                    self.decisions += 1
                    self._edge(B, inst["t"] if c else inst["f"], prop, facts, trace, work)
                    return
                ft = self.assume(facts, inst["cond"], True)
                if ft is not False:
                    self._edge(B, inst["t"], prop, ft, trace, work)
                ff = self.assume(facts, inst["cond"], False)
                if ff is not False:
                    self._edge(B, inst["f"], prop, ff, trace, work)
                return
            if op == "switch":
                r = hooks.on_inst(inst, prop, E)
                if r is KILL:
                    return
                prop = r
                cv = E.val(inst["cond"])
                cases = inst["cases"]
                for k, dst in cases:
                    f2 = self.constrain(facts, inst["cond"], "eq", k)
                    if f2 is not False:
                        self._edge(B, dst, prop, f2, trace, work)
                f2 = facts
                for k, dst in cases:
                    f2 = self.constrain(f2, inst["cond"], "ne", k)
                    if f2 is False:
                        break
                if f2 is not False:
                    self._edge(B, inst["default"], prop, f2, trace, work)
                return
            r = hooks.on_inst(inst, prop, E)
            if r is KILL:
                return
            prop = r
            if op == "load" and inst.ref in self._longlived and not inst["ptr"].startswith("@"):
                facts = dict(facts)
                facts[("U", inst.ref)] = self.expr(inst["ptr"])

    def _apply_extra(self, facts, extra):
        """facts a hook attaches to one outcome of a call; a memory cell among them is a write by the callee"""
        cells = [k for k in extra if isinstance(k, tuple) and k[0] == "M"]
        if cells:
            after = {k: v for k, v in facts.items() if k not in cells}
            fp, probes = self._probe(facts)
            if probes:
                for k in probes:
                    if k not in cells:
                        after[k] = TOP
            facts = self._settle(facts, after, probes)
        else:
            facts = dict(facts)
        for k2, v2 in extra.items():
            if k2 != "__facts__":
                facts[k2] = v2
        return facts

    def _continue(self, B, after_inst, prop, facts, trace, work):
        """resume a forked property state right after `after_inst` in block B"""
        sub = _SubBlock(B, after_inst.idx + 1)
        self._run_block(sub, prop, facts, trace, work)

    def _edge(self, B, dst, prop, facts, trace, work):
        fn = self.fn
        D = fn.blocks[dst]
        E = Eval(self, facts)
        p2 = self.hooks.on_edge(B, D, prop, E)
        if p2 is KILL:
            return
        new = None
        for inst in D.insts:
            if inst.op != "phi":
                break
            for v, pb in inst["inc"]:
                if pb == B.id:
                    if new is None:
                        new = {}
                    new[inst.ref] = (E.val(v), v)
                    break
        if new:
            facts = dict(facts)
            for r, (av, src) in new.items():
                if av is not None:
                    facts[r] = av
                else:
                    facts.pop(r, None)
                if src.startswith("%") or src.startswith("a") or src.startswith("@"):
                    facts[("A", r)] = src
                else:
                    facts.pop(("A", r), None)
        work.append((dst, p2, facts, trace))


class _SubBlock:
    def __init__(self, B, start):
        self.id = B.id
        # `start` indexes the whole block, also when B is itself the rest of a block (a fork inside a forked continuation)
        self.full = getattr(B, "full", B.insts)
        self.insts = self.full[start:]
        self.succs = B.succs
        self.name = B.name


def trace_blocks(trace):
    out = []
    while trace is not None:
        trace, b = trace
        out.append(b)
    out.reverse()
    return out


def trace_lines(fn, trace, limit=40):
    """compact rendering of a path: the source lines of the block terminators passed"""
    bl = trace_blocks(trace)
    ls = []
    for b in bl:
        t = fn.blocks[b].insts[0]
        ln = next((i.line for i in fn.blocks[b].insts if i.line), 0)
        if ln and (not ls or ls[-1] != ln):
            ls.append(ln)
    if len(ls) > limit:
        ls = ls[:limit // 2] + ["..."] + ls[-limit // 2:]
    return ls


# ---------------------------------------------------------------- RV: return-value sets
class _RVHooks(Hooks):
    def __init__(self, summaries, pdb, fn):
        self.summaries = summaries
        self.pdb = pdb
        self.fn = fn

    def call_value(self, inst, E):
        cal = inst.callee
        if not cal:
            return None
        g = self.pdb.resolve(self.fn, cal)
        if g is None:
            return None
        s = self.summaries.get((g.unit, g.name))
        if s is None or s == "TOP":
            return None
        return ("in", frozenset(s)) if s else False


def return_sets(pdb, names=None):
    """fixed point of 'set of constants a function can return' over the call graph.
    Result: {(unit,name): frozenset | 'TOP'}"""
    fns = [f for f in pdb.all_functions() if f.d["ret"] not in ("void",) and not f.d["ret"].endswith("*")]
    summ = {(f.unit, f.name): frozenset() for f in fns}
    changed = True
    rounds = 0
    while changed and rounds < 12:
        changed = False
        rounds += 1
        for f in fns:
            key = (f.unit, f.name)
            if summ[key] == "TOP":
                continue
            fl = Flow(f, _RVHooks(summ, pdb, f))
            try:
                fl.run()
            except AnalysisBroken:
                summ[key] = "TOP"
                changed = True
                continue
            vals = set()
            top = False
            for (inst, prop, av, facts, tr) in fl.ret_states:
                if av is None or av[0] != "in":
                    top = True
                    break
                vals |= av[1]
            new = "TOP" if top or len(vals) > MAXSET else frozenset(vals)
            if new != summ[key]:
                # monotone: only grow
                if new == "TOP" or summ[key] == "TOP":
                    summ[key] = "TOP"
                else:
                    summ[key] = frozenset(summ[key] | new)
                changed = True
    return summ
