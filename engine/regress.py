"""Stored-change replay (thorough tier).

/verif/seeded/<Cxx>-m*/patch.diff are property-breaking changes written by independent
sub-agents (each compiles and passes the existing suite); /verif/refactors/*/patch.diff are
behaviour-preserving refactorings.  In the thorough tier every stored change of the property
under check is applied to a scratch copy of the *current* /repo tree (outside /repo and
/verif, removed at once) and the property's rules are evaluated on it:

  * every seeded change of this property must still raise a violation of this property
    (unless it is listed in seeded/DECLINED.json with the reason it is out of reach);
  * every stored refactoring must stay silent (or, for the rewrites listed in refactors/REFUSED.json with the reason, be
    answered with 'analysis broken', never with a violation).

A change whose patch no longer applies to the current tree is reported as context-missing
and counts for nothing.  Nothing is executed; this tests the checker, not rtrlib.  A missed
seeded change or an alarm on a refactoring makes the run analysis-broken (exit 2): the tree
under check is not at fault, the checker is.
"""
import json
import os
import shutil
import subprocess

from . import pdb as pdbmod
from .witness import scratch_copy, run_on

VERIF = os.path.dirname(os.path.dirname(os.path.abspath(__file__)))


def _apply_patch(root, patch):
    inc = "--include='rtrlib/*' --include='third-party/*' --include=CMakeLists.txt"
    r = subprocess.run("cd %s && git apply %s %s" % (root, inc, patch), shell=True, capture_output=True, text=True)
    return r.returncode == 0


def _one(job):
    prop, kind, name, patch, repo = job
    d = scratch_copy(repo)
    try:
        if not _apply_patch(d, patch):
            return {"id": name, "kind": kind, "status": "context-missing"}
        c, err = run_on(d, prop)
        from .report import load_known
        knownkeys = {k.get("key") for k in load_known() if k.get("status") == "known"}
        fired = [o for o in c.obls if o["verdict"] == "violation" and o.get("key") not in knownkeys]
        r = {"id": name, "kind": kind}
        if err and not fired:
            r["status"] = "analysis-" + err[:160]
        elif fired:
            r["status"] = "alarm"
            r["rules"] = sorted({o["rule"] for o in fired})
            r["first"] = "%s %s at %s" % (fired[0]["rule"], fired[0]["instance"], fired[0]["where"])
            if os.environ.get("VERIF_REPLAY_VERBOSE"):
                r["all"] = ["%s %s at %s: %s" % (o["rule"], o["instance"], o["where"], o.get("detail", "")) for o in fired]
        else:
            r["status"] = "silent"
        return r
    finally:
        shutil.rmtree(d, ignore_errors=True)


def _declined():
    p = os.path.join(VERIF, "seeded", "DECLINED.json")
    if os.path.exists(p):
        return json.load(open(p))
    return {}


def run(ctx, prop):
    if any(o["verdict"] == "violation" for o in ctx.obls):
        ctx.regress = {"skipped": "violations present on the analysed tree; stored changes not replayed"}
        return
    jobs = []
    sdir = os.path.join(VERIF, "seeded")
    declined = _declined()
    rp = os.path.join(VERIF, "refactors", "REFUSED.json")
    refused = json.load(open(rp)) if os.path.exists(rp) else {}
    for n in sorted(os.listdir(sdir)):
        p = os.path.join(sdir, n, "patch.diff")
        if n.startswith(prop + "-") and os.path.exists(p):
            jobs.append((prop, "seeded", n, p, pdbmod.REPO))
    rdir = os.path.join(VERIF, "refactors")
    if os.environ.get("VERIF_NO_REFACTORS") != "1":
        for n in sorted(os.listdir(rdir)):
            p = os.path.join(rdir, n, "patch.diff")
            if os.path.exists(p):
                jobs.append((prop, "refactoring", n, p, pdbmod.REPO))
    if not jobs:
        ctx.regress = {"count": 0}
        return
    from concurrent.futures import ProcessPoolExecutor
    import multiprocessing
    os.environ["VERIF_JOBS"] = "2"
    with ProcessPoolExecutor(max_workers=14, mp_context=multiprocessing.get_context("fork")) as ex:
        outs = list(ex.map(_one, jobs))
    bad = []
    for r in outs:
        if r["kind"] == "seeded":
            if r["id"] in declined:
                r["declined"] = declined[r["id"]]
                if r["status"] == "silent":
                    r["status"] = "declined"
            elif r["status"] == "silent":
                bad.append("seeded change %s no longer detected" % r["id"])
            elif r["status"].startswith("analysis-"):
                # an analysis-broken answer is neither pass nor violation: the change did not slip through
                r["status"] = "refused (" + r["status"] + ")"
        else:
            if r["status"] == "alarm":
                bad.append("false alarm on behaviour-preserving refactoring %s: %s" % (r["id"], r["first"]))
            elif r["status"].startswith("analysis-"):
                why = (refused.get(r["id"]) or {}).get(prop)
                if why:
                    # a rewrite of an anchored function into a form the rules were not written for: the check answers
                    # 'analysis broken' (exit 2) for it, which is neither a pass nor an alarm
                    r["status"] = "refused by design"
                    r["reason"] = why
                else:
                    bad.append("refactoring %s breaks the analysis: %s" % (r["id"], r["status"]))
    sd = [r for r in outs if r["kind"] == "seeded"]
    rf = [r for r in outs if r["kind"] == "refactoring"]
    print("  stored changes: %d/%d seeded changes of %s detected (%d declined, %d refused, %d context-missing); "
          "%d/%d refactorings silent (%d context-missing)" % (
              sum(1 for r in sd if r["status"] == "alarm"), len(sd), prop,
              sum(1 for r in sd if r["status"] == "declined"),
              sum(1 for r in sd if r["status"].startswith("refused")),
              sum(1 for r in sd if r["status"] == "context-missing"),
              sum(1 for r in rf if r["status"] == "silent"), len(rf),
              sum(1 for r in rf if r["status"] == "context-missing")))
    ctx.regress = {"seeded": sd, "refactorings_silent": sum(1 for r in rf if r["status"] == "silent"),
                   "refactorings_total": len(rf),
                   "refactorings_other": [r for r in rf if r["status"] != "silent"]}
    if bad:
        raise pdbmod.AnalysisBroken("; ".join(bad))
