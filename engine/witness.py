"""Rule self-validation (thorough tier): every witness is a small source edit that
breaks exactly one rule instance.  It is applied to a scratch copy of the
*current* /repo tree (outside /repo and /verif, removed at once), the IR is
rebuilt and the property's rules must fire and name the expected rule.

Nothing is executed; this tests the checker, not rtrlib.
"""
import importlib
import os
import shutil
import tempfile

from . import pdb as pdbmod
from .report import Ctx


def scratch_copy(repo):
    d = tempfile.mkdtemp(prefix="rtrverif.w.")
    for sub in ("rtrlib", "third-party"):
        shutil.copytree(os.path.join(repo, sub), os.path.join(d, sub))
    shutil.copy(os.path.join(repo, "CMakeLists.txt"), os.path.join(d, "CMakeLists.txt"))
    return d


def apply_edit(root, w):
    """returns True if the witness context applies"""
    edits = w.get("edits") or [(w["file"], w["old"], w["new"])]
    for (f, old, new) in edits:
        p = os.path.join(root, f)
        if not os.path.exists(p):
            return False
        s = open(p).read()
        if s.count(old) < 1:
            return False
        s = s.replace(old, new, 1)
        with open(p, "w") as fh:
            fh.write(s)
    return True


def run_on(repo, prop):
    """run property rules on another source tree; returns list of obligations"""
    spec = importlib.import_module("specs." + prop)
    cache = {}

    class P:
        def __call__(self, name):
            if name not in cache:
                cache[name] = pdbmod.PDB(pdbmod.prepare(pdbmod.build(repo, name, use_cache=False)))
            return cache[name]

        def loaded(self):
            return list(cache)
    c = Ctx(prop, "quick", 0, P())
    c.known = []   # known findings never hide a witness
    try:
        spec.check(c)
    except pdbmod.AnalysisBroken as e:
        return c, "broken: %s" % e
    return c, None


def _one(job):
    prop, w, repo = job
    d = scratch_copy(repo)
    try:
        if not apply_edit(d, w):
            return {"id": w["id"], "status": "context-missing"}, None
        c, err = run_on(d, prop)
        from .report import load_known
        knownkeys = {k.get("key") for k in load_known() if k.get("status") == "known"}
        fired = [o for o in c.obls if o["verdict"] == "violation" and o.get("key") not in knownkeys]
        hit = [o for o in fired if o["rule"] == w["rule"] or o["rule"] in w.get("also", ())]
        if err and not hit:
            return {"id": w["id"], "status": "analysis-" + err[:200]}, w["id"] + " (" + err[:80] + ")"
        if hit:
            return {"id": w["id"], "status": "detected", "rule": hit[0]["rule"], "instance": hit[0]["instance"],
                    "where": hit[0]["where"]}, None
        return {"id": w["id"], "status": "MISSED", "other_rules_fired": sorted({o["rule"] for o in fired})}, w["id"]
    finally:
        shutil.rmtree(d, ignore_errors=True)


def run(ctx, prop):
    spec = importlib.import_module("specs." + prop)
    ws = getattr(spec, "WITNESSES", [])
    if not ws:
        ctx.witness = {"count": 0}
        return
    if any(o["verdict"] == "violation" for o in ctx.obls):
        ctx.witness = {"skipped": "violations present on the analysed tree; witnesses not run"}
        return
    from concurrent.futures import ProcessPoolExecutor
    import multiprocessing
    os.environ["VERIF_JOBS"] = "3"
    results = []
    missed = []
    with ProcessPoolExecutor(max_workers=min(8, len(ws)), mp_context=multiprocessing.get_context("fork")) as ex:
        outs = list(ex.map(_one, [(prop, w, pdbmod.REPO) for w in ws]))
    for r, miss in outs:
        results.append(r)
        if miss:
            missed.append(miss)
    det = sum(1 for r in results if r["status"] == "detected")
    print("  witnesses: %d applied+detected, %d context-missing, %d missed" % (
        det, sum(1 for r in results if r["status"] == "context-missing"), len(missed)))
    ctx.witness = {"count": len(ws), "detected": det, "results": results}
    if missed:
        raise pdbmod.AnalysisBroken("witness variants not detected by their rule: %s" % ", ".join(missed))
