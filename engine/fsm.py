"""FSM — extraction of the socket state machine from rtr_fsm_start.

explore_arm(): abstract evaluation of one loop iteration of rtr_fsm_start with the
state comparison decided for one state K; outcomes are ordered event sequences
(calls with evaluated arguments, stores to socket fields) per combination of the
forked results of the calls the arm makes.

state_effects(): interprocedural summary — which socket states a function may set
(rtr_change_socket_state, transitively) and whether it performs a blocking receive,
per return value class.
"""
from . import flow, vf, es
from .pdb import AnalysisBroken

STATE = ("fld", ("arg", 0), "rtr_socket.state")
CHANGE = "rtr_change_socket_state"
ARMSTATE = ("X", "state set on this path")


class ArmHooks(flow.Hooks):
    cap = 200

    def __init__(self, fn, pdb, K, forks, cell, interesting, latch_blocks, effects=None):
        self.effects = effects or {}
        self.fn = fn
        self.pdb = pdb
        self.K = K
        self.forks = forks
        self.cell = cell or {}
        self.interesting = interesting
        self.latch = latch_blocks

    def init_prop(self):
        return ()

    def init_facts(self, fn):
        f = {}
        for k, v in self.cell.items():
            f[("M", k)] = v if isinstance(v, tuple) and v and v[0] in ("in", "nin") else flow.av_in(v)
        return f

    def pinned(self, pe):
        return ("M", pe) in self.init_facts(self.fn)

    def load_override(self, pe, E):
        # the state the arm is entered with - until rtr_change_socket_state on this path has set another one
        if pe == STATE:
            v = E.facts.get(ARMSTATE)
            return v if v is not None else flow.av_in(self.K)
        return None

    def on_inst(self, inst, prop, E):
        if inst.op == "br" and inst.block.id in self.latch:
            # end of this iteration of the state loop
            self.done.append((prop, dict(E.facts)))
            return flow.KILL
        if inst.op == "store":
            f = vf.store_field(inst)
            if f and f.startswith("rtr_socket.") and vf.root_of(vf.expr(self.fn, inst["ptr"])) == ("arg", 0):
                v = E.val(inst["val"])
                return prop + (("store", f.split(".", 1)[1], flow.av_single(v), inst.line),)
            return prop
        if inst.op == "call" and inst.callee:
            cal = inst.callee
            if cal in self.effects:
                # a callee that may change a pinned socket field: one continuation per listed outcome
                outs = []
                for label, upd in self.effects[cal]:
                    f2 = {"__facts__": True}
                    for k, v in upd.items():
                        f2[("M", k)] = flow.av_in(v)
                    outs.append((prop + (("call", cal, label, inst.line),), f2))
                return outs
            if cal in self.forks:
                outs = []
                for val in self.forks[cal]:
                    ev = ("call", cal, val, inst.line)
                    outs.append((prop + (ev,), {"__facts__": True, inst.ref: flow.av_in(val)}))
                return outs
            if cal == CHANGE:
                k = flow.av_single(E.val(inst.args[1]))
                if k is not None:
                    return [(prop + (("state", k, inst.line),), {"__facts__": True, ARMSTATE: flow.av_in(k)})]
                return prop + (("state", k, inst.line),)
            if cal in self.interesting:
                return prop + (("call", cal, None, inst.line),)
        return prop

    done = None


def explore_arm(pdb, K, forks=None, cell=None, interesting=(), effects=None):
    fn = pdb.fn("rtr_fsm_start")
    loops = fn.loops()
    if not loops:
        raise AnalysisBroken("rtr_fsm_start has no state loop")
    # outermost loop = the one with the largest body
    header = max(loops, key=lambda h: len(loops[h]))
    latch = {t for (t, h) in fn.back_edges() if h == header}
    h = ArmHooks(fn, pdb, K, forks or {}, cell, set(interesting), latch, effects)
    h.done = []
    fl = flow.Flow(fn, h)
    fl.run()
    outs = [{"events": p, "facts": f, "end": "loop"} for p, f in h.done]
    for (inst, prop, av, facts, tr) in fl.ret_states:
        outs.append({"events": prop, "facts": facts, "end": "ret"})
    for (inst, prop, facts, tr) in fl.end_states:
        outs.append({"events": prop, "facts": facts, "end": "exit:" + (inst.callee or inst.op)})
    return outs


def arms_present(pdb):
    """states K that have a `state == K` comparison in rtr_fsm_start"""
    fn = pdb.fn("rtr_fsm_start")
    ks = set()
    for i in fn.all_insts():
        if i.op == "icmp" and i["pred"] in ("eq", "ne"):
            a, b = vf.expr(fn, i["a"]), vf.expr(fn, i["b"])
            for x, y in ((a, b), (b, a)):
                if x == ("load", STATE) and y[0] == "c":
                    ks.add(y[1])
        if i.op == "switch" and vf.expr(fn, i["cond"]) == ("load", STATE):
            for k, dst in i["cases"]:
                if dst != i["default"]:
                    ks.add(k)
    # a label that is only there for completeness (case X: break;) is no arm: the iteration does nothing for that state, exactly as
    # when no comparison names it
    out = set()
    for k in ks:
        arm = explore_arm(pdb, k)
        if any(len([e for e in o["events"] if not (e[0] == "store" and e[1] == "state")]) > 0 or o["end"] != "loop" for o in arm) or not arm:
            out.add(k)
    return out


# ---------------------------------------------------------------- interprocedural state effects
BLOCKING_RECV = {"tr_recv_all", "tr_recv"}


def state_effects(pdb, fname, retsets, depth=0, _memo=None):
    """list of (ret value set or None, frozenset(states set), recv count 0/1/2, sleep count) per return state of fname"""
    if _memo is None:
        _memo = {}
    if fname in _memo:
        return _memo[fname]
    fn = pdb.fn(fname)
    _memo[fname] = []   # recursion guard
    callee_sum = {}

    def classify(inst, E, st):
        if inst.op != "call" or not inst.callee:
            return None
        cal = inst.callee
        if cal == CHANGE:
            k = flow.av_single(E.val(inst.args[1]))
            return ["S%s" % ("?" if k is None else k)]
        if cal in BLOCKING_RECV:
            return ["recv"]
        if cal == "sleep":
            return ["sleep"]
        g = pdb.resolve(fn, cal)
        if g is not None and g.unit.startswith("rtrlib/rtr/") and depth < 4:
            if cal not in callee_sum:
                callee_sum[cal] = state_effects(pdb, cal, retsets, depth + 1, _memo)
            outs = []
            seen = set()
            for (rv, states, recv, slp) in callee_sum[cal]:
                syms = ["S%s" % s for s in sorted(states, key=str)] + ["recv"] * recv + ["sleep"] * slp
                key = (rv, tuple(syms))
                if key in seen:
                    continue
                seen.add(key)
                facts = {}
                if rv is not None:
                    facts[inst.ref] = ("in", frozenset(rv))
                outs.append((syms, facts))
            if outs:
                return outs
        return None
    outs, fl = es.count_effects(fn, pdb, classify, retsets)
    res = []
    for o in outs:
        rv = o["ret"]
        rvs = frozenset(rv[1]) if rv is not None and rv[0] == "in" else None
        states = frozenset(k[1:] for k, v in o["counts"].items() if k.startswith("S") and v)
        res.append((rvs, states, o["counts"].get("recv", 0), o["counts"].get("sleep", 0)))
    res = sorted(set(res), key=str)
    _memo[fname] = res
    return res
