"""DT — decision tables: evaluate a function's IR in one *cell* of a finite, exact
partition of its inputs (abstract interpretation with the facts of the cell;
every branch on declared inputs is decided, so there is no join imprecision).

A cell gives  (a) concrete values for some arguments / memory cells, and/or
              (b) an oracle for comparisons between declared symbolic expressions.
The outcome of a cell is the set of abstract traces: returned value, events.
"""
from . import flow, vf
from .pdb import AnalysisBroken


class CellHooks(flow.Hooks):
    cap = 256

    def __init__(self, fn, pdb, cell, oracle=None, events=None, inline=None, call_values=None, depth=0):
        self.fn = fn
        self.pdb = pdb
        self.cell = cell or {}
        self.oracle = oracle
        self.events_spec = events
        self.undecided = []
        self.inline = inline or {}
        self.call_values = call_values or {}

    def init_prop(self):
        return ()

    def init_facts(self, fn):
        f = {}
        for k, v in self.cell.items():
            if isinstance(k, int):
                f["a%d" % k] = flow.av_in(v) if not isinstance(v, tuple) else v
            elif isinstance(k, str) and (k.startswith("a") or k.startswith("%")):
                f[k] = flow.av_in(v) if not isinstance(v, tuple) else v
            elif isinstance(k, tuple):
                f[("M", k)] = flow.av_in(v) if not isinstance(v, tuple) else v
        return f

    def decide(self, inst, E):
        if self.oracle is None:
            return None
        a = E.flow.expr(inst["a"])
        b = E.flow.expr(inst["b"])
        return self.oracle(inst, inst["pred"], a, b, E)

    def call_value(self, inst, E):
        cv = self.call_values.get(inst.callee)
        if cv is None:
            return None
        if callable(cv):
            return cv(inst, E)
        return cv

    def on_inst(self, inst, prop, E):
        if self.events_spec is None:
            return prop
        ev = self.events_spec(inst, E)
        if ev is None:
            return prop
        if len(prop) > 64:
            return prop
        return prop + (ev,)


def eval_cell(fn, pdb, cell=None, oracle=None, events=None, call_values=None):
    """returns list of outcomes: dict(ret=av, events=tuple, trace=..., facts=...)"""
    h = CellHooks(fn, pdb, cell, oracle, events, call_values=call_values)
    fl = flow.Flow(fn, h)
    fl.run()
    outs = []
    for (inst, prop, av, facts, tr) in fl.ret_states:
        outs.append({"ret": av, "events": prop, "trace": tr, "facts": facts, "inst": inst, "flow": fl})
    for (inst, prop, facts, tr) in fl.end_states:
        outs.append({"ret": "noreturn", "events": prop, "trace": tr, "facts": facts, "inst": inst, "flow": fl})
    return outs, fl


def arg_uses_compare_only(fn, argidx, allow=("icmp", "switch", "zext", "sext", "trunc", "getelementptr", "store", "phi", "call")):
    """is argument only compared / copied / used as an index?  returns (ok, offending ops, constants compared)"""
    consts = set()
    bad = []
    seen = set()
    work = ["a%d" % argidx]
    while work:
        r = work.pop()
        if r in seen:
            continue
        seen.add(r)
        for u in fn.uses(r):
            if u.op == "icmp":
                other = u["b"] if u["a"] == r else u["a"]
                if other.startswith("#"):
                    consts.add(int(other[1:]))
            elif u.op == "switch":
                for k, _ in u["cases"]:
                    consts.add(k)
            elif u.op in ("zext", "sext", "trunc", "freeze"):
                work.append(u.ref)
            elif u.op in ("getelementptr", "br", "select", "phi"):
                if u.op == "phi":
                    work.append(u.ref)
            elif u.op in ("call", "store", "ret"):
                pass
            else:
                bad.append(u.op)
    return (not bad), bad, consts


# ---------------------------------------------------------------- interprocedural cell evaluation
class InlineHooks(flow.Hooks):
    """cell evaluation with selected callees evaluated in place (their events are spliced into the caller's trace and
    their return value flows back).  Events: stores to fields reachable from pointer arguments, calls to `watch`."""
    cap = 256

    def __init__(self, fn, pdb, cell, inline, watch=(), oracle=None, depth=0, argmap=None, call_values=None):
        self.fn = fn
        self.pdb = pdb
        self.cell = cell or {}
        self.inline = set(inline)
        self.watch = set(watch)
        self.oracle = oracle
        self.depth = depth
        self.argmap = argmap or {}      # callee arg index -> caller-level description of the pointer
        self.call_values = call_values or {}

    def init_facts(self, fn):
        f = {}
        for k, v in self.cell.items():
            av = v if isinstance(v, tuple) and v and v[0] in ("in", "nin") else flow.av_in(v)
            if isinstance(k, int):
                f["a%d" % k] = av
            elif isinstance(k, tuple):
                f[("M", k)] = av
        return f

    def pinned(self, pe):
        return ("M", pe) in self.init_facts(self.fn)

    def decide(self, inst, E):
        if self.oracle is None:
            return None
        return self.oracle(inst, inst["pred"], E.flow.expr(inst["a"]), E.flow.expr(inst["b"]), E)

    def _ptr_name(self, e):
        """describe a pointer expression in terms of the top-level function's arguments"""
        r = vf.root_of(e)
        if isinstance(r, tuple) and r[0] == "arg" and r[1] in self.argmap:
            return self.argmap[r[1]]
        if isinstance(r, tuple) and r[0] == "arg":
            return "arg%d" % r[1]
        return vf.show(r)

    def on_inst(self, inst, prop, E):
        if inst.op == "store":
            pe = E.flow.expr(inst["ptr"])
            f = vf.last_field(pe)
            root = vf.root_of(pe)
            if f is not None and not (isinstance(root, tuple) and root[0] == "alloca"):
                v = E.val(inst["val"])
                return prop + (("store", self._ptr_name(pe), f, flow.av_single(v) if v is not None else None,
                                vf.show(E.flow.expr(inst["val"])) if flow.av_single(v) is None else None),)
            return prop
        if inst.op == "call" and inst.callee:
            cal = inst.callee
            if cal in self.inline and self.depth < 4:
                g = self.pdb.resolve(self.fn, cal)
                if g is not None:
                    cell = {}
                    amap = {}
                    for k, a in enumerate(inst.args):
                        av = E.val(a)
                        if av is not None:
                            cell[k] = av
                        ae = E.flow.expr(a)
                        amap[k] = self._ptr_name(ae)
                    h = InlineHooks(g, self.pdb, cell, self.inline, self.watch, None, self.depth + 1, amap, self.call_values)
                    fl = flow.Flow(g, h)
                    fl.run()
                    outs = []
                    seen = set()
                    for (ri, p2, av, facts, tr) in fl.ret_states:
                        key = (p2, av)
                        if key in seen:
                            continue
                        seen.add(key)
                        d = {"__facts__": True}
                        if av is not None:
                            d[inst.ref] = av
                        outs.append((prop + p2, d))
                    if outs:
                        return outs
            if cal in self.watch:
                args = tuple(flow.av_single(E.val(a)) for a in inst.args)
                return prop + (("call", cal, args),)
        return prop

    def call_value(self, inst, E):
        cv = self.call_values.get(inst.callee)
        if cv is None:
            return None
        return cv(inst, E) if callable(cv) else cv


def eval_inline(fn, pdb, cell, inline, watch=(), oracle=None, call_values=None):
    h = InlineHooks(fn, pdb, cell, inline, watch, oracle, 0, None, call_values)
    fl = flow.Flow(fn, h)
    fl.run()
    outs = []
    for (inst, prop, av, facts, tr) in fl.ret_states:
        outs.append({"ret": av, "events": prop, "inst": inst, "trace": tr})
    return outs
