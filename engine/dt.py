"""DT — decision tables: evaluate a function's IR in one *cell* of a finite, exact
partition of its inputs (abstract interpretation with the facts of the cell;
every branch on declared inputs is decided, so there is no join imprecision).

A cell gives  (a) concrete values for some arguments / memory cells, and/or
              (b) an oracle for comparisons between declared symbolic expressions.
The outcome of a cell is the set of abstract traces: returned value, events.
"""
from . import flow, vf
from .pdb import AnalysisBroken


class CellHooks(flow.Hooks):
    cap = 256

    def __init__(self, fn, pdb, cell, oracle=None, events=None, inline=None, call_values=None, depth=0):
        self.fn = fn
        self.pdb = pdb
        self.cell = cell or {}
        self.oracle = oracle
        self.events_spec = events
        self.undecided = []
        self.inline = inline or {}
        self.call_values = call_values or {}

    def init_prop(self):
        return ()

    def init_facts(self, fn):
        f = {}
        for k, v in self.cell.items():
            if isinstance(k, int):
                f["a%d" % k] = flow.av_in(v) if not isinstance(v, tuple) else v
            elif isinstance(k, str) and (k.startswith("a") or k.startswith("%")):
                f[k] = flow.av_in(v) if not isinstance(v, tuple) else v
            elif isinstance(k, tuple):
                f[("M", k)] = flow.av_in(v) if not isinstance(v, tuple) else v
        return f

    def decide(self, inst, E):
        if self.oracle is None:
            return None
        a = E.flow.expr(inst["a"])
        b = E.flow.expr(inst["b"])
        return self.oracle(inst, inst["pred"], a, b, E)

    def call_value(self, inst, E):
        cv = self.call_values.get(inst.callee)
        if cv is None:
            return None
        if callable(cv):
            return cv(inst, E)
        return cv

    def on_inst(self, inst, prop, E):
        if self.events_spec is None:
            return prop
        ev = self.events_spec(inst, E)
        if ev is None:
            return prop
        if len(prop) > 64:
            return prop
        return prop + (ev,)


def eval_cell(fn, pdb, cell=None, oracle=None, events=None, call_values=None):
    """returns list of outcomes: dict(ret=av, events=tuple, trace=..., facts=...)"""
    h = CellHooks(fn, pdb, cell, oracle, events, call_values=call_values)
    fl = flow.Flow(fn, h)
    fl.run()
    outs = []
    for (inst, prop, av, facts, tr) in fl.ret_states:
        outs.append({"ret": av, "events": prop, "trace": tr, "facts": facts, "inst": inst, "flow": fl})
    for (inst, prop, facts, tr) in fl.end_states:
        outs.append({"ret": "noreturn", "events": prop, "trace": tr, "facts": facts, "inst": inst, "flow": fl})
    return outs, fl


def arg_uses_compare_only(fn, argidx, allow=("icmp", "switch", "zext", "sext", "trunc", "getelementptr", "store", "phi", "call")):
    """is argument only compared / copied / used as an index?  returns (ok, offending ops, constants compared)"""
    consts = set()
    bad = []
    seen = set()
    work = ["a%d" % argidx]
    while work:
        r = work.pop()
        if r in seen:
            continue
        seen.add(r)
        for u in fn.uses(r):
            if u.op == "icmp":
                other = u["b"] if u["a"] == r else u["a"]
                if other.startswith("#"):
                    consts.add(int(other[1:]))
            elif u.op == "switch":
                for k, _ in u["cases"]:
                    consts.add(k)
            elif u.op in ("zext", "sext", "trunc", "freeze"):
                work.append(u.ref)
            elif u.op in ("getelementptr", "br", "select", "phi"):
                if u.op == "phi":
                    work.append(u.ref)
            elif u.op in ("call", "store", "ret"):
                pass
            else:
                bad.append(u.op)
    return (not bad), bad, consts
