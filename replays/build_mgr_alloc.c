/* F20 (found in the build round by C18.R2 "failure reported"): rtr_mgr_init / rtr_mgr_add_group return RTR_SUCCESS when the
 * allocation of a list node (or of the 2nd+ group copy) fails - the error code still holds the 0 of the preceding
 * rtr_mgr_init_sockets().  usage: build_mgr_alloc <k>  (fail the k-th allocation; prints what the two calls report) */
#include "rtrlib/rtrlib.h"
#include <stdio.h>
#include <stdlib.h>
#include <string.h>
static int countdown = -1;
static void *my_malloc(size_t n) { if (countdown > 0 && --countdown == 0) return NULL; return malloc(n); }
static void *my_realloc(void *p, size_t n) { if (countdown > 0 && --countdown == 0) return NULL; return realloc(p, n); }
static void my_free(void *p) { free(p); }
int main(int argc, char **argv)
{
	int k = argc > 1 ? atoi(argv[1]) : 0;
	struct tr_socket tr[3];
	struct rtr_socket s[3];
	struct rtr_socket *sp[3] = {&s[0], &s[1], &s[2]};
	struct rtr_mgr_group g[2];
	struct rtr_mgr_config *conf = (void *)1;

	memset(tr, 0, sizeof(tr)); memset(s, 0, sizeof(s));
	for (int i = 0; i < 3; i++) s[i].tr_socket = &tr[i];
	g[0].sockets = &sp[0]; g[0].sockets_len = 1; g[0].preference = 1;
	g[1].sockets = &sp[1]; g[1].sockets_len = 1; g[1].preference = 2;
	lrtr_set_alloc_functions(my_malloc, my_realloc, my_free);
	countdown = k;
	int r = rtr_mgr_init(&conf, g, 2, 3600, 7200, 600, NULL, NULL, NULL, NULL);
	countdown = -1;
	printf("rtr_mgr_init with allocation %d failing: returns %d, config=%p%s\n", k, r, (void *)conf,
	       (r == RTR_SUCCESS && !conf) ? "   <-- SUCCESS reported, no configuration" : "");
	if (r == RTR_SUCCESS && conf) {
		struct rtr_mgr_group g3; g3.sockets = &sp[2]; g3.sockets_len = 1; g3.preference = 3;
		for (int j = 1; j <= 2; j++) { /* both fail before any socket is started */
			unsigned int before = conf->len;
			countdown = j;
			r = rtr_mgr_add_group(conf, &g3);
			countdown = -1;
			printf("rtr_mgr_add_group with allocation %d failing: returns %d, groups %u -> %u%s\n", j, r, before, conf->len,
			       (r == RTR_SUCCESS && conf->len == before) ? "   <-- SUCCESS reported, nothing added" : "");
			if (conf->len != before) break;
		}
	}
	return 0;
}
