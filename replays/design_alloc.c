/* Design-phase replay (not a check): F12 (k-th allocation fails inside the
 * embedded hash table) and the dismissed F14 (wire prefix length > width).
 * See README.md.
 */
#include "rtrlib/rtrlib.h"
#include "rtrlib/spki/hashtable/ht-spkitable_private.h"
#include <stdio.h>
#include <stdlib.h>
#include <string.h>

static long n, fail_at = -1;

static void *m(size_t s)
{
	if (++n == fail_at)
		return NULL;
	return malloc(s);
}

static void *r(void *p, size_t s)
{
	if (++n == fail_at)
		return NULL;
	return realloc(p, s);
}

static void f(void *p)
{
	free(p);
}

int main(int argc, char **argv)
{
	if (argc > 2 && !strcmp(argv[1], "f12")) {
		struct spki_table t;
		struct rtr_socket s1;

		fail_at = atol(argv[2]);
		lrtr_set_alloc_functions(m, r, f);
		spki_table_init(&t, NULL);
		for (int i = 0; i < 40; i++) {
			struct spki_record rec;

			memset(&rec, 0, sizeof(rec));
			rec.asn = i;
			rec.ski[0] = i;
			rec.socket = &s1;
			int rc = spki_table_add_entry(&t, &rec);

			if (rc)
				printf("add %d -> %d\n", i, rc);
		}
		printf("F12: survived allocation failure #%ld\n", fail_at);
		return 0;
	}
	if (argc > 1 && !strcmp(argv[1], "f14")) {
		struct pfx_table t;
		struct pfx_record rec;
		enum pfxv_state st;
		struct lrtr_ip_addr q;

		pfx_table_init(&t, NULL);
		memset(&rec, 0, sizeof(rec));
		rec.asn = 1;
		rec.prefix.ver = LRTR_IPV4;
		rec.prefix.u.addr4.addr = 0x0a000000;
		rec.min_len = 40; /* what rtr_update_pfx_table stores for a wire prefix_len of 40 */
		rec.max_len = 8;
		printf("add 10.0.0.0/40 -> %d\n", pfx_table_add(&t, &rec));
		q.ver = LRTR_IPV4;
		q.u.addr4.addr = 0x0a000000;
		int rc = pfx_table_validate(&t, 1, &q, 32, &st);

		printf("validate -> %d state %d\n", rc, st);
		return 0;
	}
	return 1;
}
