#!/bin/sh
# Builds the design-phase replays in a scratch directory outside /repo and
# /verif, runs them, removes the scratch directory. Not used by any check.
set -eu
d=$(mktemp -d "${TMPDIR:-/tmp}/rtrverif-replay.XXXXXX")
trap 'rm -rf "$d"' EXIT
S="$(ls /repo/rtrlib/*.c /repo/rtrlib/*/*.c /repo/rtrlib/*/*/*.c /repo/third-party/tommyds/tommy.c)"
F="-g -O0 -I/repo -std=gnu99 -D LIBSSH_VERSION_MAJOR=0 -D LIBSSH_VERSION_MINOR=10 -w"
L="-lssh -lcrypto -lpthread -lrt"
here=$(dirname "$0")
clang $F -UNDEBUG -fsanitize=address,undefined $here/design_tables.c $S -o $d/tables $L
clang $F -DNDEBUG $here/design_spki.c $S -o $d/spki $L
clang $F -DNDEBUG -fsanitize=address $here/design_transport.c $S -o $d/transport $L
clang $F -UNDEBUG -fsanitize=address,undefined $here/design_alloc.c $S -o $d/alloc $L
export ASAN_OPTIONS=detect_leaks=0 MALLOC_PERTURB_=165
for a in f13 f9 f15 f16; do echo "=== tables $a"; $d/tables $a 2>&1 | head -8 || true; done
echo "=== spki"; $d/spki
for a in f1 f2 f3 f6 f7 f8 f17 f18; do echo "=== transport $a"; $d/transport $a 2>/dev/null | tail -n +4; done
for k in 1 35; do echo "=== alloc f12 $k"; $d/alloc f12 $k 2>&1 | grep -E "F12|SEGV|#[0-2] " | head -4 || true; done
echo "=== alloc f14"; $d/alloc f14 2>&1 | head -3
clang $F -DNDEBUG $here/design_bgpsec.c $S -o $d/bgpsec $L
echo "=== bgpsec (F5)"; $d/bgpsec 2>/dev/null | tail -1
clang $F -DNDEBUG -fsanitize=address $here/design_bgpsec.c $S -o $d/bgpsec_asan $L
echo "=== bgpsec f19"; $d/bgpsec_asan f19 2>&1 | grep -E "AddressSanitizer|#[23] .*rtrlib" | head -5 || true
clang $F -O1 -DNDEBUG -fsanitize=thread $here/design_race.c $S -o $d/race $L
echo "=== race (F10)"; $d/race 2>&1 | grep -E "WARNING: ThreadSanitizer|SUMMARY|#0 pfx" | head -6 || true
