/* Design-phase replay (not a check): F4 (no callbacks on removal by source),
 * F11 (entries released with libc free instead of the configured allocator).
 * See README.md.
 */
#include "rtrlib/rtrlib.h"
#include "rtrlib/spki/hashtable/ht-spkitable_private.h"
#include <stdio.h>
#include <stdlib.h>
#include <string.h>

static long nm, nf, cb_add, cb_del;

static void *m(size_t n)
{
	nm++;
	return malloc(n);
}

static void *r(void *p, size_t n)
{
	if (!p)
		nm++;
	return realloc(p, n);
}

static void f(void *p)
{
	if (p)
		nf++;
	free(p);
}

static void cb(struct spki_table *t, const struct spki_record rec, const bool added)
{
	(void)t;
	(void)rec;
	if (added)
		cb_add++;
	else
		cb_del++;
}

int main(void)
{
	struct spki_table t;
	struct rtr_socket s1, s2;

	lrtr_set_alloc_functions(m, r, f);
	spki_table_init(&t, cb);
	for (int i = 0; i < 10; i++) {
		struct spki_record rec;

		memset(&rec, 0, sizeof(rec));
		rec.asn = i;
		rec.ski[0] = i;
		rec.socket = (i % 2) ? &s1 : &s2;
		spki_table_add_entry(&t, &rec);
	}
	spki_table_src_remove(&t, &s1);
	printf("callbacks: added=%ld removed=%ld (5 removed by source)\n", cb_add, cb_del);
	spki_table_free(&t);
	printf("custom malloc=%ld custom free=%ld\n", nm, nf);
	return 0;
}
