/* Design-phase replay (not a check): F10 — pfx_table_for_each_ipv4_record
 * reads the root pointer before taking the table lock; a concurrent
 * pfx_table_add/remove writes it under the write lock. ThreadSanitizer
 * reports the data race on pfx_table.ipv4.
 */
#include "rtrlib/rtrlib.h"
#include <pthread.h>
#include <stdio.h>
#include <string.h>

static struct pfx_table t;
static volatile int stop;

static void cb(const struct pfx_record *r, void *d)
{
	(void)r;
	(*(long *)d)++;
}

static void *reader(void *arg)
{
	long n = 0;

	(void)arg;
	while (!stop)
		pfx_table_for_each_ipv4_record(&t, cb, &n);
	return NULL;
}

int main(void)
{
	pthread_t th;
	struct pfx_record r;

	pfx_table_init(&t, NULL);
	memset(&r, 0, sizeof(r));
	r.asn = 1;
	r.prefix.ver = LRTR_IPV4;
	r.prefix.u.addr4.addr = 0x0a000000;
	r.min_len = 8;
	r.max_len = 8;
	pthread_create(&th, NULL, reader, NULL);
	for (int i = 0; i < 20000; i++) {
		pfx_table_add(&t, &r);    /* root: NULL -> node */
		pfx_table_remove(&t, &r); /* root: node -> NULL */
	}
	stop = 1;
	pthread_join(th, NULL);
	printf("F10: done\n");
	return 0;
}
