/* Design-phase replay (not a check): F1, F2, F3, F6, F7, F8, F17, F18 with a
 * scripted in-memory transport. Build with -DNDEBUG like the library.
 * See README.md.
 */
#include "rtrlib/rtrlib.h"
#include "rtrlib/rtr/rtr_private.h"
#include "rtrlib/rtr/packets_private.h"
#include "rtrlib/pfx/pfx_private.h"
#include "rtrlib/spki/hashtable/ht-spkitable_private.h"
#include <arpa/inet.h>
#include <stdio.h>
#include <stdlib.h>
#include <string.h>

static unsigned char in[65536];
static size_t in_len, in_pos;
static int end_code = TR_WOULDBLOCK;
static unsigned char out[65536];
static size_t out_len;

static int f_open(void *s)
{
	(void)s;
	return TR_SUCCESS;
}

static void f_close(void *s)
{
	(void)s;
}

static void f_free(struct tr_socket *s)
{
	(void)s;
}

static int f_recv(const void *s, void *b, size_t n, time_t t)
{
	(void)s;
	(void)t;
	if (in_pos >= in_len)
		return end_code;
	size_t k = n < in_len - in_pos ? n : in_len - in_pos;

	memcpy(b, in + in_pos, k);
	in_pos += k;
	return k;
}

static int f_send(const void *s, const void *b, size_t n, time_t t)
{
	(void)s;
	(void)t;
	memcpy(out + out_len, b, n);
	out_len += n;
	return n;
}

static const char *f_ident(void *s)
{
	(void)s;
	return "fake";
}

static void put(const void *p, size_t n)
{
	memcpy(in + in_len, p, n);
	in_len += n;
}

static void hdr(uint8_t ver, uint8_t type, uint16_t sess, uint32_t len)
{
	uint8_t h[8] = {ver, type, sess >> 8, sess & 255, len >> 24, len >> 16, len >> 8, len};

	put(h, 8);
}

static void cache_response(uint16_t s)
{
	hdr(1, 3, s, 8);
}

static void eod(uint16_t s, uint32_t sn)
{
	uint32_t v[4] = {htonl(sn), htonl(3600), htonl(600), htonl(7200)};

	hdr(1, 7, s, 24);
	put(v, 16);
}

static void ipv4(uint8_t flags, uint8_t plen, uint8_t mlen, uint32_t pfx, uint32_t asn, uint32_t lenfield)
{
	uint8_t b[4] = {flags, plen, mlen, 0};
	uint32_t v[2] = {htonl(pfx), htonl(asn)};

	hdr(1, 4, 0, lenfield);
	put(b, 4);
	put(v, 8);
}

static void reset_io(void)
{
	in_len = in_pos = out_len = 0;
	end_code = TR_WOULDBLOCK;
}

static int count;

static void cnt(const struct pfx_record *r, void *d)
{
	char b[64];

	(void)d;
	count++;
	lrtr_ip_addr_to_str(&r->prefix, b, 64);
	printf("    rec %s/%u-%u AS%u\n", b, r->min_len, r->max_len, r->asn);
}

static void dump(struct pfx_table *t)
{
	count = 0;
	pfx_table_for_each_ipv4_record(t, cnt, NULL);
	printf("    (%d records)\n", count);
}

int main(int argc, char **argv)
{
	struct tr_socket tr = {NULL, f_open, f_close, f_free, f_send, f_recv, f_ident};
	struct pfx_table pfx;
	struct spki_table spki;
	struct rtr_socket s;
	const char *w = argc > 1 ? argv[1] : "";

	memset(&s, 0, sizeof(s));
	pfx_table_init(&pfx, NULL);
	spki_table_init(&spki, NULL);
	rtr_init(&s, &tr, &pfx, &spki, 3600, 7200, 600, RTR_INTERVAL_MODE_DEFAULT_MIN_MAX, NULL, NULL, NULL);
	s.state = RTR_SYNC;

	/* initial full sync: session 1, 10.0.0.0/8 AS1, serial 5 */
	reset_io();
	cache_response(1);
	ipv4(1, 8, 8, 0x0a000000, 1, 20);
	eod(1, 5);
	printf("initial sync -> %d  session=%u serial=%u last_update=%ld\n", rtr_sync(&s), s.session_id,
	       s.serial_number, (long)s.last_update);
	dump(&pfx);

	if (!strcmp(w, "f1")) {
		reset_io();
		s.state = RTR_SYNC;
		cache_response(2);
		ipv4(1, 8, 8, 0x0b000000, 2, 20);
		eod(1, 6);
		printf("F1: foreign-session Cache Response(2) then +11/8, EOD(1,6) -> rtr_sync=%d serial=%u state=%s\n",
		       rtr_sync(&s), s.serial_number, rtr_state_to_str(s.state));
		dump(&pfx);
	}
	if (!strcmp(w, "f2")) {
		reset_io();
		s.state = RTR_SYNC;
		cache_response(1);
		ipv4(1, 8, 8, 0x0c000000, 3, 20);
		ipv4(0, 8, 8, 0x0c000000, 3, 20);
		ipv4(1, 8, 8, 0x0d000000, 4, 20);
		ipv4(0, 8, 8, 0x0e000000, 5, 20);
		eod(1, 6);
		printf("F2: +12/8 -12/8 +13/8 -14/8(unknown) -> rtr_sync=%d serial=%u request_reset=%d\n", rtr_sync(&s),
		       s.serial_number, s.request_session_id);
		dump(&pfx);
	}
	if (!strcmp(w, "f3")) {
		reset_io();
		s.state = RTR_SYNC;
		s.request_session_id = true; /* as the state machine does after Cache Reset */
		cache_response(7);
		ipv4(1, 8, 8, 0x0a000000, 1, 20);
		end_code = TR_ERROR;
		printf("F3: reload interrupted by transport error -> rtr_sync=%d last_update=%ld request_reset=%d\n",
		       rtr_sync(&s), (long)s.last_update, s.request_session_id);
		dump(&pfx);
		reset_io();
		s.state = RTR_SYNC;
		cache_response(7);
		ipv4(1, 8, 8, 0x0a000000, 1, 20);
		eod(7, 1);
		printf("    next full load -> rtr_sync=%d state=%s\n", rtr_sync(&s), rtr_state_to_str(s.state));
		dump(&pfx);
	}
	if (!strcmp(w, "f6")) {
		struct rtr_socket n;

		memset(&n, 0, sizeof(n));
		rtr_init(&n, &tr, &pfx, &spki, 3600, 7200, 600, 0, NULL, NULL, NULL);
		n.state = RTR_SYNC;
		reset_io();
		end_code = TR_CLOSED;
		printf("F6: cache hangs up before any session -> rtr_sync=%d version=%u state=%s\n", rtr_sync(&n),
		       n.version, rtr_state_to_str(n.state));
	}
	if (!strcmp(w, "f7")) {
		uint32_t l, e;

		reset_io();
		s.state = RTR_SYNC;
		cache_response(1);
		eod(9, 6);
		int r = rtr_sync(&s);

		memcpy(&l, out + 4, 4);
		memcpy(&e, out + 8, 4);
		printf("F7: EOD with session 9 -> rtr_sync=%d bytes sent=%zu, length field=%u (max %u), encapsulated=%u\n",
		       r, out_len, ntohl(l), RTR_MAX_PDU_LEN, ntohl(e));
	}
	if (!strcmp(w, "f8")) {
		uint8_t pad = 0;

		reset_io();
		s.state = RTR_SYNC;
		cache_response(1);
		ipv4(1, 8, 8, 0x0b000000, 2, 21);
		put(&pad, 1);
		int r = rtr_sync(&s);

		printf("F8: IPv4 PDU with length 21 -> rtr_sync=%d; received header: 01 04 00 00 00 00 00 15 ; echoed:",
		       r);
		for (int i = 0; i < 8; i++)
			printf(" %02x", out[12 + i]);
		printf("\n");
	}
	if (!strcmp(w, "f18")) {
		reset_io();
		s.state = RTR_SYNC;
		hdr(1, 11, 0, 8); /* PDU type 11 does not exist */
		int r = rtr_sync(&s);

		printf("F18: PDU of unknown type 11 -> rtr_sync=%d, report of %zu bytes, error code=%u (RFC 8210: 5)\n", r,
		       out_len, (out[2] << 8) | out[3]);
	}
	if (!strcmp(w, "f17")) {
		reset_io();
		s.state = RTR_SYNC;
		cache_response(2);
		end_code = TR_ERROR;
		int r = rtr_sync(&s);

		printf("F17: wrong session in Cache Response -> rtr_sync=%d bytes sent=%zu\n", r, out_len);
	}
	return 0;
}
