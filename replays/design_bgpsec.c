/* Design-phase replay (not a check): F5 — BGPsec validation selects router
 * keys by SKI only. The RFC 8208 example path of tests/test_bgpsec.c is
 * validated against a table in which both keys are registered for OTHER AS
 * numbers (1 and 2) than the Secure_Path segments carry (65536, 64496).
 * The test data are taken from the repository's own test by inclusion.
 */
#define main repo_test_main
#include "/repo/tests/test_bgpsec.c"
#undef main

static long n_alloc, fail_at = -1;

static void *m(size_t sz)
{
	if (++n_alloc == fail_at)
		return NULL;
	return malloc(sz);
}

static void *r(void *p, size_t sz)
{
	if (++n_alloc == fail_at)
		return NULL;
	return realloc(p, sz);
}

static void f(void *p)
{
	free(p);
}

/* F19: two keys share a SKI; the second realloc inside
 * spki_table_search_by_ski fails (argument "f19" = allocation #9 counted
 * from the start of validation): the lookup frees its result array but
 * leaves *result pointing at it, and the caller frees it again.
 */
static int f19(void)
{
	struct rtr_bgpsec_nlri *pfx = rtr_mgr_bgpsec_nlri_new(3);
	int pfx_int = htonl(3221225984);
	struct rtr_bgpsec *bgpsec;
	struct spki_table table;

	pfx->nlri_len = 24;
	pfx->afi = 1;
	memcpy(pfx->nlri, &pfx_int, 3);
	bgpsec = rtr_mgr_bgpsec_new(1, 1, 1, 65537, 65537, pfx);
	rtr_mgr_bgpsec_prepend_sec_path_seg(bgpsec, rtr_mgr_bgpsec_new_secure_path_seg(1, 0, 64496));
	rtr_mgr_bgpsec_prepend_sec_path_seg(bgpsec, rtr_mgr_bgpsec_new_secure_path_seg(1, 0, 65536));
	rtr_mgr_bgpsec_prepend_sig_seg(bgpsec, rtr_mgr_bgpsec_new_signature_seg(ski2, 72, sig2));
	rtr_mgr_bgpsec_prepend_sig_seg(bgpsec, rtr_mgr_bgpsec_new_signature_seg(ski1, 72, sig1));
	spki_table_init(&table, NULL);
	spki_table_add_entry(&table, create_record(65536, ski1, spki2));
	spki_table_add_entry(&table, create_record(65536, ski1, spki1));
	spki_table_add_entry(&table, create_record(64496, ski2, spki2));
	fail_at = 9;
	n_alloc = 0;
	lrtr_set_alloc_functions(m, r, f);
	printf("F19: result %d\n", rtr_bgpsec_validate_as_path(bgpsec, &table));
	return 0;
}

int main(int argc, char **argv)
{
	if (argc > 1 && !strcmp(argv[1], "f19"))
		return f19();

	struct rtr_bgpsec_nlri *pfx = rtr_mgr_bgpsec_nlri_new(3);
	int pfx_int = htonl(3221225984); /* 192.0.2.0 */
	struct rtr_bgpsec *bgpsec;
	struct spki_table table;

	pfx->nlri_len = 24;
	pfx->afi = 1;
	memcpy(pfx->nlri, &pfx_int, 3);
	bgpsec = rtr_mgr_bgpsec_new(1, 1, 1, 65537, 65537, pfx);
	rtr_mgr_bgpsec_prepend_sec_path_seg(bgpsec, rtr_mgr_bgpsec_new_secure_path_seg(1, 0, 64496));
	rtr_mgr_bgpsec_prepend_sec_path_seg(bgpsec, rtr_mgr_bgpsec_new_secure_path_seg(1, 0, 65536));
	rtr_mgr_bgpsec_prepend_sig_seg(bgpsec, rtr_mgr_bgpsec_new_signature_seg(ski2, 72, sig2));
	rtr_mgr_bgpsec_prepend_sig_seg(bgpsec, rtr_mgr_bgpsec_new_signature_seg(ski1, 72, sig1));

	spki_table_init(&table, NULL);
	spki_table_add_entry(&table, create_record(1, ski1, spki1));
	spki_table_add_entry(&table, create_record(2, ski2, spki2));
	printf("F5: keys registered for AS 1 and AS 2, path segments AS 65536 and AS 64496 -> result %d (VALID is %d)\n",
	       rtr_bgpsec_validate_as_path(bgpsec, &table), RTR_BGPSEC_VALID);
	return 0;
}
