/* Design-phase replay (not a check): F13, F9, F15, F16. See README.md. */
#include "rtrlib/rtrlib.h"
#include <stdio.h>
#include <stdlib.h>
#include <string.h>

int main(int argc, char **argv)
{
	if (argc > 1 && !strcmp(argv[1], "f13")) {
		const char *s = rtr_state_to_str(RTR_CLOSED);

		printf("CLOSED -> %p\n", (void *)s);
		return 0;
	}
	if (argc > 1 && !strcmp(argv[1], "f9")) {
		struct rtr_socket s1, s2;
		struct tr_socket t1, t2;

		s1.tr_socket = &t1;
		s2.tr_socket = &t2;
		struct rtr_socket *a[1] = {&s1}, *b[1] = {&s2};
		struct rtr_mgr_group g[2] = {{a, 1, 5, 0}, {b, 1, 5, 0}};
		struct rtr_mgr_config *c;
		int r = rtr_mgr_init(&c, g, 2, 3600, 7200, 600, NULL, NULL, NULL, NULL);

		printf("init dup pref -> %d\n", r);
		return 0;
	}
	if (argc > 1 && !strcmp(argv[1], "f15")) {
		struct pfx_table t;
		struct pfx_record r;
		enum pfxv_state st;
		struct lrtr_ip_addr q;

		pfx_table_init(&t, NULL);
		memset(&r, 0, sizeof(r));
		r.asn = 1;
		r.prefix.ver = LRTR_IPV4;
		r.prefix.u.addr4.addr = 0;
		r.min_len = 0;
		r.max_len = 8;
		r.socket = NULL;
		printf("add /0 -> %d\n", pfx_table_add(&t, &r));
		q.ver = LRTR_IPV4;
		q.u.addr4.addr = 0x0a000000;
		int rc = pfx_table_validate(&t, 1, &q, 8, &st);

		printf("validate -> %d state %d\n", rc, st);
		return 0;
	}
	if (argc > 1 && !strcmp(argv[1], "f16")) {
		struct lrtr_ip_addr a;
		char b[64];

		memset(&a, 0xAB, sizeof(a));
		int rc = lrtr_ip_str_to_addr("1:2:3", &a);

		lrtr_ip_addr_to_str(&a, b, sizeof(b));
		printf("parse 1:2:3 -> %d %s\n", rc, b);
		return 0;
	}
	return 1;
}
