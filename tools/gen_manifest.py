#!/usr/bin/env python3
"""Regenerates /verif/MANIFEST.json from the table below (claimed properties) —
properties without an entry are listed under not_applicable."""
import json, os
HERE = os.path.dirname(os.path.dirname(os.path.abspath(__file__)))
NOTE = "trusts clang-14 IR/DWARF fidelity and the checker's engines; user callbacks and transports are opaque"
CLAIMS = {
 "C20": ("full: every enumerator and a provably exhaustive set of representatives of all other integer values are evaluated on the IR of both conversion functions (table content, bounds guard, NULL for non-enumerators)",
         "decision-table abstract evaluation of the IR per input class (static analysis)"),
 "C09": ("strong for the notification discipline: exactly-once notification per successful mutation on every CFG path of add/remove/remove_id/free, who-may-mutate over the whole call graph, reload (shadow silent, swap then diff), full decision table of the diff callback; callback ordering under concurrency is not decided",
         "path-sensitive effect counting on the IR (ESP-style dataflow), call-graph who-may-call, decision table"),
 "C16": ("strong: data-race freedom by lockset (every guarded access reachable from every entry point is inside a critical section of sufficient strength, helper needs propagated over the call graph), acquire/release pairing on all paths, one critical section per reader operation, no guarded pointer escapes; linearizability follows from single-critical-section readers and is not decided beyond that",
         "interprocedural lockset/typestate dataflow on the IR"),
}
CLAIMS["C06"] = ("partial, strong: shadow isolation of all update/undo calls during a reload, crosswise exchange of all root state inside one critical section of both write locks, readers locked for the whole query, copy skips exactly the reloading socket and fills only the private table, interprocedural lock order (callback-aware) live-before-shadow; equality of the new data set with the cache's set and behaviour inside user callbacks are not decided",
    "path-sensitive dataflow per is_resetting cell, straight-line content simulation of the swaps, lockset, interprocedural lock-order graph")
CLAIMS["C05"] = ("partial, strong: byte-level provenance of both query PDUs against the RFC layout, the Cache Response verdict is consumed before any payload (all paths), full decision table of the session handler, End-of-Data session mismatch reaches no table update on any path, reset-vs-serial choice extracted from the state machine, write discipline of session/serial/request flag over the whole program; serial arithmetic does not exist in the code and user transports are opaque",
    "value-flow provenance of struct stores, path-sensitive effect counting with forked call results, FSM arm extraction, who-writes over all units")
CLAIMS["C07"] = ("partial, strong: expiry check before every open (from the extracted state machine), timestamp write discipline (0 only with both tables purged on every path; non-zero only by the clock after a successful receive), decision table of the purge function incl. the direction and operands of the expiry comparison, stop purges both tables after the join, every purge names own table and own socket; real time is not decided",
    "FSM arm extraction, region (dominance/post-dominance) coupling of stores and purges, decision table with forked clock result")
CLAIMS["C13"] = ("partial, strong: every write of the negotiated version provably lowers it (dominating-guard reasoning per store), the three downgrade triggers with their conditions and continuations, first-PDU flag discipline, version check refuses foreign-version PDUs before the payload with report code 8, and every status comparison in the protocol code agrees with the callee's computed return set (hang-up downgrade live); End-of-Data formats are decided under C04",
    "dominating-guard implication per store, decision cells on rtr_receive_pdu, interprocedural return-value sets (belief contradiction)")
CLAIMS["C03"] = ("partial, strong: buffer-then-apply (every table-reaching call dominated by End of Data and its session check), serial stored iff every update succeeded iff success is returned (all paths, update/undo results forked over their full return sets), rollback exhaustiveness (any failed undo purges both live tables and forces a reset; every failure ends in RTR_ERROR and an error state; undo loops cover all families applied so far), shadow swap only on success and silent release on every path, own-socket records only, and a program-wide inventory of dropped status results; equality of table contents with the mathematical delta is C02 composed with these",
    "path-sensitive effect counting with forked call results over computed return sets, dominating guards, loop-structure matching, call graph closure")
CLAIMS["C08"] = ("partial: the socket state machine is extracted from the IR (one abstract iteration per state, interprocedural state-effect summaries of the functions it calls) and checked for handler exhaustiveness, absence of trap states (ESTABLISHED reachable from every state, error arms always leave), time advancing on every cycle (must-occur sleep or blocking receive; FAST_RECONNECT justified by the version decrease), no silent failure returns (timeout / closed connection always change state), and the fate of every class of transport result; the protocol-time bound and equality with the cache's data set are not decided",
    "FSM extraction by abstract evaluation per state, interprocedural effect summaries, graph reachability and cycle analysis")
CLAIMS["C17"] = ("strong: the interval decision table is evaluated exactly on the IR (callees in place) for 3 types x 4 modes x 11 representative values that are exhaustive because the value is only compared with the range constants and copied; range constants against RFC 8210; End-of-Data arm guards (version 1, mode != IGNORE_ANY) and field/type pairing by RFC offsets; who-writes for the three fields; rtr_init table over 125 cells; wait expression and outcome table of rtr_wait_for_sync and the polling arm",
    "interprocedural decision-table abstract evaluation (exact finite partition), dominating guards, value-flow shape of the wait expression")
CLAIMS["C14"] = ("partial, strong: single copy-convert-send exit, length field == bytes sent, complete byte-level assembly of the error report (every byte of the message accounted for), encapsulated length class at all 20 report sites and total size bound, byte-order typestate of the echoed buffer on every path of the receive function, report forwarded for every length class, every protocol-violation FATAL preceded by a report, no reply to Error Reports, padding-free layouts, per-type conversion table against the RFC layout, and the RFC error code per violation class; partial-write behaviour of user transports is not decided",
    "value-flow of stores into the message buffer, typestate dataflow, decision cells per violation class, layout tables from DWARF vs RFC tables")
CLAIMS["C04"] = ("partial: receive-buffer bound (header first, length bounds dominate the payload read, 3248-byte buffers), the complete size table of rtr_pdu_check_size against RFC 8210 (480+ type/version/length cells) and the wire layouts, ordering and width of the nested Error-Report length checks, buffer untouched after a failed receive, framing only through the read/write-until-complete loops and their reaction to every negative result, bounds of the variable-length stack arrays, the temporary PDU stores' capacity invariant, and a classification of all 33 assertions reachable from the receive path (16 discharged by call-site constants / guards / type tests, 17 listed as not decided because they need the trie-depth invariant over histories); termination with user transports and the trie-shape-dependent asserts are not decided",
    "dominating-guard reasoning, decision-table evaluation of the size check, value-flow bounds of VLA sizes, call-site constant propagation for assert discharge")
CLAIMS["C10"] = ("partial, strong: 16-cell identity table of the comparator incl. memcmp widths, lookup filters and full-copy of results, twin-container discipline of add/remove/removal-by-source under the write lock, one hash function at every hash-table call, return-code/effect table for duplicate and unknown keys, notification discipline incl. removal by source and the reload diff; tommyds internals (linear-hash split/merge) are not decided",
    "decision tables with opaque memcmp atoms, path-sensitive effect counting and typestate per entry, value flow of hash arguments")
CLAIMS["C01"] = ("partial: the per-record match table (12 cells), the covering test of the lookup incl. the shape of its bit-extraction atoms, agreement of all five traversals on child polarity and level, and the RFC 6811 result discipline of the validation function incl. reason bookkeeping are decided on all paths; that the trie has the right shape after arbitrary insert/remove histories and the bit arithmetic of the extraction helpers are NOT decided, so this is a necessary-condition check, not a decision of validation correctness",
    "decision tables over comparison-only inputs with opaque atoms, sibling cross-check of traversals, path-sensitive typestate of the validation loop")
CLAIMS["C02"] = ("partial: record identity at element and node level (decision tables), the complete return-code/effect table of add and remove incl. the root pointer per address family, removal by source (own-source filter, same slot and same node re-examined, both children, both families, error propagation), payload-triple discipline of the node swaps, and exactly-once enumeration with all five fields; that trie_insert/trie_remove keep the path invariant for every history is NOT decided",
    "decision tables with forked callee results, loop-structure matching, straight-line content simulation of node swaps")
CLAIMS["C11"] = ("partial: that the key handed to the signature check depends on the segment's AS (today violated: recorded known finding F5), that VALID can only originate from a successful signature check of the current hop, the digest layout against the RFC 8205 table (order, widths, byte order, start segment), agreement of size formula / per-hop offset / writer, the full precondition table and the verdict mapping incl. ECDSA_verify wiring and hop-loop control; ECDSA, SHA-256 and DER parsing are NOT decided",
    "value-flow dependence, path-sensitive typestate of the hop loop, call-sequence extraction against an RFC table, decision cells")
CLAIMS["C12"] = ("partial (thin on the cryptography): the signing digest layout against the RFC 8205 table (which is the independent implementation in table form), size/writer agreement, the precondition table of the signing entry point and the wiring of hashing and ECDSA_sign (whole stream, 32-byte digest, buffer sized by ECDSA_size, sig_len from the out-parameter, success only after signing); validity of the produced signature under an independent verifier is NOT decided",
    "call-sequence extraction against an RFC table, decision cells, value-flow of call arguments")
NA = {}
def main():
    props = [json.loads(l) for l in open(os.path.join(HERE, "properties.jsonl"))]
    m = {"version": 1, "setup_cmd": "make -C tools",
         "hooks": {"guard": "RTRLIB_VERIF", "enable": "none: the checks analyse /repo's sources as they are (LLVM IR built by the checks themselves); no hook is needed",
                   "baseline_off_cmd": "cmake --build /repo/_build && ctest --test-dir /repo/_build -j8 --timeout 900",
                   "source_commits": [], "add_only": True},
         "engines": [{"name": "irdump+pdb", "path": "tools/irdump.cc, engine/pdb.py", "serves_properties": sorted(CLAIMS),
                      "kind_free_text": "program database from clang -O0 -g LLVM IR + mem2reg with DWARF names (all 19 units)"},
                     {"name": "flow/es/dt/ls/vf", "path": "engine/", "serves_properties": sorted(CLAIMS),
                      "kind_free_text": "ESP-style path-sensitive dataflow with finite value sets; effect counting; decision tables; lockset; value flow"}],
         "checks": [], "not_applicable": [],
         "notes": "static analysis only; exit 2 = analysis broken (anchor vanished / instance floor missed), never a pass or a violation"}
    for p in props:
        pid = p["id"]
        if pid in CLAIMS:
            text, tech = CLAIMS[pid]
            m["checks"].append({"property_id": pid, "quick_cmd": "./check %s --tier quick" % pid,
                                "thorough_cmd": "./check %s --tier thorough" % pid, "evidence_file": "evidence/%s.json" % pid,
                                "replay_cmd_template": "./check %s --explain {path}" % pid, "engine": "flow/es/dt/ls/vf",
                                "level_claimed": {"category": "other", "text": text, "design_ref": "DESIGN.md section 4, %s" % pid},
                                "level_note": NOTE, "technique": tech})
        else:
            m["not_applicable"].append({"property_id": pid, "reason": NA.get(pid, "check not built yet in this round (design in DESIGN.md section 4); will be claimed when its rules exist")})
    json.dump(m, open(os.path.join(HERE, "MANIFEST.json"), "w"), indent=1)
main()
