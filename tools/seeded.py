#!/usr/bin/env python3
"""Bookkeeping for seeded (property-breaking) changes produced by independent sub-agents.

  seeded.py verify <PROP> <dir-with-patch.diff,demo.c,run.sh> <name>
      confirms in a scratch worktree of /repo's HEAD: demo passes on the clean tree, patch applies, library builds,
      the existing suite still passes (except the two offline tests), demo fails with the patch; then copies the change
      to /verif/seeded/<name>/ with meta.json.  The scratch worktree and its build output are removed.
  seeded.py run <name>|all [--props C01,C02|all]
      applies the patch to /repo (git apply), runs the registered quick checks, undoes it (git checkout -- .), and records
      which checks raised a violation in /verif/seeded/<name>/detection.json
"""
import json, os, shutil, subprocess, sys, tempfile, time
VERIF = os.path.dirname(os.path.dirname(os.path.abspath(__file__)))
SEEDED = os.path.join(VERIF, "seeded")
EXPECTED_FAIL = {"test_live_validation", "test_dynamic_groups"}


def sh(cmd, **kw):
    return subprocess.run(cmd, shell=True, capture_output=True, text=True, **kw)


# Where patches are applied and what the checks analyse: /repo itself (default, as the brief describes), or with --scratch a
# detached worktree of /repo's HEAD outside /repo and /verif (removed at exit) so that several runs do not disturb each other.
TARGET = "/repo"
CHECK_ENV = ""


def use_scratch():
    global TARGET, CHECK_ENV
    import atexit
    d = tempfile.mkdtemp(prefix="rtrverif.tgt.")
    os.rmdir(d)
    r = sh("git -C /repo worktree add -q --detach %s HEAD" % d)
    assert r.returncode == 0, r.stderr
    for h in ("rtrlib.h", "config.h"):
        shutil.copy("/repo/rtrlib/" + h, os.path.join(d, "rtrlib", h))
    TARGET = d
    CHECK_ENV = "VERIF_SCRATCH_RUN=1 "

    def cleanup():
        sh("git -C /repo worktree remove --force %s" % d)
        shutil.rmtree(d, ignore_errors=True)
        sh("git -C /repo worktree prune")
    atexit.register(cleanup)


def check_cmd(prop):
    return "cd %s && %s./check %s --tier quick%s" % (VERIF, CHECK_ENV, prop, "" if TARGET == "/repo" else " --repo " + TARGET)


def ctest_failures(bdir):
    r = sh("ctest --test-dir %s -j8 --timeout 300" % bdir)
    failed = set()
    for line in r.stdout.splitlines():
        if "(Failed)" in line or "(Timeout)" in line or "(SEGFAULT)" in line or "Subprocess aborted" in line or "(Not Run)" in line:
            parts = line.split("-")
            if len(parts) >= 2:
                failed.add(parts[1].split("(")[0].strip())
    return failed, r.stdout[-1500:]


def verify(prop, src, name):
    wt = tempfile.mkdtemp(prefix="rtrverif.seed.")
    os.rmdir(wt)
    meta = {"property": prop, "name": name, "verified_at_repo_head": sh("git -C /repo rev-parse --short HEAD").stdout.strip(), "steps": {}}
    try:
        r = sh("git -C /repo worktree add -q --detach %s HEAD" % wt)
        assert r.returncode == 0, r.stderr
        for h in ("rtrlib.h", "config.h"):
            shutil.copy("/repo/rtrlib/" + h, os.path.join(wt, "rtrlib", h))
        bdir = wt + ".build"
        os.makedirs(bdir, exist_ok=True)
        run = os.path.join(src, "run.sh")
        env = dict(os.environ)
        # 1. demo on clean tree
        r1 = sh("cd %s && sh %s %s" % (src, run, wt), timeout=600, env=env)
        meta["steps"]["demo_clean_exit"] = r1.returncode
        # 2. apply
        ra = sh("git -C %s apply %s" % (wt, os.path.join(src, "patch.diff")))
        meta["steps"]["apply"] = ra.returncode
        if ra.returncode != 0:
            meta["steps"]["apply_err"] = ra.stderr[-500:]
            return meta, False
        # 3. build + ctest
        rb = sh("cmake -S %s -B %s/b -G Ninja -DCMAKE_BUILD_TYPE=RelWithDebInfo -DUNIT_TESTING=ON >/dev/null && cmake --build %s/b 2>&1 | tail -3" % (wt, bdir, bdir), timeout=900)
        meta["steps"]["build"] = rb.returncode
        failed, tail = ctest_failures(bdir + "/b")
        meta["steps"]["ctest_failed"] = sorted(failed)
        # 4. demo on changed tree
        r2 = sh("cd %s && sh %s %s" % (src, run, wt), timeout=600, env=env)
        meta["steps"]["demo_changed_exit"] = r2.returncode
        meta["steps"]["demo_changed_tail"] = (r2.stdout + r2.stderr)[-400:]
        ok = r1.returncode == 0 and r2.returncode != 0 and rb.returncode == 0 and failed <= EXPECTED_FAIL
        return meta, ok
    finally:
        sh("git -C /repo worktree remove --force %s" % wt)
        shutil.rmtree(wt + ".build", ignore_errors=True)
        shutil.rmtree(wt, ignore_errors=True)
        sh("git -C /repo worktree prune")


def cmd_verify(prop, src, name):
    meta, ok = verify(prop, src, name)
    print(json.dumps(meta["steps"], indent=1))
    if not ok:
        print("NOT CONFIRMED: %s" % name)
        return 1
    d = os.path.join(SEEDED, name)
    os.makedirs(d, exist_ok=True)
    for f in os.listdir(src):
        if f in ("patch.diff", "demo.c", "run.sh", "README.md") or f.endswith((".c", ".h", ".sh")):
            if os.path.abspath(src) != os.path.abspath(d):
                shutil.copy(os.path.join(src, f), os.path.join(d, f))
    readme = os.path.join(src, "README.md")
    needs = ""
    if os.path.exists(readme):
        needs = open(readme).read()[:1500]
    meta["what_it_needs_to_manifest"] = needs
    meta["what_was_run"] = "demo (run.sh) on a clean worktree of /repo HEAD: exit %s; git apply patch.diff; cmake -DUNIT_TESTING=ON + ninja build; ctest (failed: %s); demo again: exit %s" % (
        meta["steps"]["demo_clean_exit"], meta["steps"]["ctest_failed"], meta["steps"]["demo_changed_exit"])
    json.dump(meta, open(os.path.join(d, "meta.json"), "w"), indent=1)
    print("CONFIRMED and stored: %s" % d)
    return 0


def cmd_run(name, props):
    names = sorted(os.listdir(SEEDED)) if name == "all" else [name]
    man = json.load(open(os.path.join(VERIF, "MANIFEST.json")))
    allprops = [c["property_id"] for c in man["checks"]]
    rc = 0
    for n in names:
        d = os.path.join(SEEDED, n)
        if not os.path.exists(os.path.join(d, "patch.diff")):
            continue
        meta = json.load(open(os.path.join(d, "meta.json")))
        ps = allprops if props == "all" else ([meta["property"]] if props is None else props.split(","))
        assert sh("git -C %s status --porcelain --untracked-files=no" % TARGET).stdout.strip() == "", "/repo has uncommitted changes"
        ra = sh("git -C %s apply %s" % (TARGET, os.path.join(d, "patch.diff")))
        det = {"applied": ra.returncode == 0, "repo_head": sh("git -C /repo rev-parse --short HEAD").stdout.strip(), "checks": {}}
        try:
            if ra.returncode == 0:
                # build the program database once, then run the checks in parallel (they share the cache)
                sh(check_cmd(ps[0]), timeout=900)
                from concurrent.futures import ThreadPoolExecutor

                def one(p):
                    t0 = time.time()
                    r = sh(check_cmd(p), timeout=900)
                    viol = [l for l in r.stdout.splitlines() if l.startswith("  violation:")]
                    broken = [l for l in r.stdout.splitlines() if l.startswith("ANALYSIS-BROKEN")]
                    return p, {"exit": r.returncode, "violations": [v.strip()[:300] for v in viol][:6], "broken": [b[:300] for b in broken],
                               "wall_s": round(time.time() - t0, 1)}
                with ThreadPoolExecutor(max_workers=8) as ex:
                    for p, res in ex.map(one, ps):
                        det["checks"][p] = res
        finally:
            sh("git -C %s checkout -- ." % TARGET)
        caught = [p for p, v in det["checks"].items() if v["exit"] == 1]
        det["caught_by"] = caught
        json.dump(det, open(os.path.join(d, "detection.json"), "w"), indent=1)
        own = det["checks"].get(meta["property"], {})
        print("%-40s property=%s applied=%s own-check-exit=%s caught_by=%s" % (n, meta["property"], det["applied"], own.get("exit"), caught))
        for v in own.get("violations", [])[:2]:
            print("      ", v[:220])
        for p, v in det["checks"].items():
            if v.get("broken"):
                print("       BROKEN %s: %s" % (p, v["broken"][0][:200]))
        if not caught:
            rc = 1
    # restore evidence of the unchanged tree for the properties touched
    return rc


REFAC = os.environ.get("VERIF_REFAC_DIR") or os.path.join(VERIF, "refactors")     # a staging directory while a regression is running


def cmd_run_combos(which):
    """refactor-then-break: every seeded change that its own property's check catches must still be caught after a
    behaviour-preserving refactoring of the same file(s) has been applied first (a refactoring must not blind a rule)"""
    import re
    def files_of(path):
        return set(re.findall(r"^\+\+\+ b/(\S+)", open(path).read(), re.M))
    muts = sorted(os.listdir(SEEDED)) if which == "all" else [which]
    refs = sorted(os.listdir(REFAC))
    out = os.path.join(VERIF, "refactors", "COMBOS.json")
    results = json.load(open(out)) if os.path.exists(out) and which != "all" else {}
    rc = 0
    for m in muts:
        md = os.path.join(SEEDED, m)
        det = os.path.join(md, "detection.json")
        if not os.path.exists(det):
            continue
        meta = json.load(open(os.path.join(md, "meta.json")))
        prop = meta["property"]
        if json.load(open(det))["checks"].get(prop, {}).get("exit") != 1:
            continue        # a documented miss stays a miss
        mf = files_of(os.path.join(md, "patch.diff"))
        for r in refs:
            rp = os.path.join(REFAC, r, "patch.diff")
            if not os.path.exists(rp) or not (files_of(rp) & mf):
                continue
            assert sh("git -C %s status --porcelain --untracked-files=no" % TARGET).stdout.strip() == "", "/repo has uncommitted changes"
            try:
                a1 = sh("git -C %s apply %s" % (TARGET, rp))
                a2 = sh("git -C %s apply %s" % (TARGET, os.path.join(md, "patch.diff"))) if a1.returncode == 0 else a1
                if a1.returncode != 0 or a2.returncode != 0 or "<<<<<<<" in sh("git -C %s diff" % TARGET).stdout:
                    continue        # the two changes overlap textually: no combination to test
                # the combination must still compile
                cc = sh(check_cmd(prop), timeout=900)
                viol = [l.strip()[:200] for l in cc.stdout.splitlines() if l.startswith("  violation:")]
                results["%s+%s" % (r, m)] = {"exit": cc.returncode, "violations": viol[:2]}
                flag = "" if cc.returncode == 1 else "   <-- NOT CAUGHT"
                if cc.returncode != 1:
                    rc = 1
                print("%-10s + %-8s %s exit=%d%s" % (r, m, prop, cc.returncode, flag), flush=True)
            finally:
                sh("git -C %s checkout -- ." % TARGET)
    json.dump(results, open(out, "w"), indent=1, sort_keys=True)
    return rc


def cmd_verify_refactor(src, name):
    """behaviour-preserving change: patch applies to /repo HEAD, library builds, suite (incl. unit tests) still passes"""
    wt = tempfile.mkdtemp(prefix="rtrverif.rf.")
    os.rmdir(wt)
    meta = {"name": name, "kind": "behaviour-preserving refactoring", "verified_at_repo_head": sh("git -C /repo rev-parse --short HEAD").stdout.strip()}
    try:
        assert sh("git -C /repo worktree add -q --detach %s HEAD" % wt).returncode == 0
        for h in ("rtrlib.h", "config.h"):
            shutil.copy("/repo/rtrlib/" + h, os.path.join(wt, "rtrlib", h))
        ra = sh("git -C %s apply %s" % (wt, os.path.join(src, "patch.diff")))
        meta["apply"] = ra.returncode
        if ra.returncode != 0:
            print("does not apply:", ra.stderr[-300:])
            return 1
        bdir = wt + ".build"
        rb = sh("cmake -S %s -B %s/b -G Ninja -DCMAKE_BUILD_TYPE=RelWithDebInfo -DUNIT_TESTING=ON >/dev/null && cmake --build %s/b 2>&1 | tail -3" % (wt, bdir, bdir), timeout=900)
        failed, tail = ctest_failures(bdir + "/b")
        meta["build"] = rb.returncode
        meta["ctest_failed"] = sorted(failed)
        ok = rb.returncode == 0 and failed <= EXPECTED_FAIL
        if not ok:
            print("NOT CONFIRMED", name, meta)
            return 1
        d = os.path.join(REFAC, name)
        os.makedirs(d, exist_ok=True)
        for f in ("patch.diff", "README.md"):
            if os.path.exists(os.path.join(src, f)):
                if os.path.abspath(src) != os.path.abspath(d):
                    shutil.copy(os.path.join(src, f), os.path.join(d, f))
        meta["what_was_run"] = "git apply on a worktree of /repo HEAD; cmake -DUNIT_TESTING=ON + ninja; ctest (failed: %s)" % sorted(failed)
        json.dump(meta, open(os.path.join(d, "meta.json"), "w"), indent=1)
        print("CONFIRMED refactoring stored:", d)
        return 0
    finally:
        sh("git -C /repo worktree remove --force %s" % wt)
        shutil.rmtree(wt + ".build", ignore_errors=True)
        shutil.rmtree(wt, ignore_errors=True)
        sh("git -C /repo worktree prune")


def cmd_run_refactors(name):
    names = sorted(os.listdir(REFAC)) if name == "all" else [name]
    man = json.load(open(os.path.join(VERIF, "MANIFEST.json")))
    allprops = [c["property_id"] for c in man["checks"]]
    rc = 0
    from concurrent.futures import ThreadPoolExecutor
    for n in names:
        d = os.path.join(REFAC, n)
        if not os.path.exists(os.path.join(d, "patch.diff")):
            continue
        assert sh("git -C %s status --porcelain --untracked-files=no" % TARGET).stdout.strip() == "", "/repo has uncommitted changes"
        ra = sh("git -C %s apply %s" % (TARGET, os.path.join(d, "patch.diff")))
        res = {"applied": ra.returncode == 0, "checks": {}}
        try:
            if ra.returncode == 0:
                sh(check_cmd(allprops[0]), timeout=900)

                def one(p):
                    r = sh(check_cmd(p), timeout=900)
                    lines = [l for l in r.stdout.splitlines() if l.startswith("  violation:") or l.startswith("ANALYSIS-BROKEN")]
                    return p, {"exit": r.returncode, "lines": [l.strip()[:300] for l in lines][:5]}
                with ThreadPoolExecutor(max_workers=8) as ex:
                    for p, r in ex.map(one, allprops):
                        res["checks"][p] = r
        finally:
            sh("git -C %s checkout -- ." % TARGET)
        alarms = {p: v for p, v in res["checks"].items() if v["exit"] != 0}
        res["alarms"] = sorted(alarms)
        json.dump(res, open(os.path.join(d, "result.json"), "w"), indent=1)
        print("%-12s applied=%s alarms=%s" % (n, res["applied"], {p: v["exit"] for p, v in alarms.items()}))
        for p, v in alarms.items():
            for l in v["lines"][:2]:
                print("      ", p, l[:230])
        if alarms:
            rc = 1
    return rc


if __name__ == "__main__":
    if "--scratch" in sys.argv:
        sys.argv.remove("--scratch")
        use_scratch()
    if sys.argv[1] == "verify-refactor":
        sys.exit(cmd_verify_refactor(sys.argv[2], sys.argv[3]))
    if sys.argv[1] == "run-combos":
        sys.exit(cmd_run_combos(sys.argv[2]))
    if sys.argv[1] == "run-refactors":
        sys.exit(cmd_run_refactors(sys.argv[2]))
    if sys.argv[1] == "reverify":
        names = sorted(os.listdir(SEEDED)) if sys.argv[2] == "all" else [sys.argv[2]]
        rc = 0
        for n in names:
            prop = json.load(open(os.path.join(SEEDED, n, "meta.json")))["property"]
            rc |= cmd_verify(prop, os.path.join(SEEDED, n), n)
        sys.exit(rc)
    if sys.argv[1] == "verify":
        sys.exit(cmd_verify(sys.argv[2], sys.argv[3], sys.argv[4]))
    if sys.argv[1] == "run":
        props = None
        if "--props" in sys.argv:
            props = sys.argv[sys.argv.index("--props") + 1]
        sys.exit(cmd_run(sys.argv[2], props))
