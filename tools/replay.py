#!/usr/bin/env python3
"""replay.py <name>... : apply stored seeded changes / refactorings (by directory name under seeded/ or refactors/) to scratch
copies of /repo's current tree, 8 at a time, and evaluate a property's rules on each (default: the change's own property;
--prop Cxx to choose).  Prints what fired.  Nothing is executed; scratch copies are removed at once."""
import os, sys
sys.path.insert(0, os.path.dirname(os.path.dirname(os.path.abspath(__file__))))
os.environ.setdefault("VERIF_JOBS", "2")
from engine import regress, pdb as pdbmod


def main():
    args = sys.argv[1:]
    prop = None
    if "--prop" in args:
        i = args.index("--prop")
        prop = args[i + 1]
        del args[i:i + 2]
    jobs = []
    for n in args:
        for kind, base in (("seeded", "seeded"), ("refactoring", "refactors")):
            p = os.path.join(regress.VERIF, base, n, "patch.diff")
            if os.path.exists(p):
                jobs.append((prop or n.split("-")[0], kind, n, p, pdbmod.REPO))
    from concurrent.futures import ProcessPoolExecutor
    import multiprocessing
    with ProcessPoolExecutor(max_workers=8, mp_context=multiprocessing.get_context("fork")) as ex:
        for r in ex.map(regress._one, jobs):
            print("%-10s %-12s %s %s" % (r["id"], r["status"][:200], ",".join(r.get("rules", [])), r.get("first", "")[:200]))
            for a in r.get("all", []):
                print("      " + a[:600])


if __name__ == "__main__":
    main()
