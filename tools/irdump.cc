// irdump: dump one LLVM IR module (clang -O0 -g + mem2reg) as a JSON "program
// database" unit for the Python rule engines in /verif/engine.
//
// Emits: functions (blocks, instructions with SSA ids, resolved GEP access
// paths with DWARF field names, callees, debug locations), struct layouts and
// enums from DWARF, global initialisers.  Nothing is executed.
//
// Build: see tools/Makefile (links /usr/lib/llvm-14/lib/libLLVM-14.so).
#include "llvm/IR/Constants.h"
#include "llvm/IR/DataLayout.h"
#include "llvm/IR/DebugInfo.h"
#include "llvm/IR/DebugInfoMetadata.h"
#include "llvm/IR/Function.h"
#include "llvm/IR/GlobalVariable.h"
#include "llvm/IR/InstIterator.h"
#include "llvm/IR/Instructions.h"
#include "llvm/IR/IntrinsicInst.h"
#include "llvm/IR/LLVMContext.h"
#include "llvm/IR/Module.h"
#include "llvm/IR/Operator.h"
#include "llvm/IRReader/IRReader.h"
#include "llvm/Support/SourceMgr.h"
#include "llvm/Support/raw_ostream.h"

#include <map>
#include <set>
#include <string>
#include <vector>

using namespace llvm;

static std::string esc(StringRef s)
{
	std::string o;
	for (unsigned char c : s) {
		switch (c) {
		case '"': o += "\\\""; break;
		case '\\': o += "\\\\"; break;
		case '\n': o += "\\n"; break;
		case '\r': o += "\\r"; break;
		case '\t': o += "\\t"; break;
		default:
			if (c < 0x20 || c >= 0x7f) {
				char b[8];
				snprintf(b, sizeof b, "\\u%04x", c);
				o += b;
			} else
				o += (char)c;
		}
	}
	return o;
}
static std::string q(StringRef s) { return "\"" + esc(s) + "\""; }

static std::string tystr(Type *t)
{
	std::string s;
	raw_string_ostream os(s);
	t->print(os, false, true);
	return os.str();
}

// ---------------------------------------------------------------- DWARF side
struct Member {
	std::string name;
	uint64_t offBits, sizeBits;
	std::string type;
};
struct StructInfo {
	std::string name;
	uint64_t sizeBits;
	std::vector<Member> members;
	bool isUnion;
};
static std::map<std::string, StructInfo> gStructs; // by DWARF name
static std::map<std::string, std::vector<std::pair<std::string, int64_t>>> gEnums;

static std::string ditypename(const DIType *t, int depth = 0)
{
	if (!t) return "void";
	if (depth > 8) return "?";
	if (auto *d = dyn_cast<DIDerivedType>(t)) {
		switch (d->getTag()) {
		case dwarf::DW_TAG_pointer_type: return ditypename(d->getBaseType(), depth + 1) + "*";
		case dwarf::DW_TAG_const_type: return "const " + ditypename(d->getBaseType(), depth + 1);
		case dwarf::DW_TAG_volatile_type: return ditypename(d->getBaseType(), depth + 1);
		case dwarf::DW_TAG_typedef: return d->getName().str();
		default: return ditypename(d->getBaseType(), depth + 1);
		}
	}
	if (auto *c = dyn_cast<DICompositeType>(t)) {
		std::string n = c->getName().str();
		switch (c->getTag()) {
		case dwarf::DW_TAG_structure_type: return "struct " + n;
		case dwarf::DW_TAG_union_type: return "union " + n;
		case dwarf::DW_TAG_enumeration_type: return "enum " + n;
		case dwarf::DW_TAG_array_type: {
			std::string s = ditypename(c->getBaseType(), depth + 1);
			for (auto *e : c->getElements())
				if (auto *sr = dyn_cast<DISubrange>(e)) {
					if (auto *ci = sr->getCount().dyn_cast<ConstantInt *>())
						s += "[" + std::to_string(ci->getSExtValue()) + "]";
					else
						s += "[]";
				}
			return s;
		}
		default: return n;
		}
	}
	if (isa<DISubroutineType>(t)) return "fn";
	return t->getName().str();
}

static void addComposite(const DICompositeType *c, StringRef nameOverride)
{
	std::string name = nameOverride.empty() ? c->getName().str() : nameOverride.str();
	if (name.empty()) return;
	if (c->getTag() == dwarf::DW_TAG_enumeration_type) {
		if (c->isForwardDecl()) return;
		auto &v = gEnums[name];
		if (!v.empty()) return;
		for (auto *e : c->getElements())
			if (auto *en = dyn_cast<DIEnumerator>(e))
				v.push_back({en->getName().str(), en->getValue().getSExtValue()});
		return;
	}
	if (c->getTag() != dwarf::DW_TAG_structure_type && c->getTag() != dwarf::DW_TAG_union_type) return;
	if (c->isForwardDecl()) return;
	if (gStructs.count(name)) return;
	StructInfo si;
	si.name = name;
	si.sizeBits = c->getSizeInBits();
	si.isUnion = c->getTag() == dwarf::DW_TAG_union_type;
	for (auto *e : c->getElements())
		if (auto *m = dyn_cast<DIDerivedType>(e))
			if (m->getTag() == dwarf::DW_TAG_member)
				si.members.push_back({m->getName().str(), m->getOffsetInBits(), m->getSizeInBits(),
						      ditypename(m->getBaseType())});
	gStructs[name] = si;
}

static void collectDebugTypes(Module &M)
{
	DebugInfoFinder F;
	F.processModule(M);
	for (auto *t : F.types()) {
		if (auto *c = dyn_cast<DICompositeType>(t))
			addComposite(c, "");
		else if (auto *d = dyn_cast<DIDerivedType>(t)) {
			if (d->getTag() == dwarf::DW_TAG_typedef)
				if (auto *c = dyn_cast_or_null<DICompositeType>(d->getBaseType()))
					if (c->getName().empty()) addComposite(c, d->getName());
		}
	}
}

// LLVM struct name "struct.foo" / "struct.foo.12" / "union.bar" -> DWARF name
static std::string dwarfNameOf(StructType *st)
{
	if (!st->hasName()) return "";
	std::string n = st->getName().str();
	size_t p = n.find('.');
	if (p == std::string::npos) return n;
	std::string r = n.substr(p + 1);
	// strip numeric suffix added on type collisions
	size_t d = r.rfind('.');
	if (d != std::string::npos && d + 1 < r.size()) {
		bool num = true;
		for (size_t i = d + 1; i < r.size(); i++)
			if (!isdigit((unsigned char)r[i])) num = false;
		if (num) r = r.substr(0, d);
	}
	return r;
}

static std::string fieldName(const DataLayout &DL, StructType *st, unsigned idx)
{
	std::string dn = dwarfNameOf(st);
	std::string base = dn.empty() ? "anon" : dn;
	auto it = gStructs.find(dn);
	if (it != gStructs.end() && !st->isOpaque()) {
		uint64_t off = DL.getStructLayout(st)->getElementOffset(idx);
		if (it->second.isUnion) {
			return base + ".<union>";
		}
		// prefer exact byte-offset match; for bitfields several members share a
		// storage unit: report the first one with suffix
		std::string found;
		int n = 0;
		uint64_t fsz = DL.getTypeAllocSize(st->getElementType(idx));
		for (auto &m : it->second.members) {
			if (m.offBits / 8 >= off && m.offBits / 8 < off + (fsz ? fsz : 1)) {
				if (m.offBits == off * 8 && n == 0) found = m.name;
				else if (n == 0) found = m.name;
				n++;
			}
		}
		if (!found.empty()) return base + "." + found;
	}
	return base + ".#" + std::to_string(idx);
}

// ---------------------------------------------------------------- values
struct FnCtx {
	std::map<const Value *, int> ids;
	std::map<const BasicBlock *, int> bids;
	const DataLayout *DL;
};

static std::string constStr(const Constant *c, int depth = 0);

static std::string opstr(const Value *v, FnCtx &cx)
{
	if (auto *a = dyn_cast<Argument>(v)) return "a" + std::to_string(a->getArgNo());
	if (isa<Instruction>(v)) {
		auto it = cx.ids.find(v);
		if (it != cx.ids.end()) return "%" + std::to_string(it->second);
		return "%?";
	}
	if (auto *bb = dyn_cast<BasicBlock>(v)) return "b" + std::to_string(cx.bids[bb]);
	if (auto *c = dyn_cast<Constant>(v)) return constStr(c);
	if (isa<MetadataAsValue>(v)) return "meta";
	if (isa<InlineAsm>(v)) return "asm";
	return "?";
}

static std::string constStr(const Constant *c, int depth)
{
	if (auto *ci = dyn_cast<ConstantInt>(c)) {
		if (ci->getBitWidth() == 1) return ci->isZero() ? "#0" : "#1";
		if (ci->getBitWidth() <= 64) return "#" + std::to_string(ci->getSExtValue());
		return "#big";
	}
	if (isa<ConstantPointerNull>(c)) return "null";
	if (isa<UndefValue>(c)) return "undef";
	if (auto *f = dyn_cast<Function>(c)) return "@" + f->getName().str();
	if (auto *g = dyn_cast<GlobalVariable>(c)) return "@" + g->getName().str();
	if (auto *ga = dyn_cast<GlobalAlias>(c)) return "@" + ga->getName().str();
	if (auto *fp = dyn_cast<ConstantFP>(c)) {
		std::string s;
		raw_string_ostream os(s);
		os << "fp:" << fp->getValueAPF().convertToDouble();
		return os.str();
	}
	if (auto *ce = dyn_cast<ConstantExpr>(c)) {
		if (depth < 6) {
			if (ce->isCast()) return constStr(ce->getOperand(0), depth + 1);
			if (ce->getOpcode() == Instruction::GetElementPtr) {
				std::string b = constStr(ce->getOperand(0), depth + 1);
				bool allzero = true;
				for (unsigned i = 1; i < ce->getNumOperands(); i++)
					if (auto *ci = dyn_cast<ConstantInt>(ce->getOperand(i))) {
						if (!ci->isZero()) allzero = false;
					} else
						allzero = false;
				if (allzero) return b;
				std::string s = b + "+gep(";
				for (unsigned i = 1; i < ce->getNumOperands(); i++) {
					if (i > 1) s += ",";
					s += constStr(ce->getOperand(i), depth + 1);
				}
				return s + ")";
			}
		}
		return "cexpr";
	}
	if (isa<ConstantAggregateZero>(c)) return "zeroinit";
	return "const";
}

// JSON for global initialisers
static std::string initJson(const Constant *c, int depth = 0)
{
	if (depth > 6) return "\"...\"";
	if (auto *ci = dyn_cast<ConstantInt>(c)) {
		if (ci->getBitWidth() <= 64) return std::to_string(ci->getSExtValue());
		return "\"big\"";
	}
	if (isa<ConstantPointerNull>(c)) return "null";
	if (isa<ConstantAggregateZero>(c)) {
		Type *t = c->getType();
		unsigned n = 0;
		if (auto *at = dyn_cast<ArrayType>(t)) n = at->getNumElements();
		else if (auto *st = dyn_cast<StructType>(t)) n = st->getNumElements();
		std::string s = "[";
		for (unsigned i = 0; i < n && i < 4096; i++) {
			if (i) s += ",";
			s += initJson(c->getAggregateElement(i), depth + 1);
		}
		return s + "]";
	}
	if (auto *cds = dyn_cast<ConstantDataSequential>(c)) {
		if (cds->isString()) return "{\"str\":" + q(cds->getAsString().rtrim('\0')) + "}";
		std::string s = "[";
		for (unsigned i = 0; i < cds->getNumElements(); i++) {
			if (i) s += ",";
			s += initJson(cds->getElementAsConstant(i), depth + 1);
		}
		return s + "]";
	}
	if (isa<ConstantArray>(c) || isa<ConstantStruct>(c)) {
		std::string s = "[";
		for (unsigned i = 0; i < c->getNumOperands(); i++) {
			if (i) s += ",";
			s += initJson(cast<Constant>(c->getOperand(i)), depth + 1);
		}
		return s + "]";
	}
	// pointer to a string literal global?
	const Constant *base = c;
	while (auto *ce = dyn_cast<ConstantExpr>(base)) {
		if (ce->isCast() || ce->getOpcode() == Instruction::GetElementPtr) base = ce->getOperand(0);
		else break;
	}
	if (auto *g = dyn_cast<GlobalVariable>(base)) {
		if (g->hasInitializer() && g->isConstant())
			if (auto *cds = dyn_cast<ConstantDataSequential>(g->getInitializer()))
				if (cds->isString()) return "{\"str\":" + q(cds->getAsString().rtrim('\0')) + "}";
		return "{\"ref\":" + q(g->getName()) + "}";
	}
	if (auto *f = dyn_cast<Function>(base)) return "{\"ref\":" + q(f->getName()) + "}";
	if (isa<UndefValue>(c)) return "\"undef\"";
	return q(constStr(c));
}

static std::string predStr(CmpInst::Predicate p)
{
	return CmpInst::getPredicateName(p).str();
}

static void dumpFunction(Function &F, raw_ostream &os, const DataLayout &DL)
{
	FnCtx cx;
	cx.DL = &DL;
	int n = 0, b = 0;
	for (auto &BB : F) {
		cx.bids[&BB] = b++;
		for (auto &I : BB) {
			if (isa<DbgInfoIntrinsic>(&I)) continue;
			cx.ids[&I] = n++;
		}
	}
	// debug variable names
	std::map<const Value *, std::string> dbgnames;
	for (auto &BB : F)
		for (auto &I : BB)
			if (auto *dv = dyn_cast<DbgVariableIntrinsic>(&I)) {
				Value *v = dv->getVariableLocationOp(0);
				if (v && !dbgnames.count(v)) dbgnames[v] = dv->getVariable()->getName().str();
			}

	os << q(F.getName()) << ":{";
	DISubprogram *SP = F.getSubprogram();
	{
		std::string fn;
		if (SP) {
			fn = SP->getFilename().str();
			if (fn.empty() || fn[0] != '/') fn = (SP->getDirectory() + "/" + SP->getFilename()).str();
		}
		os << "\"file\":" << q(fn) << ",";
	}
	os << "\"line\":" << (SP ? SP->getLine() : 0) << ",";
	os << "\"linkage\":" << q(F.hasInternalLinkage() ? "internal" : (F.hasWeakLinkage() ? "weak" : "external")) << ",";
	os << "\"ret\":" << q(tystr(F.getReturnType())) << ",";
	os << "\"vararg\":" << (F.isVarArg() ? "true" : "false") << ",";
	os << "\"params\":[";
	for (auto &A : F.args()) {
		if (A.getArgNo()) os << ",";
		std::string nm = A.getName().str();
		auto it = dbgnames.find(&A);
		if (it != dbgnames.end()) nm = it->second;
		os << "{\"name\":" << q(nm) << ",\"type\":" << q(tystr(A.getType())) << "}";
	}
	os << "],\"blocks\":[";
	bool firstB = true;
	for (auto &BB : F) {
		if (!firstB) os << ",";
		firstB = false;
		os << "{\"id\":" << cx.bids[&BB] << ",\"name\":" << q(BB.getName()) << ",\"succs\":[";
		bool fs = true;
		std::set<int> seen;
		for (auto *S : successors(&BB)) {
			if (!fs) os << ",";
			fs = false;
			os << cx.bids[S];
		}
		os << "],\"insts\":[";
		bool firstI = true;
		for (auto &I : BB) {
			if (isa<DbgInfoIntrinsic>(&I)) continue;
			if (!firstI) os << ",";
			firstI = false;
			os << "{\"id\":" << cx.ids[&I] << ",\"op\":" << q(I.getOpcodeName());
			if (!I.getType()->isVoidTy()) os << ",\"ty\":" << q(tystr(I.getType()));
			if (const DebugLoc &dl = I.getDebugLoc()) {
				os << ",\"line\":" << dl.getLine() << ",\"col\":" << dl.getCol();
				if (auto *sc = dyn_cast_or_null<DIScope>(dl.getScope())) {
					// record file only when different from the function's file (macros/headers)
					if (SP && sc->getFile() != SP->getFile() && sc->getFile())
						os << ",\"file\":" << q(sc->getFile()->getFilename());
				}
			}
			if (I.hasName()) os << ",\"name\":" << q(I.getName());
			auto dn = dbgnames.find(&I);
			if (dn != dbgnames.end()) os << ",\"var\":" << q(dn->second);

			if (auto *LI = dyn_cast<LoadInst>(&I)) {
				os << ",\"ptr\":" << q(opstr(LI->getPointerOperand(), cx));
				os << ",\"size\":" << DL.getTypeStoreSize(LI->getType());
				if (LI->isVolatile()) os << ",\"volatile\":true";
			} else if (auto *SI = dyn_cast<StoreInst>(&I)) {
				os << ",\"val\":" << q(opstr(SI->getValueOperand(), cx));
				os << ",\"ptr\":" << q(opstr(SI->getPointerOperand(), cx));
				os << ",\"vty\":" << q(tystr(SI->getValueOperand()->getType()));
				os << ",\"size\":" << DL.getTypeStoreSize(SI->getValueOperand()->getType());
			} else if (auto *GI = dyn_cast<GetElementPtrInst>(&I)) {
				os << ",\"base\":" << q(opstr(GI->getPointerOperand(), cx));
				os << ",\"srcty\":" << q(tystr(GI->getSourceElementType()));
				os << ",\"path\":[";
				Type *cur = GI->getSourceElementType();
				unsigned k = 0;
				bool allc = true;
				for (auto it = GI->idx_begin(); it != GI->idx_end(); ++it, ++k) {
					if (k) os << ",";
					Value *idx = it->get();
					if (k == 0) {
						os << q("[" + opstr(idx, cx) + "]");
					} else if (auto *st = dyn_cast<StructType>(cur)) {
						unsigned fi = cast<ConstantInt>(idx)->getZExtValue();
						os << q(fieldName(DL, st, fi));
						cur = st->getElementType(fi);
					} else if (auto *at = dyn_cast<ArrayType>(cur)) {
						os << q("[" + opstr(idx, cx) + "]");
						cur = at->getElementType();
					} else if (auto *vt = dyn_cast<VectorType>(cur)) {
						os << q("[" + opstr(idx, cx) + "]");
						cur = vt->getElementType();
					} else {
						os << q("?");
					}
					if (!isa<ConstantInt>(idx)) allc = false;
				}
				os << "]";
				os << ",\"elsize\":" << DL.getTypeAllocSize(GI->getSourceElementType());
				if (allc) {
					APInt off(DL.getIndexSizeInBits(GI->getPointerAddressSpace()), 0);
					if (GI->accumulateConstantOffset(DL, off)) os << ",\"off\":" << off.getSExtValue();
				}
				os << ",\"resty\":" << q(tystr(GI->getResultElementType()));
			} else if (auto *CB = dyn_cast<CallBase>(&I)) {
				Value *cv = CB->getCalledOperand()->stripPointerCasts();
				if (auto *cf = dyn_cast<Function>(cv)) {
					os << ",\"callee\":" << q(cf->getName());
				} else {
					os << ",\"callee\":null,\"fptr\":" << q(opstr(CB->getCalledOperand(), cx));
				}
				os << ",\"args\":[";
				for (unsigned i = 0; i < CB->arg_size(); i++) {
					if (i) os << ",";
					os << q(opstr(CB->getArgOperand(i), cx));
				}
				os << "]";
				if (CB->doesNotReturn()) os << ",\"noreturn\":true";
			} else if (auto *CI = dyn_cast<CmpInst>(&I)) {
				os << ",\"pred\":" << q(predStr(CI->getPredicate()));
				os << ",\"a\":" << q(opstr(CI->getOperand(0), cx)) << ",\"b\":" << q(opstr(CI->getOperand(1), cx));
				os << ",\"opty\":" << q(tystr(CI->getOperand(0)->getType()));
			} else if (auto *BI = dyn_cast<BranchInst>(&I)) {
				if (BI->isConditional()) {
					os << ",\"cond\":" << q(opstr(BI->getCondition(), cx));
					os << ",\"t\":" << cx.bids[BI->getSuccessor(0)] << ",\"f\":" << cx.bids[BI->getSuccessor(1)];
				} else {
					os << ",\"dest\":" << cx.bids[BI->getSuccessor(0)];
				}
			} else if (auto *SW = dyn_cast<SwitchInst>(&I)) {
				os << ",\"cond\":" << q(opstr(SW->getCondition(), cx));
				os << ",\"default\":" << cx.bids[SW->getDefaultDest()] << ",\"cases\":[";
				bool fc = true;
				for (auto &c : SW->cases()) {
					if (!fc) os << ",";
					fc = false;
					os << "[" << c.getCaseValue()->getSExtValue() << "," << cx.bids[c.getCaseSuccessor()] << "]";
				}
				os << "]";
			} else if (auto *PN = dyn_cast<PHINode>(&I)) {
				os << ",\"inc\":[";
				for (unsigned i = 0; i < PN->getNumIncomingValues(); i++) {
					if (i) os << ",";
					os << "[" << q(opstr(PN->getIncomingValue(i), cx)) << "," << cx.bids[PN->getIncomingBlock(i)] << "]";
				}
				os << "]";
			} else if (auto *SE = dyn_cast<SelectInst>(&I)) {
				os << ",\"c\":" << q(opstr(SE->getCondition(), cx));
				os << ",\"a\":" << q(opstr(SE->getTrueValue(), cx)) << ",\"b\":" << q(opstr(SE->getFalseValue(), cx));
			} else if (auto *RI = dyn_cast<ReturnInst>(&I)) {
				if (RI->getReturnValue()) os << ",\"val\":" << q(opstr(RI->getReturnValue(), cx));
			} else if (auto *AI = dyn_cast<AllocaInst>(&I)) {
				os << ",\"aty\":" << q(tystr(AI->getAllocatedType()));
				os << ",\"elsize\":" << DL.getTypeAllocSize(AI->getAllocatedType());
				os << ",\"count\":" << q(opstr(AI->getArraySize(), cx));
			} else if (auto *CA = dyn_cast<CastInst>(&I)) {
				os << ",\"a\":" << q(opstr(CA->getOperand(0), cx));
				os << ",\"fromty\":" << q(tystr(CA->getOperand(0)->getType()));
			} else if (auto *BO = dyn_cast<BinaryOperator>(&I)) {
				os << ",\"a\":" << q(opstr(BO->getOperand(0), cx)) << ",\"b\":" << q(opstr(BO->getOperand(1), cx));
			} else {
				os << ",\"ops\":[";
				for (unsigned i = 0; i < I.getNumOperands(); i++) {
					if (i) os << ",";
					os << q(opstr(I.getOperand(i), cx));
				}
				os << "]";
			}
			os << "}";
		}
		os << "]}";
	}
	os << "]}";
}

int main(int argc, char **argv)
{
	if (argc < 2) {
		errs() << "usage: irdump <module.ll|bc> [unit-name]\n";
		return 2;
	}
	LLVMContext Ctx;
	SMDiagnostic Err;
	std::unique_ptr<Module> M = parseIRFile(argv[1], Err, Ctx);
	if (!M) {
		Err.print(argv[0], errs());
		return 2;
	}
	const DataLayout &DL = M->getDataLayout();
	collectDebugTypes(*M);
	raw_ostream &os = outs();
	os << "{\"unit\":" << q(argc > 2 ? argv[2] : M->getSourceFileName()) << ",";
	// enums
	os << "\"enums\":{";
	bool f = true;
	for (auto &e : gEnums) {
		if (!f) os << ",";
		f = false;
		os << q(e.first) << ":[";
		bool g = true;
		for (auto &p : e.second) {
			if (!g) os << ",";
			g = false;
			os << "[" << q(p.first) << "," << p.second << "]";
		}
		os << "]";
	}
	os << "},\"structs\":{";
	f = true;
	for (auto &s : gStructs) {
		if (!f) os << ",";
		f = false;
		os << q(s.first) << ":{\"size\":" << s.second.sizeBits / 8 << ",\"union\":" << (s.second.isUnion ? "true" : "false")
		   << ",\"fields\":[";
		bool g = true;
		for (auto &m : s.second.members) {
			if (!g) os << ",";
			g = false;
			os << "{\"name\":" << q(m.name) << ",\"off\":" << m.offBits / 8 << ",\"offbits\":" << m.offBits
			   << ",\"sizebits\":" << m.sizeBits << ",\"type\":" << q(m.type) << "}";
		}
		os << "]}";
	}
	os << "},\"globals\":{";
	f = true;
	for (auto &G : M->globals()) {
		if (G.getName().startswith("__PRETTY_FUNCTION__") || G.getName().startswith("__func__"))
			continue;
		if (G.getName().startswith(".str")) {
			if (G.hasInitializer())
				if (auto *cds = dyn_cast<ConstantDataSequential>(G.getInitializer()))
					if (cds->isString()) {
						if (!f) os << ",";
						f = false;
						os << q(G.getName()) << ":{\"type\":\"string\",\"const\":true,\"linkage\":\"internal\",\"init\":{\"str\":"
						   << q(cds->getAsString().rtrim('\0')) << "}}";
					}
			continue;
		}
		if (!f) os << ",";
		f = false;
		os << q(G.getName()) << ":{\"type\":" << q(tystr(G.getValueType()));
		os << ",\"const\":" << (G.isConstant() ? "true" : "false");
		os << ",\"linkage\":" << q(G.hasInternalLinkage() ? "internal" : "external");
		SmallVector<DIGlobalVariableExpression *, 1> gves;
		G.getDebugInfo(gves);
		if (!gves.empty()) {
			auto *gv = gves[0]->getVariable();
			os << ",\"file\":" << q(gv->getFilename()) << ",\"line\":" << gv->getLine();
			os << ",\"ditype\":" << q(ditypename(gv->getType()));
		}
		if (G.hasInitializer()) os << ",\"init\":" << initJson(G.getInitializer());
		os << "}";
	}
	os << "},\"decls\":[";
	f = true;
	for (auto &F : *M) {
		if (!F.isDeclaration()) continue;
		if (F.isIntrinsic() && F.getName().startswith("llvm.dbg")) continue;
		if (!f) os << ",";
		f = false;
		os << q(F.getName());
	}
	os << "],\"functions\":{";
	f = true;
	for (auto &F : *M) {
		if (F.isDeclaration()) continue;
		if (!f) os << ",";
		f = false;
		dumpFunction(F, os, DL);
	}
	os << "}}\n";
	return 0;
}
