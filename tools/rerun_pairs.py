#!/usr/bin/env python3
"""rerun_pairs.py <log> : re-run the (property, stored change) pairs that alarmed or were refused in an earlier replay log"""
import os, re, sys
sys.path.insert(0, os.path.dirname(os.path.dirname(os.path.abspath(__file__))))
os.environ.setdefault("VERIF_JOBS", "2")
os.environ["VERIF_REPLAY_VERBOSE"] = "1"
from engine import regress, pdb as pdbmod
pairs = []
for l in open(sys.argv[1]):
    m = re.match(r"(C\d\d) (\S+)\s+(alarm|analysis)", l)
    if m:
        pairs.append((m.group(1), m.group(2)))
only = set(sys.argv[2:])
jobs = []
for prop, n in pairs:
    if only and prop not in only and n not in only:
        continue
    for kind, base in (("seeded", "seeded"), ("refactoring", "refactors")):
        p = os.path.join(regress.VERIF, base, n, "patch.diff")
        if os.path.exists(p):
            jobs.append((prop, kind, n, p, pdbmod.REPO))
from concurrent.futures import ProcessPoolExecutor
import multiprocessing
with ProcessPoolExecutor(max_workers=8, mp_context=multiprocessing.get_context("fork")) as ex:
    for job, r in zip(jobs, ex.map(regress._one, jobs)):
        print("%s %-10s %-12s %s" % (job[0], r["id"], r["status"][:160], ",".join(r.get("rules", []))))
        for a in r.get("all", []):
            print("      " + a[:500])
